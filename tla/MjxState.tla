----------------------------- MODULE MjxState -----------------------------
\* C44 - MJX data transfer, state-vector API and transformation transparency
\* (mjx/mujoco/mjx/_src/io.py: put_data, get_data, get_data_into, make_data, state_size, get_state, set_state;
\*  jax.jit / jax.vmap of get_state, set_state, step) next to the C state API (mj_stateSize, mj_getState, mj_setState).
\*
\* Two kinds of instances live side by side:
\*      cdat[1..2]   mjData objects of the C engine (mutable)
\*      xdat[1..3]   mjx.Data values (immutable pytrees; a slot holds a reference)
\* Each instance maps the mjNSTATE = 14 state components, plus one pseudo-component DER = "every other field that
\* put_data / get_data transfer" (derived quantities), to a *tag* saying what its numbers are:
\*      0        F : what a freshly made mjData holds
\*      1..NPat  P : user patterns (pairwise different vectors chosen by the replay)
\*      20 + k   D : (DER only) the derived fields mj_forward produced at its k-th call
\*      100 + k  S : what one MJX step produced from the k-th distinct input that was ever stepped (simtab[k])
\* The S tags carry the transparency claim: the result of stepping is a function of the *input* only - not of the mode
\* (eager, jit, vmap over a batch of 1..3) and not of the batch the input was stepped in.
\* State vectors are sequences of segments <<component, tag>> as in StateAPI.tla; the loops are the loops of the code.
EXTENDS Integers, Sequences, FiniteSets, TLC
CONSTANTS NC,        \* state components modelled (14; fewer in the exhaustive design check)
          Dims,      \* sequence of model dimension records
          MaxOps, MaxSims,
          Mode,      \* "free" | "chain"
          Sigs,      \* signatures explored
          ChainMod, ChainRem, \* chain mode: the behaviour continues after state_size iff SigInt(cursig) % ChainMod = ChainRem
          Modes,     \* execution modes explored: subset of {"eager", "jit", "vmap1", "vmap2", "vmap3"}
          NPat,
          W, CW,     \* per-step windows on the signatures / components offered (1 = all); they only thin out the branching
          Bug        \* "none"; other values plant a defect in the specification (negative controls)

CSlots == {1, 2}
XSlots == {1, 2, 3}
NX     == 3
Comps  == 1..NC
DER    == NC + 1
All    == 1..(NC + 1)
\* bit order of mjtState: time qpos qvel act history warmstart ctrl qfrc_applied xfrc_applied eq_active
\*                        mocap_pos mocap_quat userdata plugin
CompSize(m, c) ==
  LET d == Dims[m] IN
  CASE c = 1 -> 1            [] c = 2 -> d.nq          [] c = 3 -> d.nv        [] c = 4 -> d.na
    [] c = 5 -> d.nhistory   [] c = 6 -> d.nv          [] c = 7 -> d.nu        [] c = 8 -> d.nv
    [] c = 9 -> 6 * d.nbody  [] c = 10 -> d.neq        [] c = 11 -> 3 * d.nmocap
    [] c = 12 -> 4 * d.nmocap [] c = 13 -> d.nuserdata [] c = 14 -> d.npluginstate
Models == 1..Len(Dims)
Table  == [m \in Models |-> [c \in 1..NC |-> CompSize(m, c)]]
\* what a step never writes (the user's inputs); everything else, DER included, is a result of the step
InputComps == {7, 8, 9, 10, 11, 12, 13} \cap Comps
F == 0
Patterns == 1..NPat
DTag(k) == 20 + k
STag(k) == 100 + k
BatchOf(md) == CASE md = "vmap2" -> 2 [] md = "vmap3" -> 3 [] OTHER -> 1
IsBatch(md) == md \in {"vmap1", "vmap2", "vmap3"}
\* the batch starting at slot s: s, s+1, ... (cyclically)
BSlots(s, md) == [j \in 1..BatchOf(md) |-> ((s + j - 2) % NX) + 1]

VARIABLES cdat, xdat,
          origin,   \* [XSlots -> data | <<>>]: the mjData contents slot x was put from, while x is unmodified since
          buf,      \* the caller's state vector [sig, seg, src]
          simtab,   \* sequence of the distinct inputs stepped so far
          nfw,      \* number of mj_forward calls so far
          cursig, pc, nops,
          salt,     \* constant along a behaviour: shifts the windows
          ev
vars == <<cdat, xdat, origin, buf, simtab, nfw, cursig, pc, nops, salt, ev>>

NoBuf == [sig |-> {}, seg |-> <<>>, src |-> "none"]
Fresh == [c \in All |-> F]
Filled(p) == [c \in All |-> IF c = DER THEN F ELSE p]

\* ---- the loops of io.py / engine_support.c ------------------------------------------------------------
RECURSIVE SizeLoop(_, _, _)
SizeLoop(m, i, sig) == IF i > NC THEN 0
                       ELSE (IF i \in sig THEN Table[m][i] ELSE 0) + SizeLoop(m, i + 1, sig)
SizeAll(sig) == [m \in Models |-> SizeLoop(m, 1, sig)]

RECURSIVE GetLoop(_, _, _)
GetLoop(i, sig, f) == IF i > NC THEN <<>>
                      ELSE IF Bug = "getorder" /\ i = 1       \* planted: component 1 is written last
                           THEN GetLoop(2, sig, f) \o (IF 1 \in sig THEN <<<<1, f[1]>>>> ELSE <<>>)
                      ELSE (IF i \in sig THEN <<<<i, f[i]>>>> ELSE <<>>) \o GetLoop(i + 1, sig, f)

RECURSIVE SetLoop(_, _, _, _)
SetLoop(i, sig, seg, f) ==
  IF i > NC THEN f
  ELSE IF i \in sig THEN SetLoop(i + 1, sig, Tail(seg), [f EXCEPT ![i] = Head(seg)[2]])
       ELSE SetLoop(i + 1, sig, seg, f)

RECURSIVE SegLen(_, _)
SegLen(m, seg) == IF seg = <<>> THEN 0 ELSE Table[m][Head(seg)[1]] + SegLen(m, Tail(seg))

RECURSIVE Find(_, _, _)
Find(tab, v, i) == IF i > Len(tab) THEN 0 ELSE IF tab[i] = v THEN i ELSE Find(tab, v, i + 1)
RECURSIVE AddInputs(_, _, _)
AddInputs(tab, ins, j) == IF j > Len(ins) THEN tab
                          ELSE AddInputs(IF Find(tab, ins[j], 1) = 0 THEN Append(tab, ins[j]) ELSE tab, ins, j + 1)
StepOf(f, t) == [c \in All |-> IF c \in InputComps /\ ~(Bug = "stepinput" /\ c = 7) THEN f[c] ELSE t]

\* ---- initial state ------------------------------------------------------------------------------------
Init ==
  /\ cursig \in (IF Mode = "chain" THEN Sigs ELSE {{}})
  /\ cdat = IF Mode = "chain" THEN [s \in CSlots |-> Filled(s)] ELSE [s \in CSlots |-> Fresh]
  /\ xdat = IF Mode = "chain" THEN [s \in XSlots |-> IF s = 1 THEN Filled(1) ELSE Filled(3)]
                              ELSE [s \in XSlots |-> Fresh]
  /\ origin = [s \in XSlots |-> <<>>]
  /\ buf = NoBuf /\ simtab = <<>> /\ nfw = 0 /\ pc = 0 /\ nops = 0
  /\ salt \in (IF Mode = "chain" THEN {0} ELSE 0..(W - 1))
  /\ ev = [op |-> "init", table |-> Table]

Tick == nops < MaxOps /\ nops' = nops + 1 /\ salt' = salt

\* ---- actions: one per API call ---------------------------------------------------------------------------
\* mjx.state_size and mj_stateSize
Size(sig) ==
  /\ Tick /\ ev' = [op |-> "size", sig |-> sig, n |-> SizeAll(sig)]
  /\ UNCHANGED <<cdat, xdat, origin, buf, simtab, nfw, cursig>>

\* the user writes one state component of an mjData / replaces one field of an mjx.Data
CFill(d, c, p) ==
  /\ Tick /\ cdat' = [cdat EXCEPT ![d][c] = p]
  /\ ev' = [op |-> "cfill", c |-> d, comp |-> c, p |-> p]
  /\ UNCHANGED <<xdat, origin, buf, simtab, nfw, cursig>>
XFill(x, c, p) ==
  /\ Tick /\ xdat' = [xdat EXCEPT ![x][c] = p] /\ origin' = [origin EXCEPT ![x] = <<>>]
  /\ ev' = [op |-> "xfill", x |-> x, comp |-> c, p |-> p]
  /\ UNCHANGED <<cdat, buf, simtab, nfw, cursig>>

\* ... or all of them (the derived fields keep what they are)
CFillAll(d, p) ==
  /\ Tick /\ cdat' = [cdat EXCEPT ![d] = [c \in All |-> IF c = DER THEN cdat[d][c] ELSE p]]
  /\ ev' = [op |-> "cfillall", c |-> d, p |-> p, val |-> cdat'[d]]
  /\ UNCHANGED <<xdat, origin, buf, simtab, nfw, cursig>>
XFillAll(x, p) ==
  /\ Tick /\ xdat' = [xdat EXCEPT ![x] = [c \in All |-> IF c = DER THEN xdat[x][c] ELSE p]]
  /\ origin' = [origin EXCEPT ![x] = <<>>]
  /\ ev' = [op |-> "xfillall", x |-> x, p |-> p, val |-> xdat'[x]]
  /\ UNCHANGED <<cdat, buf, simtab, nfw, cursig>>

\* mj_forward on an mjData: the derived fields become the result of this call; the state is left alone
CForward(d) ==
  /\ Tick /\ cdat' = [cdat EXCEPT ![d][DER] = DTag(nfw)] /\ nfw' = nfw + 1
  /\ ev' = [op |-> "cforward", c |-> d, tag |-> DTag(nfw)]
  /\ UNCHANGED <<xdat, origin, buf, simtab, cursig>>

\* mjx.put_data: a new mjx.Data with the contents of the mjData (which is not modified)
Put(d, x) ==
  /\ Tick /\ xdat' = [xdat EXCEPT ![x] = cdat[d]] /\ origin' = [origin EXCEPT ![x] = cdat[d]]
  /\ ev' = [op |-> "put", c |-> d, x |-> x, val |-> cdat[d]]
  /\ UNCHANGED <<cdat, buf, simtab, nfw, cursig>>

\* mjx.get_data (a new mjData replaces the slot) / mjx.get_data_into (the slot's mjData is overwritten)
GetData(x, d, into) ==
  /\ Tick /\ cdat' = [cdat EXCEPT ![d] = IF Bug = "getdrop" THEN [xdat[x] EXCEPT ![2] = F] ELSE xdat[x]]
  /\ ev' = [op |-> "getdata", x |-> x, c |-> d, into |-> into, val |-> cdat'[d]]
  /\ UNCHANGED <<xdat, origin, buf, simtab, nfw, cursig>>

\* mjx.make_data (from the MjModel or from the mjx.Model): must equal put_data of a fresh mjData
Make(x, frm) ==
  /\ Tick /\ xdat' = [xdat EXCEPT ![x] = Fresh] /\ origin' = [origin EXCEPT ![x] = Fresh]
  /\ ev' = [op |-> "make", x |-> x, frm |-> frm, val |-> Fresh]
  /\ UNCHANGED <<cdat, buf, simtab, nfw, cursig>>

\* mjx.get_state in some execution mode; a vmap mode evaluates the batch of slots x, x+1, ...
XGet(x, sig, md) ==
  /\ Tick
  /\ LET bs == BSlots(x, md) IN
     /\ buf' = [sig |-> sig, seg |-> GetLoop(1, sig, xdat[x]), src |-> "x"]
     /\ ev' = [op |-> "xget", x |-> x, sig |-> sig, mode |-> md, slots |-> bs, n |-> SizeAll(sig),
               segs |-> [j \in DOMAIN bs |-> GetLoop(1, sig, xdat[bs[j]])]]
  /\ UNCHANGED <<cdat, xdat, origin, simtab, nfw, cursig>>
\* a signature outside [0, 2^mjNSTATE): ValueError, nothing returned
XGetBad(x) ==
  /\ Tick /\ ev' = [op |-> "xgetbad", x |-> x, ret |-> "error"]
  /\ UNCHANGED <<cdat, xdat, origin, buf, simtab, nfw, cursig>>
\* mj_getState
CGet(d, sig) ==
  /\ Tick /\ buf' = [sig |-> sig, seg |-> GetLoop(1, sig, cdat[d]), src |-> "c"]
  /\ ev' = [op |-> "cget", c |-> d, sig |-> sig, n |-> SizeAll(sig), seg |-> buf'.seg]
  /\ UNCHANGED <<cdat, xdat, origin, simtab, nfw, cursig>>
\* the caller fabricates a vector for signature sig filled with pattern p
UserVec(sig, p) ==
  /\ Tick /\ buf' = [sig |-> sig, seg |-> GetLoop(1, sig, [c \in All |-> p]), src |-> "user"]
  /\ ev' = [op |-> "uservec", sig |-> sig, p |-> p, seg |-> buf'.seg]
  /\ UNCHANGED <<cdat, xdat, origin, simtab, nfw, cursig>>

\* mjx.set_state: a NEW mjx.Data (stored in slot dst); the argument is not modified.  In a vmap mode every slot of the
\* batch receives the vector and is replaced by its own result.
XSet(x, dst, md) ==
  /\ Tick /\ buf.src # "none" /\ (IsBatch(md) => dst = x)
  /\ LET bs  == BSlots(x, md)
         tgt == IF IsBatch(md) THEN {bs[j] : j \in DOMAIN bs} ELSE {dst}
         res(s) == SetLoop(1, buf.sig, buf.seg, xdat[IF IsBatch(md) THEN s ELSE x]) IN
     /\ xdat' = [s \in XSlots |-> IF s \in tgt THEN res(s) ELSE xdat[s]]
     /\ origin' = [s \in XSlots |-> IF s \in tgt THEN <<>> ELSE origin[s]]
     /\ ev' = [op |-> "xset", x |-> x, dst |-> dst, mode |-> md, slots |-> bs, sig |-> buf.sig, seg |-> buf.seg,
               tgt |-> tgt, val |-> [s \in XSlots |-> IF s \in tgt THEN res(s) ELSE <<>>]]
  /\ UNCHANGED <<cdat, buf, simtab, nfw, cursig>>
\* a vector whose length differs from state_size(sig): ValueError and no result (vsig = signature the vector was made for)
XSetBadLen(x, sig) ==
  /\ Tick /\ buf.src # "none" /\ sig # buf.sig
  /\ ev' = [op |-> "xsetbad", x |-> x, sig |-> sig, vsig |-> buf.sig, seg |-> buf.seg,
            n |-> SizeAll(sig), nvec |-> SizeAll(buf.sig), ret |-> "error-iff-sizes-differ"]
  /\ UNCHANGED <<cdat, xdat, origin, buf, simtab, nfw, cursig>>
\* mj_setState
CSet(d) ==
  /\ Tick /\ buf.src # "none"
  /\ cdat' = [cdat EXCEPT ![d] = SetLoop(1, buf.sig, buf.seg, cdat[d])]
  /\ ev' = [op |-> "cset", c |-> d, sig |-> buf.sig, seg |-> buf.seg, val |-> cdat'[d]]
  /\ UNCHANGED <<xdat, origin, buf, simtab, nfw, cursig>>

\* mjx.step in some execution mode on the batch x, x+1, ...: every slot is replaced by the step of its own contents
XStep(x, md) ==
  /\ Tick
  /\ LET bs  == BSlots(x, md)
         ins == [j \in DOMAIN bs |-> xdat[bs[j]]]
         tab == AddInputs(simtab, ins, 1)
         tgt == {bs[j] : j \in DOMAIN bs}
         res(s) == StepOf(xdat[s], STag(Find(tab, xdat[s], 1))) IN
     /\ Len(tab) <= MaxSims
     /\ simtab' = tab
     /\ xdat' = [s \in XSlots |-> IF s \in tgt THEN res(s) ELSE xdat[s]]
     /\ origin' = [s \in XSlots |-> IF s \in tgt THEN <<>> ELSE origin[s]]
     /\ ev' = [op |-> "xstep", x |-> x, mode |-> md, slots |-> bs,
               intag |-> [j \in DOMAIN bs |-> Find(tab, ins[j], 1)],
               tgt |-> tgt, val |-> [s \in XSlots |-> IF s \in tgt THEN res(s) ELSE <<>>]]
  /\ UNCHANGED <<cdat, buf, nfw, cursig>>

SigInt(S) == LET f[i \in 0..NC] == IF i = 0 THEN 0 ELSE f[i - 1] + (IF i \in S THEN 2^(i - 1) ELSE 0) IN f[NC]
SigWin  == {S \in Sigs : (SigInt(S) + salt + nops) % W = 0}
CompWin == {c \in Comps : (c + salt + nops) % CW = 0}
\* ---- next-state relations -----------------------------------------------------------------------------------
Free  == Mode = "free" /\ pc' = pc
Chain == Mode = "chain"
Scalar == Modes \cap {"eager", "jit"}
FSize     == Free /\ \E sig \in SigWin : Size(sig)
FCFill    == Free /\ \E d \in CSlots, c \in CompWin, p \in Patterns : CFill(d, c, p)
FXFill    == Free /\ \E x \in XSlots, c \in CompWin, p \in Patterns : XFill(x, c, p)
FCFillAll == Free /\ \E d \in CSlots, p \in Patterns : CFillAll(d, p)
FXFillAll == Free /\ \E x \in XSlots, p \in Patterns : XFillAll(x, p)
FCForward == Free /\ \E d \in CSlots : CForward(d)
FPut      == Free /\ \E d \in CSlots, x \in XSlots : Put(d, x)
FGetData  == Free /\ \E x \in XSlots, d \in CSlots, into \in BOOLEAN : GetData(x, d, into)
FMake     == Free /\ \E x \in XSlots, frm \in {"mj", "mjx"} : Make(x, frm)
FXGet     == Free /\ \E x \in XSlots, sig \in SigWin, md \in Modes : XGet(x, sig, md)
FXGetBad  == Free /\ \E x \in XSlots : XGetBad(x)
FCGet     == Free /\ \E d \in CSlots, sig \in SigWin : CGet(d, sig)
FUserVec  == Free /\ \E sig \in SigWin, p \in Patterns : UserVec(sig, p)
FXSet     == Free /\ \E x \in XSlots, dst \in XSlots, md \in Modes : XSet(x, dst, md)
FXSetBad  == Free /\ \E x \in XSlots, sig \in SigWin : XSetBadLen(x, sig)
FCSet     == Free /\ \E d \in CSlots : CSet(d)
FXStep    == Free /\ \E x \in XSlots, md \in Modes : XStep(x, md)
\* chain mode: one signature per behaviour: size ; get_state (MJX) ; mj_setState of that vector ; mj_getState ;
\* set_state (MJX) of the C vector
KSize == Chain /\ pc = 0 /\ Size(cursig) /\ pc' = 1
KXGet == Chain /\ pc = 1 /\ SigInt(cursig) % ChainMod = ChainRem /\ XGet(1, cursig, "eager") /\ pc' = 2
KCSet == Chain /\ pc = 2 /\ CSet(2) /\ pc' = 3
KCGet == Chain /\ pc = 3 /\ CGet(2, cursig) /\ pc' = 4
KXSet == Chain /\ pc = 4 /\ XSet(2, 2, "eager") /\ pc' = 5
Next == \/ FSize \/ FCFill \/ FXFill \/ FCFillAll \/ FXFillAll \/ FCForward \/ FPut \/ FGetData \/ FMake \/ FXGet \/ FXGetBad \/ FCGet
        \/ FUserVec \/ FXSet \/ FXSetBad \/ FCSet \/ FXStep
        \/ KSize \/ KXGet \/ KCSet \/ KCGet \/ KXSet
Spec == Init /\ [][Next]_vars

\* ---- the property -------------------------------------------------------------------------------------------
TypeOK == /\ \A s \in CSlots : DOMAIN cdat[s] = All
          /\ \A s \in XSlots : DOMAIN xdat[s] = All
          /\ buf.sig \subseteq Comps /\ Len(simtab) <= MaxSims
InSig(sig) == [c \in Comps |-> c \in sig]
Decl(sig, f) == LET member == InSig(sig) IN
                SelectSeq([c \in Comps |-> <<c, f[c]>>], LAMBDA y : member[y[1]])
\* state_size equals the length get_state / mj_getState write, for every model
SizeIsLength == /\ (ev.op = "cget") => \A m \in Models : ev.n[m] = SegLen(m, ev.seg)
                /\ (ev.op = "xget") => \A m \in Models, j \in DOMAIN ev.segs : ev.n[m] = SegLen(m, ev.segs[j])
\* get_state writes exactly the components of the signature, in bit order, with the data's values - in every mode,
\* for every element of a batch
GetIsDecl == /\ (ev.op = "cget") => ev.seg = Decl(ev.sig, cdat[ev.c])
             /\ (ev.op = "xget") => \A j \in DOMAIN ev.segs : ev.segs[j] = Decl(ev.sig, xdat[ev.slots[j]])
\* the two APIs agree: instances with equal contents give equal vectors
ApisAgree == (ev.op = "xget") => \A d \in CSlots : (\A c \in Comps : cdat[d][c] = xdat[ev.x][c]) =>
                                                    ev.segs[1] = GetLoop(1, ev.sig, cdat[d])
\* set_state writes exactly the components of the signature and leaves all others (DER included) and every other
\* instance untouched; the argument of the functional MJX version is not modified
SegVal(sig, seg, c) == seg[Cardinality({k \in sig : k <= c})][2]
XSetRestores == [][(ev'.op = "xset") => \A s \in ev'.tgt :
                      LET src == IF IsBatch(ev'.mode) THEN s ELSE ev'.x IN
                      /\ xdat'[s] = ev'.val[s]
                      /\ \A c \in buf.sig : xdat'[s][c] = SegVal(buf.sig, buf.seg, c)
                      /\ \A c \in All \ buf.sig : xdat'[s][c] = xdat[src][c]]_vars
XSetPure     == [][(ev'.op = "xset") => \A s \in XSlots \ ev'.tgt : xdat'[s] = xdat[s]]_vars
CSetRestores == [][(ev'.op = "cset") =>
                      /\ \A c \in buf.sig : cdat'[ev'.c][c] = SegVal(buf.sig, buf.seg, c)
                      /\ \A c \in All \ buf.sig : cdat'[ev'.c][c] = cdat[ev'.c][c]
                      /\ \A s \in CSlots \ {ev'.c} : cdat'[s] = cdat[s]]_vars
\* get after set returns the vector
SetThenGet == [][(ev'.op = "xset") => \A s \in ev'.tgt : GetLoop(1, buf.sig, xdat'[s]) = buf.seg]_vars
\* put_data copies everything and leaves the mjData alone; get_data copies everything back
PutCopies    == [][(ev'.op = "put") => xdat'[ev'.x] = cdat[ev'.c] /\ cdat' = cdat]_vars
GetCopies    == [][(ev'.op = "getdata") => cdat'[ev'.c] = xdat[ev'.x] /\ xdat' = xdat]_vars
\* put_data followed by get_data (nothing done to the mjx.Data in between) returns the original mjData contents
PutGetIdentity == [][(ev'.op = "getdata" /\ origin[ev'.x] # <<>>) => cdat'[ev'.c] = origin[ev'.x]]_vars
OriginOK     == \A x \in XSlots : origin[x] # <<>> => origin[x] = xdat[x]
\* make_data is put_data of a fresh mjData
MakeIsPutFresh == [][(ev'.op = "make") => xdat'[ev'.x] = Fresh /\ origin'[ev'.x] = Fresh]_vars
\* stepping: inputs untouched, results depend on the input only (same input <=> same tag; modes and batches irrelevant)
StepKeepsInputs == [][(ev'.op = "xstep") => \A s \in ev'.tgt : \A c \in InputComps : xdat'[s][c] = xdat[s][c]]_vars
StepFunctional  == [][(ev'.op = "xstep") => \A s, t \in ev'.tgt :
                         (xdat[s] = xdat[t]) <=> (xdat'[s][DER] = xdat'[t][DER])]_vars
SimTabDistinct  == \A i, j \in DOMAIN simtab : i # j => simtab[i] # simtab[j]
\* queries never modify any instance
QueriesPure == [][(ev'.op \in {"size", "xget", "xgetbad", "cget", "uservec", "xsetbad"}) =>
                    cdat' = cdat /\ xdat' = xdat]_vars

\* ---- constants for the configurations -------------------------------------------------------------------------
AllSigs == SUBSET Comps
MC_SigsEighth == {S \in AllSigs : SigInt(S) % 8 = 3}
MC_SigsSmall == {{}, {1}, {2, 4}, {1, 3, 4}}
MC_SigsTiny == {{2, 4}, {1, 3, 4}}
MC_ModesAll == {"eager", "jit", "vmap1", "vmap2", "vmap3"}
MC_ModesQ   == {"eager", "jit", "vmap2"}
MC_ModesMC  == {"eager", "vmap2"}
MC_Dims4 == << [nq |-> 8, nv |-> 7, na |-> 2, nhistory |-> 0, nu |-> 3, nbody |-> 4, neq |-> 2, nmocap |-> 1,
                nuserdata |-> 5, npluginstate |-> 0] >>
\* the replay models of checks/c44.py (the check verifies that the compiled models have these sizes)
MC_Dims == <<
  [nq |-> 9, nv |-> 8, na |-> 2, nhistory |-> 0,  nu |-> 4, nbody |-> 6, neq |-> 3, nmocap |-> 2, nuserdata |-> 5, npluginstate |-> 0],
  [nq |-> 2, nv |-> 2, na |-> 1, nhistory |-> 0,  nu |-> 3, nbody |-> 3, neq |-> 0, nmocap |-> 0, nuserdata |-> 0, npluginstate |-> 0],
  [nq |-> 0, nv |-> 0, na |-> 0, nhistory |-> 0,  nu |-> 0, nbody |-> 2, neq |-> 0, nmocap |-> 1, nuserdata |-> 2, npluginstate |-> 0],
  [nq |-> 8, nv |-> 7, na |-> 1, nhistory |-> 0,  nu |-> 1, nbody |-> 3, neq |-> 0, nmocap |-> 0, nuserdata |-> 1, npluginstate |-> 0],
  [nq |-> 1, nv |-> 1, na |-> 0, nhistory |-> 10, nu |-> 2, nbody |-> 2, neq |-> 0, nmocap |-> 0, nuserdata |-> 0, npluginstate |-> 0] >>
MaskAlt  == {c \in 1..14 : c % 2 = 0}
MaskAlt2 == {c \in 1..14 : c % 2 = 1}
MaskLow  == 1..7
MaskHigh == 8..14
MaskMid  == 4..11
Mask3    == {c \in 1..14 : c % 3 = 0}
MaskEnds == {1, 2, 13, 14}
MC_Masks == {MaskAlt, MaskAlt2, MaskLow, MaskHigh, MaskMid, Mask3, MaskEnds}
\* signatures of the simulated free-mode behaviours: singletons, complements of singletons, masks, extremes, physics
MC_SigsSim == {{c} : c \in Comps} \cup {Comps \ {c} : c \in Comps} \cup {Comps \cap mk : mk \in MC_Masks}
              \cup {{}, Comps, {1, 2, 3, 4}, {2, 3, 4, 5}, {1, 2, 3, 4, 5, 14}, {7, 8, 9, 10, 11, 12, 13}}
ViewNoEv == <<cdat, xdat, origin, buf, simtab, nfw, cursig, pc, nops, salt>>
=============================================================================
