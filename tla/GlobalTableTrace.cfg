SPECIFICATION TSpec
CONSTANTS
  B = 15
  Pre = 14
  NWr = 3
  NRd = 2
  Reqs <- MC_Reqs3
  Queries <- MC_Queries2
  Bug = "none"
INVARIANT Dense
INVARIANT OneSlotPerKey
INVARIANT BlocksCover
INVARIANT MutexExclusive
INVARIANT NoPartialSeen
INVARIANT WriterResults
INVARIANT NameSlotAgree
CONSTRAINT Track
POSTCONDITION Report
CHECK_DEADLOCK FALSE
