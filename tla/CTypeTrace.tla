----------------------------- MODULE CTypeTrace -----------------------------
\* code -> spec: declarations PRINTED by the implementation (ast_nodes *.decl / __str__) are read back by the
\* specification's ParseType and must denote the AST the implementation holds.
\* TRACE_FILE = JSON array of traces; trace = array of events {"op":"read","toks":[..],"ast":{..}}.
\* A lawful Read step needs WellFormed(toks) /\ ParseType(toks) = ast; otherwise the twin VRead consumes the
\* event and records its position.  Post-condition output as in LeastSquaresTrace.tla.
EXTENDS CType, Json, IOUtils, TLCExt
Traces == JsonDeserialize(IOEnv.TRACE_FILE)
NT == Len(Traces)
VARIABLES tid, l
tvars == <<t, depth, ev, tid, l>>
TInit == /\ tid \in 1..NT /\ TLCSet(tid, 0) /\ TLCSet(NT + tid, << >>) /\ l = 1 /\ Init
Cur == Traces[tid][l]
Consume == l <= Len(Traces[tid]) /\ l' = l + 1 /\ UNCHANGED <<tid, t, depth, ev>>
Lawful(e) == IF WellFormed(e.toks) THEN ParseType(e.toks) = e.ast ELSE FALSE
Note(code) == IF \E k \in 1..Len(TLCGet(NT + tid)) : TLCGet(NT + tid)[k] = <<l, code>> THEN TRUE
              ELSE TLCSet(NT + tid, Append(TLCGet(NT + tid), <<l, code>>))
Read  == Consume /\ Cur.op = "read" /\ Lawful(Cur)
VRead == Consume /\ Cur.op = "read" /\ ~Lawful(Cur) /\ Note(1)
TNext == Read \/ VRead
TSpec == TInit /\ [][TNext]_tvars
Track == IF l - 1 > TLCGet(tid) /\ TLCGet(NT + tid) = << >> THEN TLCSet(tid, l - 1) ELSE TRUE
Accepted == \A x \in 1..NT : TLCGet(x) = Len(Traces[x])
Report == /\ \A x \in 1..NT : PrintT(<<"TRACE", x, TLCGet(x), Len(Traces[x])>>)
          /\ \A x \in 1..NT : \A k \in 1..Len(TLCGet(NT + x)) :
                PrintT(<<"BAD", x, TLCGet(NT + x)[k][1], TLCGet(NT + x)[k][2]>>)
          /\ Accepted
=============================================================================
