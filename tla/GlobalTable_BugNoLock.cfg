SPECIFICATION Spec
CONSTANTS
  B = 15
  Pre = 14
  NWr = 2
  NRd = 1
  Reqs <- MC_Reqs2
  Queries <- MC_Queries1
  Bug = "nolock"
INVARIANT Dense
INVARIANT OneSlotPerKey
INVARIANT BlocksCover
INVARIANT MutexExclusive
INVARIANT NoPartialSeen
INVARIANT WriterResults
INVARIANT NameSlotAgree
PROPERTY Stable
PROPERTY Terminates
