SPECIFICATION Spec
CONSTANTS
  NV = 5
  SelfLoops = FALSE
  Layouts <- AllLayouts
INVARIANT TypeOK
INVARIANT StackFits
INVARIANT Result
INVARIANT Filling
INVARIANT Finished
INVARIANT NoStuck
INVARIANT EmitDone
CHECK_DEADLOCK FALSE
