SPECIFICATION TSpec
CONSTANTS
  NW = 4
  MaxTask = 128
  MaxOps = 100000
  Bug = "none"
  Sizes = {1}
  MaxAlloc = 100000
INVARIANT AtMostOnce
INVARIANT ExactlyOnceAtReturn
INVARIANT NoneRunningAtReturn
INVARIANT ThreadIdsInPool
INVARIANT UnlockedAtReturn
INVARIANT BelowTop
INVARIANT ResvOnlyLocked
INVARIANT OutComplete
CONSTRAINT Track
POSTCONDITION Report
CHECK_DEADLOCK FALSE
