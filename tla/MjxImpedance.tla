----------------------------- MODULE MjxImpedance -----------------------------
\* C43 (constraint clause) - reference acceleration and regularisation of one constraint row on a lattice where they are
\* rational (mjx/_src/constraint.py: _kbi, _efc_limit_slide_hinge, _efc_contact_frictionless, _efc_equality_joint,
\* _efc_friction, make_constraint;  C engine: mj_makeConstraint, mj_makeImpedance / getimpedance, getsolparam).
\* One body of mass m on a slide joint carries ONE constraint of kind
\*      limit     joint range [lo, hi] with margin; lower or upper side      row iff dist < margin
\*      contact   sphere over a plane, explicit pair, condim 1, margin        row iff dist < margin
\*      equality  joint equality q = c0 (polycoef constant)                    always a row, pos of either sign
\*      friction  dof frictionloss                                              always a row, pos = 0
\* with its own solref (standard (timeconst, dampratio) or direct (-stiffness, -damping)) and
\* solimp = (dmin, dmax, width, midpoint, power), integer power so that the sigmoid is a rational function:
\*      x = |pos - margin| / width
\*      y(x) = x^p / mid^(p-1)                    for x <  mid           ("lower" branch)
\*             1 - (1-x)^p / (1-mid)^(p-1)        for mid <= x < 1       ("upper" branch)
\*      imp  = dmin + y (dmax - dmin),   imp = dmin at x = 0 ("start"),   imp = dmax for x >= 1 ("sat")
\*      standard: tc' = max(tc, 2h) (refsafe);  b = 2 / (dmax tc'),  k = 1 / (dmax^2 tc'^2 dampratio^2)
\*      direct:   k = stiffness / dmax^2,  b = damping / dmax            friction rows: k = 0
\*      R = (1 - imp) / imp * invweight,  D = 1 / R,   aref = - b * (J v) - k * imp * (pos - margin)
\* The violation is placed by the environment at depth e = x * width for x on a lattice covering all four regions.
\* Phases: Place (geometry -> pos, margin, J) ; Impede (x, branch, imp) ; Stiffen (k, b) ; Row (R, D, aref).
EXTENDS MjxRat, TLC, FiniteSets
CONSTANTS Kinds,       \* subset of {"limit-lower", "limit-upper", "contact", "equality-pos", "equality-neg", "friction"}
          SolImps,     \* set of records [dmin, dmax, width, mid, power]
          SolRefs,     \* set of records [form : "standard" | "direct", a, b]   (a, b > 0: timeconst/dampratio or stiffness/damping)
          Ms, Hs, Margins,
          Xs,          \* violation depth as a fraction of the zone width
          Vs,          \* joint velocity
          Variant      \* "doc"; "sharedscale" = the upper branch reuses the lower branch's scale factor (negative control)

VARIABLES g, pc, row, ev
vars == <<g, pc, row, ev>>
R(n, d) == Rt(n, d)
RECURSIVE Pow(_, _)
Pow(x, n) == IF n = 0 THEN One ELSE Mul(x, Pow(x, n - 1))

IsLimit(k)    == k \in {"limit-lower", "limit-upper"}
IsEquality(k) == k \in {"equality-pos", "equality-neg"}
Unilateral(k) == IsLimit(k) \/ k = "contact"
Lo == RI(-1)      Hi == RI(3)       Radius == R(1, 2)      C0 == R(1, 2)      FLoss == R(1, 2)

LowerF(si, x) == Div(Pow(x, si.power), Pow(si.mid, si.power - 1))
UpperF(si, x) == Sub(One, Div(Pow(Sub(One, x), si.power),
                              Pow(IF Variant = "sharedscale" THEN si.mid ELSE Sub(One, si.mid), si.power - 1)))
Branch(si, x) == IF IsZero(x) THEN "start" ELSE IF Lt(x, si.mid) THEN "lower" ELSE IF Lt(x, One) THEN "upper" ELSE "sat"
Imp(si, x) == LET br == Branch(si, x)
                  y  == IF br = "start" THEN Zero ELSE IF br = "lower" THEN LowerF(si, x)
                        ELSE IF br = "upper" THEN UpperF(si, x) ELSE One
              IN Clip(Add(si.dmin, Mul(y, Sub(si.dmax, si.dmin))), si.dmin, si.dmax)

NoRow == [q |-> Zero, pos |-> Zero, margin |-> Zero, J |-> Zero, x |-> Zero, branch |-> "none", imp |-> Zero,
          k |-> Zero, b |-> Zero, R |-> Zero, D |-> Zero, aref |-> Zero, tc |-> Zero]

Init == /\ g \in [kind : Kinds, si : SolImps, sr : SolRefs, m : Ms, h : Hs, margin : Margins, x : Xs, v : Vs]
        /\ (Unilateral(g.kind) => ~IsZero(g.x))                   \* a unilateral row exists only for a real violation
        /\ (g.kind = "friction" => IsZero(g.x))                     \* friction rows have pos = 0
        /\ (~Unilateral(g.kind) => g.margin = CHOOSE z \in Margins : TRUE)     \* no margin: one value only
        /\ pc = "place" /\ row = NoRow /\ ev = [op |-> "init"]

\* geometry: the state that realises the violation depth e = x * width, and the row's pos / margin / Jacobian entry
Place ==
  /\ pc = "place"
  /\ LET e  == Mul(g.x, g.si.width)
         mg == IF Unilateral(g.kind) THEN g.margin ELSE Zero
         q  == CASE g.kind = "limit-lower"  -> Sub(Add(Lo, mg), e)
                 [] g.kind = "limit-upper"  -> Add(Sub(Hi, mg), e)
                 [] g.kind = "contact"      -> Sub(mg, e)                  \* body frame origin = sphere centre at Radius
                 [] g.kind = "equality-pos" -> Add(C0, e)
                 [] g.kind = "equality-neg" -> Sub(C0, e)
                 [] g.kind = "friction"     -> R(1, 4)
         pos == CASE Unilateral(g.kind)     -> Sub(mg, e)                  \* the distance
                 [] g.kind = "equality-pos" -> e
                 [] g.kind = "equality-neg" -> Neg(e)
                 [] g.kind = "friction"     -> Zero
         J  == IF g.kind = "limit-upper" THEN RI(-1) ELSE One
     IN row' = [row EXCEPT !.q = q, !.pos = pos, !.margin = mg, !.J = J]
  /\ pc' = "impede" /\ ev' = [op |-> "place"] /\ UNCHANGED g

Impede ==
  /\ pc = "impede"
  /\ LET x == Div(RAbs(Sub(row.pos, row.margin)), g.si.width)
     IN row' = [row EXCEPT !.x = x, !.branch = Branch(g.si, x), !.imp = Imp(g.si, x)]
  /\ pc' = "stiffen" /\ ev' = [op |-> "impede"] /\ UNCHANGED g

Stiffen ==
  /\ pc = "stiffen"
  /\ LET tc == IF g.sr.form = "standard" THEN RMax(g.sr.a, Mul(RI(2), g.h)) ELSE Zero
         k  == IF g.kind = "friction" THEN Zero
               ELSE IF g.sr.form = "standard" THEN Inv(Mul(Sq(g.si.dmax), Mul(Sq(tc), Sq(g.sr.b))))
               ELSE Div(g.sr.a, Sq(g.si.dmax))
         b  == IF g.sr.form = "standard" THEN Div(RI(2), Mul(g.si.dmax, tc)) ELSE Div(g.sr.b, g.si.dmax)
     IN row' = [row EXCEPT !.k = k, !.b = b, !.tc = tc]
  /\ pc' = "row" /\ ev' = [op |-> "stiffen"] /\ UNCHANGED g

Row ==
  /\ pc = "row"
  /\ LET iw == Inv(g.m)
         RR == Mul(Div(Sub(One, row.imp), row.imp), iw)
         ar == Sub(Neg(Mul(row.b, Mul(row.J, g.v))), Mul3(row.k, row.imp, Sub(row.pos, row.margin)))
         r2 == [row EXCEPT !.R = RR, !.D = Inv(RR), !.aref = ar]
     IN /\ row' = r2
        /\ ev' = [op |-> "row", g |-> g, q |-> r2.q, pos |-> r2.pos, margin |-> r2.margin, J |-> r2.J, x |-> r2.x,
                  branch |-> r2.branch, imp |-> r2.imp, k |-> r2.k, b |-> r2.b, D |-> r2.D, aref |-> r2.aref,
                  iw |-> iw, floss |-> (IF g.kind = "friction" THEN FLoss ELSE Zero)]
  /\ pc' = "done" /\ UNCHANGED g

Next == Place \/ Impede \/ Stiffen \/ Row
Spec == Init /\ [][Next]_vars

\* ---- properties ---------------------------------------------------------------------------------------------------
Done == ev.op = "row"
TypeOK == pc \in {"place", "impede", "stiffen", "row", "done"} /\ IsRat(row.imp) /\ IsRat(row.aref)
ImpInRange  == Done => Le(g.si.dmin, ev.imp) /\ Le(ev.imp, g.si.dmax)
StartIsDmin == Done /\ ev.branch = "start" => ev.imp = g.si.dmin
SatIsDmax   == Done /\ ev.branch = "sat" => ev.imp = g.si.dmax
\* the two branches of the sigmoid meet at the midpoint, where y = midpoint
BranchesMeet == LowerF(g.si, g.si.mid) = UpperF(g.si, g.si.mid) /\ LowerF(g.si, g.si.mid) = g.si.mid
\* the sigmoid is monotone: below the midpoint value on the lower branch, above it on the upper branch
MidSplit == Done => LET ymid == Add(g.si.dmin, Mul(g.si.mid, Sub(g.si.dmax, g.si.dmin))) IN
                    /\ (ev.branch = "lower" => Le(ev.imp, ymid))
                    /\ (ev.branch = "upper" => Le(ymid, ev.imp))
\* reference dynamics: standard form is a critically-parametrised spring-damper with the (refsafe) time constant
KBStandard == Done /\ g.sr.form = "standard" =>
                /\ Mul3(ev.b, g.si.dmax, row.tc) = RI(2)
                /\ Le(Mul(RI(2), g.h), row.tc)
                /\ (g.kind # "friction" => Mul(ev.k, Sq(Mul3(g.si.dmax, row.tc, g.sr.b))) = One)
KBDirect   == Done /\ g.sr.form = "direct" => Mul(ev.b, g.si.dmax) = g.sr.b
                                               /\ (g.kind # "friction" => Mul(ev.k, Sq(g.si.dmax)) = g.sr.a)
ArefLaw == Done => ev.aref = Sub(Neg(Mul(ev.b, Mul(ev.J, g.v))), Mul3(ev.k, ev.imp, Sub(ev.pos, ev.margin)))
DLaw    == Done => Mul3(ev.D, Sub(One, ev.imp), ev.iw) = ev.imp
\* a unilateral row exists only on the violated side; at rest its reference acceleration pushes out
UnilateralSign == Done /\ Unilateral(g.kind) => Lt(Sub(ev.pos, ev.margin), Zero)
                                                /\ (IsZero(g.v) => Lt(Zero, ev.aref))

SI(a, b, w, mid, p) == [dmin |-> a, dmax |-> b, width |-> w, mid |-> mid, power |-> p]
SRs(tc, dr) == [form |-> "standard", a |-> tc, b |-> dr]
SRd(kk, bb) == [form |-> "direct", a |-> kk, b |-> bb]
L_Kinds == {"limit-lower", "limit-upper", "contact", "equality-pos", "equality-neg", "friction"}
\* default-like (mid 1/2, power 2), skewed low midpoint with power 3, skewed high midpoint with power 3, linear power 1,
\* wide zone with high midpoint and power 2
L_SI == {SI(R(1, 2), R(7, 8), R(1, 2), R(1, 2), 2), SI(R(1, 2), R(7, 8), R(1, 2), R(1, 4), 3),
         SI(R(1, 8), R(3, 4), R(1, 4), R(3, 4), 3)}
L_SIX == L_SI \cup {SI(R(1, 4), R(7, 8), R(1, 2), R(1, 4), 1), SI(R(1, 2), R(15, 16), One, R(3, 4), 2),
                    SI(R(3, 4), R(3, 4), R(1, 2), R(1, 4), 3)}
L_SR == {SRs(R(1, 2), One), SRs(R(1, 16), R(1, 2)), SRd(RI(4), RI(2))}
L_SRX == L_SR \cup {SRs(R(1, 4), RI(2)), SRd(RI(1), Zero)}
L_M1 == {RI(2)}                  L_M == {RI(2), R(1, 2)}
L_H == {R(1, 16)}
L_Mg == {R(1, 4)}                L_MgX == {Zero, R(1, 4)}
L_X == {Zero, R(1, 8), R(1, 2), R(7, 8), R(5, 4)}
L_XX == {Zero, R(1, 8), R(1, 4), R(3, 8), R(1, 2), R(5, 8), R(3, 4), R(7, 8), One, R(5, 4)}
L_V == {RI(-1), R(1, 2)}         L_VX == {RI(-1), Zero, R(1, 2)}
=============================================================================
