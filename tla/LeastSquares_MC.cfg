SPECIFICATION Spec
CONSTANTS
  MaxN = 2
  MaxKey = 2
  MaxEv = 4
INVARIANT TypeOK
INVARIANT EvalsInsideBounds
INVARIANT TraceNonIncreasing
INVARIANT ReturnInsideAndNoWorse
INVARIANT BoxProper
CHECK_DEADLOCK FALSE
