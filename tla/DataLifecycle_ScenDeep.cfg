SPECIFICATION Spec
CONSTANTS
  NI = 2
  MaxOps = 4
  NPat = 1
  SigNames <- MC_SigsSmall
  GoodSigs <- MC_Good
  SleepOn = FALSE
  Caveat = TRUE
  Phased = FALSE
  Opts <- MC_Opt2
  Scenario = TRUE
  Allowed <- MC_Alpha
INVARIANT TypeOK
INVARIANT DefsInjective
INVARIANT Determinism
INVARIANT GoodSig
INVARIANT FreshIsZero
INVARIANT ObsSound
INVARIANT TwinSound
PROPERTY ReadOnly
PROPERTY Frame
CHECK_DEADLOCK FALSE
