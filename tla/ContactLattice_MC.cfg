SPECIFICATION Spec
CONSTANTS
  ShapesA <- MC_ShapesA
  ShapesB <- MC_ShapesB
  Centers <- MC_Centers
  Margins <- MC_Margins
  MaxOps = 1
INVARIANT Symmetric
INVARIANT ReportIff
INVARIANT SurfaceGap
INVARIANT RegionNonEmpty
INVARIANT GeomDistAgrees
CHECK_DEADLOCK FALSE
