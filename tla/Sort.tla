------------------------------- MODULE Sort -------------------------------
\* The sorting and selection utilities of MuJoCo:
\*   src/engine/engine_sort.h       mjSORT (tiled merge sort: insertion-sorted runs of _mjRUNSIZE, then bottom-up
\*                                  merge passes ping-ponging between arr and buf), mjPARTIAL_SORT (max-heap of k)
\*   src/engine/engine_util_misc.c  mju_insertionSort, mju_insertionSortInt
\*
\* An element is identified by its TAG = its 0-based position in the input; its key is inp[tag].  All arrays
\* are 0-based functions position -> tag so that the index arithmetic below is the C text verbatim.  The
\* comparator sees keys only, hence stability is observable on tags.  JUNK is the content of an uninitialised
\* buffer cell (its key is JunkKey, an element that can never legally reach the output).
\*
\* The module carries (a) the coded algorithms, one action per phase (run / merge / pass / heap scan step) and
\* (b) the definitions the property talks about (StableSorted, PartialSorted, SortedKeys); TLC checks (a)
\* against (b) and the loop invariants in between.  ev of the final state is the oracle of the replay.
EXTENDS Integers, Sequences, FiniteSets, TLC
CONSTANTS MaxLen,     \* InitAll: all arrays of length 0..MaxLen over Keys
          Keys,       \* key domain (integers)
          Runs,       \* values of _mjRUNSIZE (the harness instantiates the macro once per value)
          Ops,        \* subset of {"sort", "psort", "isort"}
          GenLens,    \* InitGen: target lengths, the array is then built key by key (simulation)
          Seeds, SeedLens   \* InitSeed: arrays produced by the generator Lcg below (long arrays, RUN = 32)

VARIABLES n,      \* length of the array
          inp,    \* position -> key
          arr,    \* position -> tag       (the array sorted in place)
          buf,    \* position -> tag       (scratch: n cells for mjSORT, k cells for mjPARTIAL_SORT)
          op, run, k,
          pc,     \* "gen" | "call" | "runs" | "pass" | "scan" | "done"
          start,  \* loop variable of the phase (run start, merge start, scan index)
          len,    \* merge pass: current run length
          src,    \* merge pass: "arr" | "buf" = which array is the source
          target, \* InitGen: length to reach before the call
          ev
vars == <<n, inp, arr, buf, op, run, k, pc, start, len, src, target, ev>>

JUNK == -1
JunkKey == -1000000
N == n
KeyOf(t) == IF t >= 0 /\ t < n THEN inp[t] ELSE JunkKey
\* the comparator given to the macros: three-way comparison of keys
Cmp(a, b) == IF KeyOf(a) < KeyOf(b) THEN -1 ELSE IF KeyOf(a) > KeyOf(b) THEN 1 ELSE 0
Min2(a, b) == IF a < b THEN a ELSE b
\* C integer division (truncation toward zero)
CDiv(a, b) == IF a >= 0 THEN a \div b ELSE -((-a) \div b)
Seq0(f, m) == [i \in 1..m |-> f[i - 1]]            \* first n cells as a TLA+ sequence
Ident(m) == [i \in 0..(m - 1) |-> i]
Junk(m) == [i \in 0..(m - 1) |-> JUNK]

\* ---------------------------------------------------------------------------------------------
\* coded algorithms (engine_sort.h), verbatim index arithmetic
\* ---------------------------------------------------------------------------------------------
\* _mjINSERTION_SORT inner loop:  for (; kk >= st && cmp(arr + kk, &tmp) > 0; kk--) arr[kk+1] = arr[kk];  arr[kk+1] = tmp;
RECURSIVE Shift(_, _, _, _)
Shift(a, kk, st, tmp) == IF kk >= st /\ Cmp(a[kk], tmp) > 0
                         THEN Shift([a EXCEPT ![kk + 1] = a[kk]], kk - 1, st, tmp)
                         ELSE [a EXCEPT ![kk + 1] = tmp]
RECURSIVE InsLoop(_, _, _, _)
InsLoop(a, j, st, en) == IF j < en THEN InsLoop(Shift(a, j - 1, st, a[j]), j + 1, st, en) ELSE a
InsertionSort(a, st, en) == InsLoop(a, st + 1, st, en)

\* memcpy(d + dk, s + si, cnt * sizeof(type))
Copy(d, dk, s, si, cnt) == [x \in DOMAIN d |-> IF x >= dk /\ x < dk + cnt THEN s[si + (x - dk)] ELSE d[x]]

\* _mjMERGE
RECURSIVE MergeLoop(_, _, _, _, _, _, _)
MergeLoop(s, d, i, j, kk, mid, en) ==
  IF i < mid /\ j < en
  THEN IF Cmp(s[i], s[j]) <= 0
       THEN MergeLoop(s, [d EXCEPT ![kk] = s[i]], i + 1, j, kk + 1, mid, en)
       ELSE MergeLoop(s, [d EXCEPT ![kk] = s[j]], i, j + 1, kk + 1, mid, en)
  ELSE IF i < mid THEN Copy(d, kk, s, i, mid - i)
  ELSE IF j < en THEN Copy(d, kk, s, j, en - j)
  ELSE d
Merge(s, d, st, mid, en) == MergeLoop(s, d, st, mid, st, mid, en)

\* _mjSIFT_DOWN on a max heap b[0..en)
RECURSIVE Sift(_, _, _)
Sift(b, root, en) ==
  IF 2 * root + 1 < en
  THEN LET child == 2 * root + 1
           s1 == IF Cmp(b[root], b[child]) < 0 THEN child ELSE root
           s2 == IF child + 1 < en /\ Cmp(b[s1], b[child + 1]) < 0 THEN child + 1 ELSE s1
       IN IF s2 = root THEN b
          ELSE Sift([b EXCEPT ![root] = b[s2], ![s2] = b[root]], s2, en)
  ELSE b
\* for (int j = (k - 2) / 2; j >= 0; j--) _mjSIFT_DOWN(buf, j, k)
RECURSIVE Heapify(_, _, _)
Heapify(b, j, en) == IF j >= 0 THEN Heapify(Sift(b, j, en), j - 1, en) ELSE b

\* ---------------------------------------------------------------------------------------------
\* definitions the property is stated with
\* ---------------------------------------------------------------------------------------------
\* out (a sequence of tags) is the input in non-decreasing key order, equal keys in input order
IsPermOfTags(out, m) == Len(out) = m /\ {out[i] : i \in 1..m} = 0..(m - 1)
StableSorted(out) ==
  /\ IsPermOfTags(out, N)
  /\ \A i, j \in 1..Len(out) : i < j =>
        \/ KeyOf(out[i]) < KeyOf(out[j])
        \/ (KeyOf(out[i]) = KeyOf(out[j]) /\ out[i] < out[j])
\* the same with adjacent pairs only (used on long arrays; equivalent by transitivity, checked below)
StableSortedAdj(out) ==
  /\ IsPermOfTags(out, N)
  /\ \A i \in 1..(Len(out) - 1) :
        \/ KeyOf(out[i]) < KeyOf(out[i + 1])
        \/ (KeyOf(out[i]) = KeyOf(out[i + 1]) /\ out[i] < out[i + 1])
\* out = kk pairwise distinct input elements in non-decreasing key order, none larger than an element left out
PartialSorted(out, kk) ==
  /\ Len(out) = kk
  /\ \A i \in 1..kk : out[i] \in 0..(N - 1)
  /\ \A i, j \in 1..kk : i < j => (out[i] # out[j] /\ KeyOf(out[i]) <= KeyOf(out[j]))
  /\ \A t \in 0..(N - 1) : (\A i \in 1..kk : out[i] # t) => \A i \in 1..kk : KeyOf(out[i]) <= KeyOf(t)
\* plain key arrays (mju_insertionSort*): non-decreasing and the same multiset
CountKey(f, m, x) == Cardinality({i \in 1..m : f[i] = x})
SortedKeys(outkeys) ==
  /\ Len(outkeys) = N
  /\ \A i \in 1..(N - 1) : outkeys[i] <= outkeys[i + 1]
  /\ \A x \in {inp[t] : t \in DOMAIN inp} \cup {outkeys[i] : i \in 1..Len(outkeys)} :
        CountKey(outkeys, N, x) = Cardinality({t \in DOMAIN inp : inp[t] = x})

\* ---------------------------------------------------------------------------------------------
\* initial states
\* ---------------------------------------------------------------------------------------------
Lcg(s, i) == ((s * 7919 + i * 104729 + (s + 3) * (i + 7) * 31 + ((i * i) % 97) * 13) % 1009) % 7
KRange(m) == IF "psort" \in Ops THEN 0..(m + 1) ELSE {0}
GenK(m) == IF "psort" \in Ops THEN {0, 1, m \div 2, m - 1, m} ELSE {0}
Common == /\ pc = "call" /\ start = 0 /\ len = 0 /\ src = "arr" /\ target = 0
          /\ ev = [op |-> "init"]
InitAll ==
  /\ n \in 0..MaxLen /\ inp \in [0..(n - 1) -> Keys]
  /\ op \in Ops /\ run \in Runs /\ k \in KRange(N)
  /\ (op # "sort" => run = CHOOSE r \in Runs : TRUE)
  /\ (op # "psort" => k = 0)
  /\ arr = Ident(N) /\ buf = Junk(IF op = "psort" THEN (IF k \in 1..N THEN k ELSE 0) ELSE N)
  /\ Common
InitSeed ==
  /\ n \in SeedLens /\ \E s \in Seeds : inp = [i \in 0..(n - 1) |-> Lcg(s, i)]
  /\ op \in Ops /\ run \in Runs
  /\ (op # "sort" => run = CHOOSE r \in Runs : TRUE)
  /\ k \in (IF op = "psort" THEN {1, N \div 3, N - 1, N} ELSE {0})
  /\ arr = Ident(N) /\ buf = Junk(IF op = "psort" THEN (IF k \in 1..N THEN k ELSE 0) ELSE N)
  /\ Common
InitGen ==
  /\ n = 0 /\ inp = << >> /\ arr = << >> /\ buf = << >> /\ op = "sort" /\ run = (CHOOSE r \in Runs : TRUE) /\ k = 0
  /\ pc = "gen" /\ start = 0 /\ len = 0 /\ src = "arr" /\ target \in GenLens
  /\ ev = [op |-> "init"]

\* ---------------------------------------------------------------------------------------------
\* actions
\* ---------------------------------------------------------------------------------------------
\* environment: build the input key by key, then choose the call
GenKey(x) ==
  /\ pc = "gen" /\ N < target
  /\ inp' = [i \in 0..N |-> IF i = N THEN x ELSE inp[i]] /\ n' = n + 1
  /\ UNCHANGED <<arr, buf, op, run, k, pc, start, len, src, target, ev>>
GenCall(o, r, kk) ==
  /\ pc = "gen" /\ N = target
  /\ (o # "sort" => r = CHOOSE x \in Runs : TRUE) /\ (o # "psort" => kk = 0)
  /\ op' = o /\ run' = r /\ k' = kk /\ pc' = "call"
  /\ arr' = Ident(N) /\ buf' = Junk(IF o = "psort" THEN (IF kk \in 1..N THEN kk ELSE 0) ELSE N)
  /\ UNCHANGED <<n, inp, start, len, src, target, ev>>

\* ---- mjSORT(name, type, cmp)(arr, buf, n, context)
SortEnter == /\ pc = "call" /\ op = "sort" /\ pc' = "runs" /\ start' = 0
             /\ UNCHANGED <<n, inp, arr, buf, op, run, k, len, src, target, ev>>
\* one run:  _mjINSERTION_SORT(arr, start, min(start + RUN, n))
RunSort == /\ pc = "runs" /\ start < N
           /\ arr' = InsertionSort(arr, start, Min2(start + run, N))
           /\ start' = start + run
           /\ UNCHANGED <<n, inp, buf, op, run, k, pc, len, src, target, ev>>
RunsDone == /\ pc = "runs" /\ start >= N
            /\ pc' = "pass" /\ len' = run /\ start' = 0 /\ src' = "arr"
            /\ UNCHANGED <<n, inp, arr, buf, op, run, k, target, ev>>
S == IF src = "arr" THEN arr ELSE buf
D == IF src = "arr" THEN buf ELSE arr
\* one iteration of the inner loop of a pass: merge [start, mid) and [mid, end) from src into dest, or copy the tail
MergeStep ==
  /\ pc = "pass" /\ len < N /\ start < N
  /\ LET mid == start + len
         en == Min2(start + 2 * len, N)
     IN IF src = "arr"
        THEN /\ buf' = (IF mid < en THEN Merge(arr, buf, start, mid, en) ELSE Copy(buf, start, arr, start, en - start))
             /\ UNCHANGED arr
        ELSE /\ arr' = (IF mid < en THEN Merge(buf, arr, start, mid, en) ELSE Copy(arr, start, buf, start, en - start))
             /\ UNCHANGED buf
  /\ start' = start + 2 * len
  /\ UNCHANGED <<n, inp, op, run, k, pc, len, src, target, ev>>
PassDone == /\ pc = "pass" /\ len < N /\ start >= N
            /\ src' = (IF src = "arr" THEN "buf" ELSE "arr") /\ len' = 2 * len /\ start' = 0
            /\ UNCHANGED <<n, inp, arr, buf, op, run, k, pc, target, ev>>
\* if (src != arr) memcpy(arr, src, n)
SortReturn ==
  /\ pc = "pass" /\ len >= N /\ start = 0
  /\ arr' = S /\ pc' = "done"
  /\ ev' = [op |-> "sort", run |-> run, k |-> 0, in |-> Seq0(inp, N), out |-> Seq0(arr', N),
            outkeys |-> [i \in 1..N |-> KeyOf(arr'[i - 1])]]
  /\ UNCHANGED <<n, inp, buf, op, run, k, start, len, src, target>>

\* ---- mjPARTIAL_SORT(name, type, cmp)(arr, buf, n, k, context)
\* if (k <= 0 || n < k) return;   nothing is selected, nothing is claimed about the array
PartialNoop == /\ pc = "call" /\ op = "psort" /\ (k <= 0 \/ N < k)
               /\ pc' = "done"
               /\ ev' = [op |-> "psort", run |-> run, k |-> k, in |-> Seq0(inp, N), out |-> << >>, outkeys |-> << >>]
               /\ UNCHANGED <<n, inp, arr, buf, op, run, k, start, len, src, target>>
\* fill initial heap
PartialFill == /\ pc = "call" /\ op = "psort" /\ k >= 1 /\ k <= N
               /\ buf' = Heapify(Copy(buf, 0, arr, 0, k), CDiv(k - 2, 2), k)
               /\ pc' = "scan" /\ start' = k
               /\ UNCHANGED <<n, inp, arr, op, run, k, len, src, target, ev>>
\* scan one remaining element
PartialScan == /\ pc = "scan" /\ start < N
               /\ buf' = (IF Cmp(arr[start], buf[0]) < 0 THEN Sift([buf EXCEPT ![0] = arr[start]], 0, k) ELSE buf)
               /\ start' = start + 1
               /\ UNCHANGED <<n, inp, arr, op, run, k, pc, len, src, target, ev>>
\* copy back and sort the result
PartialReturn ==
  /\ pc = "scan" /\ start >= N
  /\ arr' = InsertionSort(Copy(arr, 0, buf, 0, k), 0, k)
  /\ ev' = [op |-> "psort", run |-> run, k |-> k, in |-> Seq0(inp, N), out |-> Seq0(arr', k),
            outkeys |-> [i \in 1..k |-> KeyOf(arr'[i - 1])]]
  /\ pc' = "done"
  /\ UNCHANGED <<n, inp, buf, op, run, k, start, len, src, target>>

\* ---- mju_insertionSort / mju_insertionSortInt (list, n): the same loop with `list[j] > x`
InsertionCall ==
  /\ pc = "call" /\ op = "isort"
  /\ arr' = InsertionSort(arr, 0, N)
  /\ ev' = [op |-> "isort", run |-> run, k |-> 0, in |-> Seq0(inp, N), out |-> Seq0(arr', N),
            outkeys |-> [i \in 1..N |-> KeyOf(arr'[i - 1])]]
  /\ pc' = "done"
  /\ UNCHANGED <<n, inp, buf, op, run, k, start, len, src, target>>

Next == \/ \E x \in Keys : GenKey(x)
        \/ \E o \in Ops, r \in Runs, kk \in GenK(N) : GenCall(o, r, kk)
        \/ SortEnter \/ RunSort \/ RunsDone \/ MergeStep \/ PassDone \/ SortReturn
        \/ PartialNoop \/ PartialFill \/ PartialScan \/ PartialReturn
        \/ InsertionCall
SpecAll  == InitAll  /\ [][Next]_vars /\ WF_vars(Next)
SpecSeed == InitSeed /\ [][Next]_vars /\ WF_vars(Next)
SpecGen  == InitGen  /\ [][Next]_vars /\ WF_vars(Next)

\* ---------------------------------------------------------------------------------------------
\* properties
\* ---------------------------------------------------------------------------------------------
TypeOK == /\ pc \in {"gen", "call", "runs", "pass", "scan", "done"}
          /\ op \in {"sort", "psort", "isort"} /\ src \in {"arr", "buf"}
          /\ n >= 0 /\ DOMAIN inp = 0..(n - 1)
          /\ \A i \in DOMAIN arr : arr[i] \in 0..(n - 1)
          /\ \A i \in DOMAIN buf : buf[i] \in 0..(n - 1) \cup {JUNK}
Done(o) == pc = "done" /\ op = o
\* the property, clause by clause
SortCorrect     == Done("sort") => StableSorted(ev.out)
SortDefsAgree   == Done("sort") => (StableSorted(ev.out) <=> StableSortedAdj(ev.out))
SortInPlace     == Done("sort") => Seq0(arr, N) = ev.out
PartialCorrect  == (Done("psort") /\ k \in 1..N) => PartialSorted(ev.out, k)
PartialRestKept == (Done("psort") /\ k \in 1..N) => \A i \in k..(N - 1) : arr[i] = i      \* arr[k..n) is not written
InsertionCorrect == Done("isort") => (SortedKeys(ev.outkeys) /\ StableSorted(ev.out))
KeysConsistent  == pc = "done" => \A i \in 1..Len(ev.out) : ev.outkeys[i] = KeyOf(ev.out[i])
\* loop invariants of the coded algorithm
BlockSorted(f, lo, hi) == \A i, j \in lo..(hi - 1) : i < j =>
                             (Cmp(f[i], f[j]) < 0 \/ (Cmp(f[i], f[j]) = 0 /\ f[i] < f[j]))
BlockTags(f, lo, hi) == {f[i] : i \in lo..(hi - 1)}
\* runs phase: finished runs are sorted and hold exactly their own elements; the rest is untouched
RunsInv == pc = "runs" =>
  /\ \A b \in 0..(N \div run) : (b * run < start /\ b * run < N) =>
        LET lo == b * run  hi == Min2(lo + run, N)
        IN BlockSorted(arr, lo, hi) /\ BlockTags(arr, lo, hi) = lo..(hi - 1)
  /\ \A i \in start..(N - 1) : arr[i] = i
\* pass phase: the source consists of sorted blocks of `len` holding their own elements; the part of the
\* destination already written consists of sorted blocks of 2 * len holding their own elements
PassInv == pc = "pass" =>
  /\ \A b \in 0..N : b * len < N =>
        LET lo == b * len  hi == Min2(lo + len, N)
        IN BlockSorted(S, lo, hi) /\ BlockTags(S, lo, hi) = lo..(hi - 1)
  /\ \A b \in 0..N : (b * 2 * len < start /\ b * 2 * len < N) =>
        LET lo == b * 2 * len  hi == Min2(lo + 2 * len, N)
        IN BlockSorted(D, lo, hi) /\ BlockTags(D, lo, hi) = lo..(hi - 1)
\* heap scan: buf[0..k) is a max heap of distinct elements seen so far, nothing seen and left out is smaller than its top
HeapInv == pc = "scan" =>
  /\ \A i \in 1..(k - 1) : Cmp(buf[CDiv(i - 1, 2)], buf[i]) >= 0
  /\ \A i, j \in 0..(k - 1) : i # j => buf[i] # buf[j]
  /\ \A i \in 0..(k - 1) : buf[i] \in 0..(start - 1)
  /\ \A t \in 0..(start - 1) : (\A i \in 0..(k - 1) : buf[i] # t) => Cmp(t, buf[0]) >= 0
\* never read an uninitialised cell into the array
NoJunk == \A i \in DOMAIN arr : arr[i] # JUNK
\* the input is never modified after the call started; the only terminal states are returns
InputFrozen == [][pc # "gen" => (inp' = inp /\ n' = n)]_vars
NoStuck == pc # "done" => ENABLED Next
Terminates == <>(pc = "done")

\* the oracle of the replay: TLC prints ev of every returned call (cfg: INVARIANT EmitDone)
EmitDone == (pc = "done") => PrintT(<<"EV", ev>>)

\* ---- constants for the configurations
K3 == {0, 1, 2}
K7 == 0..6
AllOps == {"sort", "psort", "isort"}
SortOnly == {"sort"}
SmallRuns == {2, 3, 4}
Run2 == {2}
Run32 == {32}
NoLens == {}
NoSeeds == {}
MC_GenLens == 9..24
MC_Seeds == 1..12
MC_SeedLens == {30, 31, 32, 33, 63, 64, 65, 96, 100, 128, 129, 150, 200}
=============================================================================
