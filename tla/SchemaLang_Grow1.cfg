SPECIFICATION Spec
CONSTANTS
  MaxGrow = 1
  SeedIds <- GrowSeeds
  GrowT <- AllT
  GrowNames <- NamesAP
  DeclNames <- DNamesQ
  Mutate = FALSE
  MutFrom = 0
  Focused = FALSE
  PumpSizes <- NoPump
  NoisePos <- NoPos
INVARIANT TypeOK
INVARIANT GrowValid
INVARIANT AcceptedSound
PROPERTY GrowMonotone
CHECK_DEADLOCK FALSE
