SPECIFICATION FairSpec
CONSTANTS
  CapMax = 24
  Profiles <- ProfSmall
  MaxSteps = 1
  PairChecked = TRUE
  IslandClears = TRUE
  DualChecked = FALSE
INVARIANT TypeOK
INVARIANT Apart
INVARIANT NoDerefNull
INVARIANT Consistent
INVARIANT WarnIffTruncated
INVARIANT Balanced
INVARIANT Enough
PROPERTY Returns
CHECK_DEADLOCK FALSE
