------------------------------- MODULE MjxRat -------------------------------
\* Exact rational arithmetic for the MJX lattice specifications (MjxLattice.tla, MjxContact.tla).
\* A rational is <<num, den>> with den > 0 in lowest terms, so equality of values is equality of tuples.
\* TLC integers are 32 bit and TLC aborts on overflow (never wraps): the lattices keep numerators and denominators
\* small, and the step guards (`SmallR`) keep multi-step behaviours inside that range.
\* (Same conventions as LawRat.tla of the C-side law specifications; kept separate so that the MJX checks do not
\* depend on a module another property owns.)
EXTENDS Integers, Sequences

RECURSIVE GCD(_, _)
GCD(a, b) == IF b = 0 THEN a ELSE GCD(b, a % b)
IAbs(i)   == IF i < 0 THEN 0 - i ELSE i
Rt(n, d)  == LET g == GCD(IAbs(n), IAbs(d)) IN
             IF d < 0 THEN <<(0 - n) \div g, (0 - d) \div g>> ELSE <<n \div g, d \div g>>
RI(i)     == <<i, 1>>
Zero      == <<0, 1>>
One       == <<1, 1>>
AddL(x, y, g) == Rt(x[1] * (y[2] \div g) + y[1] * (x[2] \div g), (x[2] \div g) * y[2])
MulL(x, y, g1, g2) == <<(x[1] \div g1) * (y[1] \div g2), (x[2] \div g2) * (y[2] \div g1)>>
Add(x, y) == IF x[1] = 0 THEN y ELSE IF y[1] = 0 THEN x ELSE IF x[2] = y[2] THEN Rt(x[1] + y[1], x[2])
             ELSE AddL(x, y, GCD(x[2], y[2]))
Neg(x)    == <<0 - x[1], x[2]>>
Sub(x, y) == Add(x, Neg(y))
Mul(x, y) == IF x[1] = 0 \/ y[1] = 0 THEN Zero ELSE IF x = One THEN y ELSE IF y = One THEN x
             ELSE MulL(x, y, GCD(IAbs(x[1]), y[2]), GCD(IAbs(y[1]), x[2]))
Inv(y)    == IF y[1] < 0 THEN <<0 - y[2], 0 - y[1]>> ELSE <<y[2], y[1]>>         \* y # 0
Div(x, y) == Mul(x, Inv(y))                                                      \* y # 0
Lt(x, y)  == x[1] * y[2] < y[1] * x[2]
Le(x, y)  == x[1] * y[2] <= y[1] * x[2]
IsZero(x) == x[1] = 0
RAbs(x)   == <<IAbs(x[1]), x[2]>>
RMin(x, y) == IF Le(x, y) THEN x ELSE y
RMax(x, y) == IF Le(x, y) THEN y ELSE x
Clip(x, lo, hi) == RMax(lo, RMin(x, hi))
Add3(x, y, z) == Add(Add(x, y), z)
Add4(x, y, z, w) == Add(Add(Add(x, y), z), w)
Mul3(x, y, z) == Mul(Mul(x, y), z)
Sq(x)     == <<x[1] * x[1], x[2] * x[2]>>
Half(x)   == Mul(x, <<1, 2>>)
SmallR(x, B) == IAbs(x[1]) <= B /\ x[2] <= B
IsRat(x) == x[2] > 0 /\ GCD(IAbs(x[1]), x[2]) = 1
Qs(S, d) == {Rt(n, d) : n \in S}                                \* the lattice S / d
=============================================================================
