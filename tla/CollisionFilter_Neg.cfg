SPECIFICATION Spec
CONSTANTS
  MaxBodies = 2
  MaxGeoms = 2
  PerBody = 1
  MaxPairs = 1
  MaxExcl = 1
  MaxOps = 1
  BodyKinds <- MC_Kinds
  Radii <- MC_Radii
  Xs <- MC_Xs
  Zs <- MC_Zs
  Masks <- MC_Masks
  Margins <- MC_Margins
  PairMargins <- MC_PairMargins
  Moves <- MC_Moves
  Toggles <- MC_Toggles
INVARIANT NegExcludeAlwaysWins
CHECK_DEADLOCK FALSE
