------------------------------ MODULE Islands ------------------------------
\* Union-find core of constraint-island discovery (src/engine/engine_island.c): histories of
\*   mj_dsuMerge(parent, t1, t2)      activate / union two incident trees, -1 = static endpoint
\*   mj_dsuRoot(parent, t)            canonical root with path compression (requires parent[t] >= 0)
\*   mj_dsuAssign(island, parent, tree_dofnum, ntree, &nidof)
\* over a forest of N trees.  The state carries the CODED parent array (IslandsCore: link larger root under smaller,
\* path compression, one-pass assignment with compress-by-one) and the ABSTRACT merge history `edges`; what the
\* calls must return (ev) and what an observer must see (obs: canonical root of every tree = smallest tree of its
\* component, header contract "disjoint-set roots are minimum tree indices") is defined from the abstract side,
\* and TLC checks that the coded side agrees.  The replay compares roots / partition / island ids, never the raw
\* parent array (a different but correct compression must not alarm).
EXTENDS IslandsCore
CONSTANTS N, MaxOps
Trees == Range0(N)
DofNum == [t \in Trees |-> ((t * 3) % 4) + 1]      \* tree_dofnum handed to mj_dsuAssign: 1,4,3,2,1,4,...

VARIABLES parent,     \* coded: parent[t] \in -1..N-1
          edges,      \* abstract: set of merged pairs {a, b} ({a} for a singleton activation)
          nops, ev, obs
vars == <<parent, edges, nops, ev, obs>>

ObsOf(H) == [t \in Trees |-> IF t \in ActiveIn(H) THEN Min(Comp(t, H)) ELSE -1]
Init == /\ parent = [t \in Trees |-> -1] /\ edges = {} /\ nops = 0
        /\ ev = [op |-> "init"] /\ obs = ObsOf({})
Step == nops < MaxOps /\ nops' = nops + 1

Merge(a, b) ==
  /\ Step /\ ~(a = -1 /\ b = -1)
  /\ parent' = DsuMerge(parent, a, b)
  /\ edges' = edges \cup {{IF a = -1 THEN b ELSE a, IF b = -1 THEN a ELSE b}}
  /\ ev' = [op |-> "merge", a |-> a, b |-> b]
  /\ obs' = ObsOf(edges')
Root(t) ==
  /\ Step /\ parent[t] # -1
  /\ parent' = DsuRoot(parent, t).parent
  /\ UNCHANGED edges
  /\ ev' = [op |-> "root", t |-> t, ret |-> Min(Comp(t, edges))]
  /\ obs' = ObsOf(edges)
Assign ==
  /\ Step
  /\ parent' = DsuAssign(parent, N, DofNum).parent
  /\ UNCHANGED edges
  /\ ev' = [op |-> "assign", dofnum |-> Seq0(DofNum, N), island |-> Seq0(AbsIslands(N, edges), N),
            nisland |-> AbsNIsland(edges), nidof |-> SumTo([t \in Trees |-> IF t \in ActiveIn(edges) THEN DofNum[t] ELSE 0], N)]
  /\ obs' = ObsOf(edges)
Next == \/ \E a, b \in Trees \cup {-1} : Merge(a, b)
        \/ \E t \in Trees : Root(t)
        \/ Assign
Spec == Init /\ [][Next]_vars

\* ---- properties --------------------------------------------------------------------------------
Active == ActiveIn(edges)
TypeOK     == parent \in [Trees -> -1..(N - 1)] /\ obs = ObsOf(edges)
ActiveIff  == \A t \in Trees : (parent[t] # -1) <=> (t \in Active)
Forest     == \A t \in Active : parent[t] <= t                       \* links point to smaller ids: no cycles
RootIsMin  == \A t \in Active : RootOf(parent, t) = Min(Comp(t, edges))       \* header contract
SameRootIffConnected == \A s, t \in Active : (RootOf(parent, s) = RootOf(parent, t)) <=> (s \in Comp(t, edges))
\* the coded one-pass assignment returns the abstract numbering, count and dof total
AssignMatches ==
  LET r == DsuAssign(parent, N, DofNum)
  IN /\ r.island = AbsIslands(N, edges) /\ r.nisland = AbsNIsland(edges)
     /\ r.nidof = SumTo([t \in Trees |-> IF t \in Active THEN DofNum[t] ELSE 0], N)
\* island ids ascend with the smallest tree of the island; inactive trees are in none
AssignAscending ==
  LET isl == AbsIslands(N, edges)
  IN /\ \A t \in Trees : (isl[t] = -1) <=> (t \notin Active)
     /\ \A s, t \in Active : (isl[s] = isl[t]) <=> (s \in Comp(t, edges))
     /\ \A s, t \in Active : Min(Comp(s, edges)) < Min(Comp(t, edges)) => isl[s] < isl[t]
     /\ {isl[t] : t \in Active} = Range0(AbsNIsland(edges))
\* queries do not change the partition; a root query returns the coded root
RootReturnsCoded == [][ev'.op = "root" => ev'.ret = RootOf(parent, ev'.t)]_vars
QueriesKeepPartition == [][ev'.op \in {"root", "assign"} => (edges' = edges /\ obs' = obs)]_vars
MergeJoins == [][ev'.op = "merge" =>
                   LET x == IF ev'.a = -1 THEN ev'.b ELSE ev'.a  y == IF ev'.b = -1 THEN ev'.a ELSE ev'.b
                   IN obs'[x] = obs'[y] /\ obs'[x] # -1 /\ \A t \in Trees : (obs[t] # -1 => obs'[t] <= obs[t])]_vars
ViewNoEv == <<parent, edges, nops>>
=============================================================================
