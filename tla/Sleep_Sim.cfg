SPECIFICATION Spec
CONSTANTS
  NT = 5
  MINAWAKE = 10
  Eqs <- Sim_Eqs
  Ground <- Ground02
  Never <- Never3
  NoIslands = FALSE
  InitVals <- Init_Real
  Kinds <- AllKinds
INVARIANT TypeOK
INVARIANT CyclesClosed
INVARIANT NoMixedCoupling
INVARIANT TouchingSleepersShareCycle
PROPERTY WakeWhole
PROPERTY CyclesStable
PROPERTY SleepsAsIsland
PROPERTY CountdownRule
PROPERTY WakeOnPerturbation
PROPERTY WakeOnTouch
PROPERTY WakeOnEquality
PROPERTY Frozen
CHECK_DEADLOCK FALSE
