SPECIFICATION Spec
CONSTANTS
  MinN = 1
  MaxN = 1
  Apis <- OnlyLS
  Families <- L_Families
  Modes <- A_Modes
  Jacs <- A_Jacs
  MaxIters <- A_MaxIters
  Boxes <- A_Boxes
  Starts <- A_Starts
  Targets <- A_Targets
  Slopes <- A_Slopes
  Scales <- A_Scales
  Shears <- NoShear
INVARIANT TypeOK
INVARIANT OptFeasible
INVARIANT OptIsBoundedMin
INVARIANT ShearOptIsTarget
INVARIANT WiderThanStep
INVARIANT FdPointFeasible
CHECK_DEADLOCK FALSE
