----------------------------- MODULE MjbFileReal -----------------------------
\* MjbFile evaluated on the format of a real compiled model: schema (size fields, array table, reference
\* arrays with their pristine content) and the list of damaged files come from the JSON file named by the
\* environment variable MJB_WORLD (written by checks/c31.py from the harness' `mjblayout` / `mget` output).
\* TLC prints one line <<"OUT", case, result, reason, pos, need>> per decided case (two lines when both
\* verdicts are admissible): the expected results the implementation is compared with.
EXTENDS MjbFile, Json, IOUtils
World == JsonDeserialize(IOEnv.MJB_WORLD)
\* the JSON object has exactly the fields of a schema (hdr, structs, mapmul, mapsrc, imap, inbuf, inbody, sizes, pvals,
\* arrays, refs) plus `cases`
R_Schema == World
R_CaseIds == 1..Len(World.cases)
R_CaseOf(i) == World.cases[i]
=============================================================================
