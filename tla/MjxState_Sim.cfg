SPECIFICATION Spec
CONSTANTS
  NC = 14
  Dims <- MC_Dims
  MaxOps = 14
  MaxSims = 3
  Mode = "free"
  Sigs <- MC_SigsSim
  ChainMod = 1
  ChainRem = 0
  Modes <- MC_ModesQ
  NPat = 3
  W = 16
  CW = 4
  Bug = "none"
INVARIANT TypeOK
INVARIANT SizeIsLength
INVARIANT GetIsDecl
INVARIANT ApisAgree
INVARIANT OriginOK
INVARIANT SimTabDistinct
PROPERTY XSetRestores
PROPERTY XSetPure
PROPERTY CSetRestores
PROPERTY SetThenGet
PROPERTY PutCopies
PROPERTY GetCopies
PROPERTY PutGetIdentity
PROPERTY MakeIsPutFresh
PROPERTY StepKeepsInputs
PROPERTY StepFunctional
PROPERTY QueriesPure
CHECK_DEADLOCK FALSE
