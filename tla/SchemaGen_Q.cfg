SPECIFICATION GSpec
CONSTANTS
  MaxGrow = 1
  SeedIds <- GSeedFull
  GrowT <- GQuickT
  GrowNames <- GNameP
  DeclNames <- GDecl
  Mutate = FALSE
  MutFrom = 0
  Focused = FALSE
  PumpSizes <- NoPump
  NoisePos <- NoPos
INVARIANT GenTypeOK
INVARIANT XsdComplete
INVARIANT NothingAlien
INVARIANT ProjectionSound
INVARIANT TableBalanced
INVARIANT GenClosed
PROPERTY GenMonotone
CHECK_DEADLOCK FALSE
