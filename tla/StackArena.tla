---------------------------- MODULE StackArena ----------------------------
\* The mjData stack / arena allocator (src/engine/engine_memory.c) on a W-bit machine.
\*
\*   arena   = bytes [Base, Base+narena);  the ARENA grows up from Base (parena bytes used),
\*             the STACK grows down from Bottom = Base+narena (pstack bytes used).
\*   pbase   = address of the current stack frame record (0: no frame), as in mjData.
\*
\* One action per API call:  Mark / Free (mj_markStack, mj_freeStack), Alloc (mj_stackAllocByte),
\* ArenaAlloc (mj_arenaAllocByte), ArenaClear (the engine's "d->parena = 0" rewind), Reset (mj_resetData),
\* LockOn / LockOff (what mju_dispatch does: mark + threadlock=1 ... threadlock=0 + free) and, while locked,
\* the two halves of a pool thread's mj_stackAllocByte: TReserve (the atomic fetch-add on pstack) and TFinish
\* (overflow test and pointer computation from the fetched value), TMark / TFree (no-ops under the lock).
\*
\* The module carries the CONTRACT (exact integer arithmetic: a comparison can not wrap) and, for the
\* sites listed in CodeSites, the code's literal arithmetic modulo 2^W.  With every quantity far from 2^W the two
\* coincide; the W-bit runs show where they part (sizes within a few bytes of 2^W).
\*
\* `ev` is the last call with the result the implementation must return; the replay (checks/c19.py)
\* compares ev.st / ev.ret and pstack, parena, pbase after every call on a real mjData.
EXTENDS Integers, Sequences, FiniteSets, TLC
CONSTANTS W,          \* word size in bits
          Base,       \* address of the arena (multiple of 64, > 0)
          Configs,    \* set of <<arena size, red zone>>; one is chosen initially.  The red zone is what the
                      \* library adds around every stack block when built with AddressSanitizer (mjREDZONE: 0 or 32)
          Sizes,      \* byte counts tried by Alloc / ArenaAlloc / TReserve
          Aligns,     \* alignments tried (powers of two <= 64)
          MaxOps,     \* bound on the number of calls
          MaxFrames,  \* bound on the nesting depth of frames
          Threads,    \* pool threads that may reserve concurrently
          CodeSites   \* subset of {"stack", "arena", "thread"}: sites computed with the code's literal arithmetic
                      \* modulo 2^W; {} is the contract (exact arithmetic, a comparison can not wrap)

M == 2 ^ W
Mod(x) == x % M
XS(site, x) == IF site \in CodeSites THEN Mod(x) ELSE x    \* a machine word holding the value x
FrameSz == 24                                 \* sizeof(mjStackFrame): two size_t and one pointer
FrameAl == 8
NoPend == [size |-> 0, al |-> 1, old |-> 0, alloc |-> 0, st |-> "none", ret |-> 0]

VARIABLES narena, rz, pstack, parena, pbase,
          frames,    \* ghost: sequence of [pbase, pstack, top] saved by Mark (the code keeps it in the arena)
          live,      \* ghost: set of blocks handed out and not yet released
          lock,      \* mjData.threadlock
          pend,      \* thread -> reservation fetched but not yet finished (NoPend: none)
          dead,      \* a stack overflow was raised under the lock: pstack is no longer meaningful
          nops, ev
vars == <<narena, rz, pstack, parena, pbase, frames, live, lock, pend, dead, nops, ev>>

Bottom == Base + narena
Top    == XS("stack", Bottom - pstack)
Limit  == Base + parena
AMod(x, al) == x % al                          \* fastmod(): al is a power of two and divides 2^W

\* stackallocinternal(): allocate `size` bytes below `top`
SAI(top, size, al) ==
  LET s0    == XS("stack", top - (size + rz))
      s1    == XS("stack", s0 - AMod(s0, al))
      nt    == XS("stack", s1 - rz)
      req   == XS("stack", top - nt)
      avail == XS("stack", top - Limit)
  IN  [ok |-> req <= avail, start |-> s1, newtop |-> nt]

Block(lo, size, kind, al) == [id |-> <<nops + 1, 0>>, lo |-> lo, hi |-> lo + size, kind |-> kind, al |-> al]
StackKinds == {"stack", "frame", "tstack"}

InitRest ==
        /\ pstack = 0 /\ parena = 0 /\ pbase = 0 /\ frames = << >> /\ live = {}
        /\ lock = FALSE /\ pend = [t \in Threads |-> NoPend] /\ dead = FALSE
        /\ nops = 0 /\ ev = [op |-> "init"]
Init == (\E c \in Configs : narena = c[1] /\ rz = c[2]) /\ InitRest

Step == nops < MaxOps /\ ~dead /\ nops' = nops + 1

\* ---- single-threaded stack -------------------------------------------------------------------
Alloc(size, al) ==
  /\ Step /\ ~lock
  /\ UNCHANGED <<narena, rz, parena, pbase, frames, lock, pend, dead>>
  /\ IF size = 0
     THEN /\ UNCHANGED <<pstack, live>>
          /\ ev' = [op |-> "alloc", size |-> size, al |-> al, st |-> "null", ret |-> 0]
     ELSE LET r == SAI(Top, size, al) IN
          IF r.ok
          THEN /\ pstack' = XS("stack", Bottom - r.newtop)
               /\ live' = live \cup {Block(r.start, size, "stack", al)}
               /\ ev' = [op |-> "alloc", size |-> size, al |-> al, st |-> "ok", ret |-> r.start - Base]
          ELSE /\ UNCHANGED <<pstack, live>>
               /\ ev' = [op |-> "alloc", size |-> size, al |-> al, st |-> "err", ret |-> 0]

Mark ==
  /\ Step /\ ~lock /\ Len(frames) < MaxFrames
  /\ UNCHANGED <<narena, rz, parena, lock, pend, dead>>
  /\ LET r == SAI(Top, FrameSz, FrameAl) IN
     IF r.ok
     THEN /\ pstack' = XS("stack", Bottom - r.newtop)
          /\ pbase' = r.start
          /\ frames' = Append(frames, [pbase |-> pbase, pstack |-> pstack, top |-> Top])
          /\ live' = live \cup {Block(r.start, FrameSz, "frame", FrameAl)}
          /\ ev' = [op |-> "mark", st |-> "ok", ret |-> r.start - Base]
     ELSE /\ UNCHANGED <<pstack, pbase, frames, live>>
          /\ ev' = [op |-> "mark", st |-> "err", ret |-> 0]

Free ==
  /\ Step /\ ~lock
  /\ UNCHANGED <<narena, rz, parena, lock, pend, dead>>
  /\ IF frames = << >>
     THEN /\ UNCHANGED <<pstack, pbase, frames, live>>          \* pbase = 0: nothing to free
          /\ ev' = [op |-> "free", st |-> "noop", ret |-> 0]
     ELSE LET f == frames[Len(frames)] IN
          /\ pbase' = f.pbase
          /\ pstack' = f.pstack
          /\ frames' = SubSeq(frames, 1, Len(frames) - 1)
          /\ live' = {b \in live : b.kind \notin StackKinds \/ b.lo >= f.top}
          /\ ev' = [op |-> "free", st |-> "ok", ret |-> 0]

\* ---- arena ------------------------------------------------------------------------------------
ArenaAlloc(bytes, al) ==
  /\ Step /\ ~lock
  /\ UNCHANGED <<narena, rz, pstack, pbase, frames, lock, pend, dead>>
  /\ LET mis   == AMod(parena, al)
         pad   == IF mis # 0 THEN al - mis ELSE 0
         avail == XS("arena", narena - pstack)
         \* how padding and bytes relate to the free space (exact): the replay must contain every class, in particular
         \* "sum": padding > 0, padding and bytes each fit but not together
         free  == narena - pstack - parena
         rel   == IF pad + bytes <= free THEN "fit" ELSE IF bytes > free THEN "bytes"
                  ELSE IF pad > free THEN "pad" ELSE "sum"
     IN IF XS("arena", parena + pad + bytes) > avail
        THEN /\ UNCHANGED <<parena, live>>
             /\ ev' = [op |-> "aalloc", size |-> bytes, al |-> al, st |-> "null", ret |-> 0, rel |-> rel]
        ELSE /\ parena' = XS("arena", parena + pad + bytes)
             /\ live' = IF bytes = 0 THEN live ELSE live \cup {Block(Base + parena + pad, bytes, "arena", al)}
             /\ ev' = [op |-> "aalloc", size |-> bytes, al |-> al, st |-> "ok", ret |-> parena + pad, rel |-> rel]

ArenaClear ==
  /\ Step /\ ~lock /\ parena > 0
  /\ UNCHANGED <<narena, rz, pstack, pbase, frames, lock, pend, dead>>
  /\ parena' = 0 /\ live' = {b \in live : b.kind # "arena"}
  /\ ev' = [op |-> "aclear", st |-> "ok", ret |-> 0]

\* mj_resetData: everything is released (the harness also clears threadlock, as mj_makeData would)
Reset ==
  /\ nops < MaxOps /\ nops' = nops + 1 /\ nops > 0
  /\ UNCHANGED <<narena, rz>>
  /\ pstack' = 0 /\ parena' = 0 /\ pbase' = 0 /\ frames' = << >> /\ live' = {}
  /\ lock' = FALSE /\ pend' = [t \in Threads |-> NoPend] /\ dead' = FALSE
  /\ ev' = [op |-> "reset", st |-> "ok", ret |-> 0]

\* ---- thread lock (mju_dispatch) -----------------------------------------------------------------
LockOn ==
  /\ Step /\ ~lock /\ Threads # {} /\ Len(frames) < MaxFrames
  /\ UNCHANGED <<narena, rz, parena, pend, dead>>
  /\ LET r == SAI(Top, FrameSz, FrameAl) IN
     IF r.ok
     THEN /\ pstack' = XS("stack", Bottom - r.newtop) /\ pbase' = r.start /\ lock' = TRUE
          /\ frames' = Append(frames, [pbase |-> pbase, pstack |-> pstack, top |-> Top])
          /\ live' = live \cup {Block(r.start, FrameSz, "frame", FrameAl)}
          /\ ev' = [op |-> "lock", st |-> "ok", ret |-> r.start - Base]
     ELSE /\ UNCHANGED <<pstack, pbase, frames, live, lock>>
          /\ ev' = [op |-> "lock", st |-> "err", ret |-> 0]

\* the atomic fetch-add; the pointer is computed later from the fetched value.  The call's result is already
\* determined here (parena does not move under the lock): ev carries it, TFinish recomputes it (FinishAgrees).
TResult(old, alloc, size, al) ==
  LET avail == XS("thread", narena - parena)
      s0    == XS("thread", Bottom - old - size - rz)
      s1    == XS("thread", s0 - AMod(s0, al))
  IN  IF XS("thread", old + alloc) > avail THEN [st |-> "err", ret |-> 0] ELSE [st |-> "ok", ret |-> s1 - Base]

TReserve(t, size, al) ==
  /\ Step /\ lock /\ pend[t] = NoPend /\ size > 0
  /\ UNCHANGED <<narena, rz, parena, pbase, frames, live, lock, dead>>
  /\ LET alloc == XS("thread", size + al - 1 + 2 * rz)
         r     == TResult(pstack, alloc, size, al) IN
     /\ pstack' = XS("thread", pstack + alloc)
     /\ pend' = [pend EXCEPT ![t] = [size |-> size, al |-> al, old |-> pstack, alloc |-> alloc, st |-> r.st, ret |-> r.ret]]
     /\ ev' = [op |-> "treserve", t |-> t, size |-> size, al |-> al, st |-> r.st, ret |-> r.ret]

TFinish(t) ==
  /\ ~dead /\ lock /\ pend[t] # NoPend
  /\ UNCHANGED <<narena, rz, pstack, parena, pbase, frames, lock, nops>>
  /\ pend' = [pend EXCEPT ![t] = NoPend]
  /\ LET p == pend[t]
         r == TResult(p.old, p.alloc, p.size, p.al)
     IN IF r.st = "err"
        THEN /\ dead' = TRUE /\ UNCHANGED live
             /\ ev' = [op |-> "tfinish", t |-> t, size |-> p.size, al |-> p.al, st |-> "err", ret |-> 0]
        ELSE /\ UNCHANGED dead
             /\ live' = live \cup {[Block(r.ret + Base, p.size, "tstack", p.al) EXCEPT !.id = <<nops, t>>]}
             /\ ev' = [op |-> "tfinish", t |-> t, size |-> p.size, al |-> p.al, st |-> "ok", ret |-> r.ret]

\* mark / free / zero-size allocation from a pool thread: no-ops under the lock
TNoop(kind) ==
  /\ Step /\ lock
  /\ UNCHANGED <<narena, rz, pstack, parena, pbase, frames, live, lock, pend, dead>>
  /\ ev' = [op |-> kind, st |-> "noop", ret |-> 0]

LockOff ==
  /\ Step /\ lock /\ \A t \in Threads : pend[t] = NoPend
  /\ UNCHANGED <<narena, rz, parena, pend, dead>>
  /\ LET f == frames[Len(frames)] IN
     /\ lock' = FALSE /\ pbase' = f.pbase /\ pstack' = f.pstack
     /\ frames' = SubSeq(frames, 1, Len(frames) - 1)
     /\ live' = {b \in live : b.kind \notin StackKinds \/ b.lo >= f.top}
     /\ ev' = [op |-> "unlock", st |-> "ok", ret |-> 0]

Next == \/ \E s \in Sizes, a \in Aligns : Alloc(s, a) \/ ArenaAlloc(s, a)
        \/ Mark \/ Free \/ ArenaClear \/ Reset \/ LockOn \/ LockOff
        \/ \E t \in Threads : TFinish(t) \/ \E s \in Sizes, a \in Aligns : TReserve(t, s, a)
        \/ TNoop("tmark") \/ TNoop("tfree")
Spec == Init /\ [][Next]_vars

\* ---- the property ----------------------------------------------------------------------------------
TypeOK == /\ <<narena, rz>> \in Configs /\ lock \in BOOLEAN /\ dead \in BOOLEAN
          /\ Len(frames) <= MaxFrames /\ nops \in 0..MaxOps
\* every block handed out lies inside the arena ...
InArena  == \A b \in live : Base <= b.lo /\ b.lo <= b.hi /\ b.hi <= Bottom
\* ... is aligned as requested ...
Aligned  == \A b \in live : b.lo % b.al = 0
\* ... and overlaps no other live block (stack blocks are even 2*rz apart)
Disjoint == \A b, c \in live : b.id # c.id => (b.hi <= c.lo \/ c.hi <= b.lo)
RedZoneGap == \A b, c \in live : (b.id # c.id /\ b.kind \in StackKinds /\ c.kind \in StackKinds) =>
                                    (b.hi + 2 * rz <= c.lo \/ c.hi + 2 * rz <= b.lo)
\* the two regions never meet
NonePending == \A t \in Threads : pend[t] = NoPend
Apart    == (~dead /\ NonePending) => (0 <= pstack /\ 0 <= parena /\ parena + pstack <= narena)
Sides    == (~dead /\ NonePending) => \A b \in live : IF b.kind = "arena" THEN b.hi <= Limit
                                     ELSE b.lo >= Limit /\ b.lo >= Bottom - pstack
FramesOK == /\ (pbase = 0) <=> (frames = << >>)
            /\ pbase # 0 => \E b \in live : b.kind = "frame" /\ b.lo = pbase
            /\ lock => frames # << >>
\* freeing restores the marked stack pointer and frame
FreeRestores == [][(ev'.op \in {"free", "unlock"} /\ ev'.st = "ok") =>
                     (pstack' = frames[Len(frames)].pstack /\ pbase' = frames[Len(frames)].pbase)]_vars
\* a mark immediately followed by a free is the identity on the allocator state
MarkFreeId == [][(ev.op = "mark" /\ ev.st = "ok" /\ ev'.op = "free") =>
                     (pstack' = frames[Len(frames)].pstack /\ Len(frames') = Len(frames) - 1)]_vars
\* exhaustion is reported and leaves the allocator as it was
ErrorIsClean == [][(ev'.st \in {"err", "null"} /\ ev'.op \in {"alloc", "mark", "aalloc", "lock"}) =>
                     UNCHANGED <<pstack, parena, pbase, frames, live, lock>>]_vars
\* a failed request really did not fit (no spurious failures): exact arithmetic
NoSpuriousNull == [][(ev'.op = "aalloc" /\ ev'.st = "null") => parena + ev'.size + ev'.al - 1 > narena - pstack]_vars
NoSpuriousErr  == [][(ev'.op = "alloc" /\ ev'.st = "err") => ev'.size + 2 * rz + ev'.al - 1 > narena - pstack - parena]_vars
\* blocks of concurrently reserving threads come from disjoint reservations whatever the finishing order
ReservationsDisjoint ==
  \A t, u \in Threads : (t # u /\ pend[t] # NoPend /\ pend[u] # NoPend) =>
     (pend[t].old + pend[t].alloc <= pend[u].old \/ pend[u].old + pend[u].alloc <= pend[t].old)

\* the result of a pool thread's allocation is fixed by its fetch-add, whatever happens before it finishes
FinishAgrees == [][ev'.op = "tfinish" => (ev'.st = pend[ev'.t].st /\ ev'.ret = pend[ev'.t].ret)]_vars

\* ---- constants for the configurations ------------------------------------------------------------------
NoThreads == {}
Contract == {}
CodeStack == {"stack"}
CodeArena == {"arena"}
CodeThread == {"thread"}
CodeAll == {"stack", "arena", "thread"}
T2 == {1, 2}
T3 == {1, 2, 3}
A_1_8_64 == {1, 8, 64}
A_all == {1, 2, 4, 8, 16, 32, 64}
A_1_8_16 == {1, 8, 16}
AllBytes == 0..(M - 1)
C_96 == {<<96, 0>>}
C_40 == {<<40, 0>>}
C_q == {<<96, 0>>, <<100, 0>>, <<333, 32>>}
C_mix == {<<40, 0>>, <<96, 0>>, <<100, 0>>, <<157, 0>>, <<200, 32>>, <<333, 32>>}
C_100 == {<<100, 0>>, <<333, 32>>}
\* sizes for the replay configurations (W = 16): small ones and ones within 70 bytes of 2^W
S_replay == {0, 1, 3, 8, 24, 40, 72, 100} \cup {M - 1, M - 6, M - 7, M - 8, M - 9, M - 24, M - 64, M - 70}
S_q == {0, 3, 8, 24, 100} \cup {M - 1, M - 7, M - 8, M - 64}
S_3 == {3, 24, M - 7}
A_8 == {8}
A_1_8 == {1, 8}
S_0_50 == 0..50
S_0_20 == 0..20
C_pad == {<<20, 0>>}
S_replay3 == {0, 3, 8, 24, 72} \cup {M - 1, M - 7, M - 8, M - 64}
S_small  == {0, 1, 3, 5, 8, 16, 24, 33, 40, 64, 72, 100, 160}
S_near   == {1, 8, 24, 100} \cup {M - k : k \in 1..9} \cup {M - 24, M - 64, M - 65, M - 97, M - 100}
S_sim    == S_small \cup S_near
S_proto  == {1, 3, 8, 24, 40, 100, 200, 249, 250, 255}
ViewNoEv == <<narena, rz, pstack, parena, pbase, frames, live, lock, pend, dead, nops>>
=============================================================================
