SPECIFICATION Spec
CONSTANTS
  NI = 3
  MaxOps = 12
  NPat = 2
  SigNames <- MC_SigsAll
  GoodSigs <- MC_Good
  SleepOn = FALSE
  Caveat = TRUE
  Phased = TRUE
  Opts <- MC_OptsAll
  Scenario = TRUE
  Allowed <- MC_NoAllowed
INVARIANT TypeOK
INVARIANT DefsInjective
INVARIANT Determinism
INVARIANT GoodSig
INVARIANT FreshIsZero
INVARIANT ObsSound
INVARIANT TwinSound
PROPERTY ReadOnly
PROPERTY Frame
CHECK_DEADLOCK FALSE
