------------------------------ MODULE Rewrites ------------------------------
\* C36: different spellings of the same physical model compile to the same physics.
\*
\* An abstract MJCF document on a lattice where everything is exact: orientations are the 24 proper rotations of
\* the cube (3x3 integer matrices), positions are integer vectors.  A document says HOW things are written:
\*   * every orientation is a SPELLING: quat | axisangle | euler | xyaxes | zaxis  (angles in turns, printed in
\*     degrees or radians according to <compiler angle>);
\*   * geom attributes come from the element, its class, the childclass of an enclosing body / frame, or the
\*     built-in default; classes form a chain main <- c1;
\*   * bodies, geoms and joints may sit inside <frame> elements that contribute a pose and a childclass;
\*   * compiler flags fusestatic / discardvisual.
\* Sem: the document's MEANING is its world view: for every named body / geom / joint that survives
\* compilation (static bodies disappear under fusestatic, visual geoms under discardvisual) the world pose at
\* the reference configuration, the resolved attribute value and, for joints, the world axis.
\* REWRITES change the spelling, not the meaning:
\*   Respell      another spelling of the same rotation       (RotOf decides which spellings those are)
\*   ToggleAngle  degree <-> radian
\*   Explicitize / Implicitize   write the inherited value on the element / drop a value equal to the inherited
\*   HoistClass / SinkClass      class= on every child  <->  childclass= on the body
\*   WrapFrame    put an element into a new frame F and give it the local pose  F^-1 o P
\*                (optionally moving a geom's class= to the frame's childclass=)
\*   Unroll       <replicate count offset euler> around a geom  ->  the copies written out (names name_k)
\*   ToggleFuse, ToggleDiscard   compiler flags (only the surviving elements are compared)
\*   EditMass     a runtime edit of a real-valued parameter: mj_setConst on the compiled model must equal
\*                recompiling the edited document (the two routes are taken by the replay)
\* TLC decides  KeptView(rewritten) is contained in FullView(base)  and equal to KeptView(base) when no element
\* is dropped, for every sequence of rewrites within the bounds.  The replay renders base and rewritten document
\* to MJCF text, compiles both through the real reader and compiler and compares compiled arrays (1e-12), the
\* world poses with the integers of the view, and 20-step trajectories.
EXTENDS Integers, Sequences, FiniteSets, TLC

CONSTANTS MaxNodes, MaxRewrites,
          Rewrs,        \* names of the enabled rewrites
          BaseRots,     \* indices (into RotSeq) of the rotations a base document may use
          BasePos,      \* positions a base document may use
          FramePoses,   \* <<rotation index, position>> pairs for WrapFrame
          GeomOpts,     \* <<class, explicit friction, visual>> triples a base geom may take
          BodyCCs,      \* childclass values a base body may take
          JointOpts,    \* <<type, axis>> pairs a base joint may take
          ClassVals,    \* friction values a class may be given
          ReplOpts,     \* <<count, offset, quarter turns about z>> triples a base replicate may take
          Bug           \* "none" | "wrapinv" (WrapFrame forgets to invert the frame: negative control)

\* ---- integer vectors and matrices (row major 9-tuples) ---------------------------------------------------
\* (results are built as explicit tuples: TLC keeps [x \in S |-> e] lazy and would re-evaluate nested products)
I3 == <<1, 0, 0, 0, 1, 0, 0, 0, 1>>
E(M, i, j) == M[3 * (i - 1) + j]
Tup9(f) == <<f[1], f[2], f[3], f[4], f[5], f[6], f[7], f[8], f[9]>>
Tup3(f) == <<f[1], f[2], f[3]>>
MMul(A, B) == Tup9([x \in 1..9 |-> LET i == (x - 1) \div 3 + 1  j == ((x - 1) % 3) + 1 IN
                E(A, i, 1) * E(B, 1, j) + E(A, i, 2) * E(B, 2, j) + E(A, i, 3) * E(B, 3, j)])
MT(A) == Tup9([x \in 1..9 |-> LET i == (x - 1) \div 3 + 1  j == ((x - 1) % 3) + 1 IN E(A, j, i)])
MV(A, v) == Tup3([i \in 1..3 |-> E(A, i, 1) * v[1] + E(A, i, 2) * v[2] + E(A, i, 3) * v[3]])
VAdd(u, v) == <<u[1] + v[1], u[2] + v[2], u[3] + v[3]>>
VNeg(u) == <<-u[1], -u[2], -u[3]>>
VScl(s, u) == <<s * u[1], s * u[2], s * u[3]>>
Dot(u, v) == u[1] * v[1] + u[2] * v[2] + u[3] * v[3]
Cross(u, v) == <<u[2] * v[3] - u[3] * v[2], u[3] * v[1] - u[1] * v[3], u[1] * v[2] - u[2] * v[1]>>
Sgn(x) == IF x > 0 THEN 1 ELSE IF x < 0 THEN -1 ELSE 0
Unit(v) == <<Sgn(v[1]), Sgn(v[2]), Sgn(v[3])>>         \* for axis-aligned vectors
Cols(x, y, z) == <<x[1], y[1], z[1], x[2], y[2], z[2], x[3], y[3], z[3]>>
Det(A) == E(A,1,1) * (E(A,2,2) * E(A,3,3) - E(A,2,3) * E(A,3,2)) - E(A,1,2) * (E(A,2,1) * E(A,3,3) - E(A,2,3) * E(A,3,1))
        + E(A,1,3) * (E(A,2,1) * E(A,3,2) - E(A,2,2) * E(A,3,1))
Skew(a) == <<0, -a[3], a[2],  a[3], 0, -a[1],  -a[2], a[1], 0>>
Outer(a) == Tup9([x \in 1..9 |-> LET i == (x - 1) \div 3 + 1  j == ((x - 1) % 3) + 1 IN a[i] * a[j]])

\* the 24 rotations: signed permutation matrices of determinant 1, in a fixed order
Perm3 == {p \in [1..3 -> 1..3] : p[1] # p[2] /\ p[1] # p[3] /\ p[2] # p[3]}
SPM(p, s) == Tup9([x \in 1..9 |-> LET i == (x - 1) \div 3 + 1  j == ((x - 1) % 3) + 1 IN IF p[i] = j THEN s[i] ELSE 0])
Rot24 == {m \in {SPM(p, s) : p \in Perm3, s \in [1..3 -> {-1, 1}]} : Det(m) = 1}

\* ---- spellings and their meaning --------------------------------------------------------------------------
\* Rodrigues R = c I + s [n]x + (1 - c) n n^T for the axes and angles of the lattice, in integers:
\*   coordinate axis (|a|^2 = 1), k quarter turns;  face diagonal (|a|^2 = 2), half turn;  body diagonal
\*   (|a|^2 = 3), k thirds of a turn: 2R = -I +- [a]x + a a^T
Cos4(k) == CASE k % 4 = 0 -> 1 [] k % 4 = 1 -> 0 [] k % 4 = 2 -> -1 [] OTHER -> 0
Sin4(k) == CASE k % 4 = 0 -> 0 [] k % 4 = 1 -> 1 [] k % 4 = 2 -> 0 [] OTHER -> -1
AxisAngle(a, k) ==
  LET L == Dot(a, a) IN
  IF L = 1 THEN Tup9([x \in 1..9 |-> Cos4(k) * I3[x] + Sin4(k) * Skew(a)[x] + (1 - Cos4(k)) * Outer(a)[x]])
  ELSE IF L = 2 THEN Tup9([x \in 1..9 |-> -I3[x] + Outer(a)[x]])
  ELSE Tup9([x \in 1..9 |-> (-I3[x] + (IF k = 1 THEN 1 ELSE -1) * Skew(a)[x] + Outer(a)[x]) \div 2])
CoordAxes == {<<1,0,0>>, <<-1,0,0>>, <<0,1,0>>, <<0,-1,0>>, <<0,0,1>>, <<0,0,-1>>}
FaceAxes == {Tup3(a) : a \in {b \in [1..3 -> {-1, 0, 1}] : Dot(b, b) = 2}}
BodyAxes == {Tup3(a) : a \in [1..3 -> {-1, 1}]}
\* euler (sequence xyz, intrinsic): Rx(a) Ry(b) Rz(c)
EulerRot(e) == MMul(MMul(AxisAngle(<<1,0,0>>, e[1]), AxisAngle(<<0,1,0>>, e[2])), AxisAngle(<<0,0,1>>, e[3]))
\* xyaxes: x is normalised, y is made orthogonal to x and normalised, z = x cross y  (any positive scale, any skew)
XYRot(x, y) == LET yo == VAdd(VScl(Dot(x, x), y), VNeg(VScl(Dot(y, x), x)))
                   ux == Unit(x)  uy == Unit(yo) IN Cols(ux, uy, Cross(ux, uy))
\* zaxis: the minimal rotation taking (0,0,1) to z; for z = -(0,0,1) the code turns about x
ZRot(z) == LET c == Cross(<<0,0,1>>, Unit(z)) IN
           IF Dot(c, c) = 0 THEN (IF z[3] > 0 THEN I3 ELSE AxisAngle(<<1,0,0>>, 2)) ELSE AxisAngle(c, 1)

RotOf(s) == CASE s.k = "quat" -> s.g
              [] s.k = "axisangle" -> AxisAngle(s.a, s.n)
              [] s.k = "euler" -> EulerRot(s.e)
              [] s.k = "xyaxes" -> XYRot(s.x, s.y)
              [] OTHER -> ZRot(s.z)
Spell(k, g, a, n, e, x, y, z) == [k |-> k, g |-> g, a |-> a, n |-> n, e |-> e, x |-> x, y |-> y, z |-> z]
Z3 == <<0, 0, 0>>
SQuat(g) == Spell("quat", g, Z3, 0, Z3, Z3, Z3, Z3)
AllSpellings ==
  {SQuat(g) : g \in Rot24}
  \cup {Spell("axisangle", I3, a, n, Z3, Z3, Z3, Z3) : a \in CoordAxes, n \in 0..3}
  \cup {Spell("axisangle", I3, a, 2, Z3, Z3, Z3, Z3) : a \in FaceAxes}
  \cup {Spell("axisangle", I3, a, n, Z3, Z3, Z3, Z3) : a \in BodyAxes, n \in 1..2}
  \cup {Spell("euler", I3, Z3, 0, Tup3(e), Z3, Z3, Z3) : e \in [1..3 -> 0..3]}
  \cup {Spell("xyaxes", I3, Z3, 0, Z3, VScl(sx, xy[1]), VAdd(xy[2], VScl(m, xy[1])), Z3) :
          xy \in {p \in CoordAxes \X CoordAxes : Dot(p[1], p[2]) = 0}, sx \in {1, 2}, m \in {0, 1}}
  \cup {Spell("zaxis", I3, Z3, 0, Z3, Z3, Z3, VScl(sz, z)) : z \in CoordAxes, sz \in {1, 3}}
\* (constant level: evaluated once) every spelling denotes a rotation of the lattice, and every rotation has them
\* (the tables are built only by the configurations that respell: they cost seconds at start-up)
Spelling == "Respell" \in Rewrs
SpellRot == IF Spelling THEN [s \in AllSpellings |-> RotOf(s)] ELSE << >>
SpellingsOf == [g \in Rot24 |-> IF Spelling THEN {s \in AllSpellings : SpellRot[s] = g} ELSE {}]
ASSUME Spelling => \A s \in AllSpellings : SpellRot[s] \in Rot24
ASSUME Spelling => \A g \in Rot24 : \E s \in SpellingsOf[g] : s.k = "euler"
ASSUME Spelling => \A g \in Rot24 : \E s \in SpellingsOf[g] : s.k = "axisangle"
ASSUME Spelling => \A g \in Rot24 : \E s \in SpellingsOf[g] : s.k = "xyaxes"
\* the rotations in a fixed order: six hand-picked ones first (identity, quarter turn about z, half turn about x,
\* third of a turn about (1,1,1), three quarter turns about y, half turn about (1,0,1)), then the other 18
RECURSIVE SetToSeq(_)
SetToSeq(S) == IF S = {} THEN << >> ELSE LET x == CHOOSE y \in S : TRUE IN <<x>> \o SetToSeq(S \ {x})
RotHead == <<I3, AxisAngle(<<0,0,1>>, 1), AxisAngle(<<1,0,0>>, 2), AxisAngle(<<1,1,1>>, 1), AxisAngle(<<0,1,0>>, 3),
             AxisAngle(<<1,0,1>>, 2)>>
RotSeq == RotHead \o SetToSeq(Rot24 \ {RotHead[i] : i \in 1..6})

\* ---- poses -------------------------------------------------------------------------------------------------
Pose(R, t) == [R |-> R, t |-> t]
PId == Pose(I3, Z3)
PMul(p, q) == Pose(MMul(p.R, q.R), VAdd(MV(p.R, q.t), p.t))
PInv(p) == Pose(MT(p.R), VNeg(MV(MT(p.R), p.t)))

\* ---- documents ----------------------------------------------------------------------------------------------
\* node: [t : "body" | "frame" | "geom" | "joint" | "replicate" | "dead", up, name (0: anonymous), ord, ori, pos, cls, cc, fric, jt, axis, vis, mass]
\*   cls : class attribute of a geom ("" none);  cc : childclass of a body / frame ("" none)
\*   fric : explicit friction value or -1 (unset); jt : "hinge" | "slide" (joints);  axis : joint axis
\*   vis : the geom is purely visual (contype = conaffinity = 0);   mass : body mass (explicit inertial)
Vals == ClassVals
Classes == {"main", "c1"}
ClsParent(c) == IF c = "c1" THEN "main" ELSE ""

VARIABLES base,    \* the document as first written
          cur,     \* the rewritten document
          log,     \* the rewrites applied (names)
          phase,   \* "build" | "rewrite"
          ev
vars == <<base, cur, log, phase, ev>>

EmptyDoc == [angle |-> "degree", fuse |-> FALSE, discard |-> FALSE,
             cls |-> [c \in Classes |-> -1], nodes |-> << >>, edit |-> << >>]
Node(t, up, name, ord, ori, pos, cls, cc, fric, jt, axis, vis, mass) ==
  [t |-> t, up |-> up, name |-> name, ord |-> ord, ori |-> ori, pos |-> pos, cls |-> cls, cc |-> cc, fric |-> fric,
   jt |-> jt, axis |-> axis, vis |-> vis, mass |-> mass,
   copy |-> -1,     \* >= 0: this element is copy number `copy` of a written-out replicate (name suffix _copy)
   cnt |-> 0]       \* replicate nodes: number of copies; pos is the offset, ori (an euler spelling about z) the rotation

RECURSIVE OwnerOf(_, _)
OwnerOf(ns, c) == IF c = 0 THEN 0 ELSE IF ns[c].t = "body" THEN c ELSE OwnerOf(ns, ns[c].up)
\* the replicate an element sits in (through frames), 0 if none
RECURSIVE ReplOf(_, _)
ReplOf(ns, c) == IF c = 0 THEN 0 ELSE IF ns[c].t = "replicate" THEN c ELSE IF ns[c].t = "frame" THEN ReplOf(ns, ns[c].up) ELSE 0
Containers(ns) == {0} \cup {i \in 1..Len(ns) : ns[i].t \in {"body", "frame", "replicate", "dead"}}
HasJoint(ns, b) == \E j \in 1..Len(ns) : ns[j].t = "joint" /\ OwnerOf(ns, ns[j].up) = b

\* class tables: the value a class supplies (own value, else the parent's, else built-in 0)
RECURSIVE ClassVal(_, _)
ClassVal(d, c) == IF c = "" THEN 0 ELSE IF d.cls[c] # -1 THEN d.cls[c] ELSE ClassVal(d, ClsParent(c))
\* the class the context supplies to the children of container c
RECURSIVE Ctx(_, _)
Ctx(d, c) == IF c = 0 THEN "main" ELSE IF d.nodes[c].cc # "" THEN d.nodes[c].cc ELSE Ctx(d, d.nodes[c].up)
Fric(d, i) == LET n == d.nodes[i] IN
              IF n.fric # -1 THEN n.fric ELSE ClassVal(d, IF n.cls # "" THEN n.cls ELSE Ctx(d, n.up))
\* world pose of node / container c (0 = world) in copy k of the replicate it sits in (k = -1: none).
\* <replicate count offset euler>: copy k of the content sits in the frame T^k, T = (rotation, offset)
RECURSIVE TPow(_, _)
TPow(T, k) == IF k <= 0 THEN PId ELSE PMul(TPow(T, k - 1), T)
RECURSIVE WPoseK(_, _, _)
WPoseK(d, c, k) ==
  IF c = 0 THEN PId
  ELSE LET n == d.nodes[c] IN
       IF n.t = "replicate" THEN PMul(WPoseK(d, n.up, -1), TPow(Pose(RotOf(n.ori), n.pos), k))
       ELSE PMul(WPoseK(d, n.up, k), Pose(RotOf(n.ori), n.pos))
WPose(d, c) == WPoseK(d, c, -1)
Copies(d, i) == LET r == ReplOf(d.nodes, d.nodes[i].up) IN IF r = 0 THEN {-1} ELSE 0..(d.nodes[r].cnt - 1)
\* what survives compilation
Static(d, b) == ~HasJoint(d.nodes, b)
Kept(d, i) == LET n == d.nodes[i] IN
  /\ n.name # 0 /\ n.t \in {"body", "geom", "joint"}
  /\ (n.t = "body" => ~(d.fuse /\ Static(d, i)))
  /\ (n.t = "geom" => ~(d.discard /\ n.vis))
EntryK(d, i, k) == LET n == d.nodes[i]  w == WPoseK(d, i, k) IN
  [name |-> n.name, copy |-> IF k >= 0 THEN k ELSE n.copy, t |-> n.t, wpos |-> w.t,
   wrot |-> IF n.t = "joint" THEN I3 ELSE w.R,
   waxis |-> IF n.t = "joint" THEN MV(WPoseK(d, n.up, k).R, n.axis) ELSE Z3,
   fric |-> IF n.t = "geom" THEN Fric(d, i) ELSE 0,
   mass |-> IF n.t = "body" THEN n.mass ELSE 0]
Named(d) == {j \in 1..Len(d.nodes) : d.nodes[j].name # 0 /\ d.nodes[j].t \in {"body", "geom", "joint"}}
FullView(d) == UNION {{EntryK(d, i, k) : k \in Copies(d, i)} : i \in Named(d)}
KeptView(d) == UNION {{EntryK(d, i, k) : k \in Copies(d, i)} : i \in {j \in 1..Len(d.nodes) : Kept(d, j)}}
EntriesOf(d, i) == LET ks == Copies(d, i) IN
  IF ks = {-1} THEN <<EntryK(d, i, -1)>> ELSE [x \in 1..Cardinality(ks) |-> EntryK(d, i, x - 1)]

\* ---- building a base document --------------------------------------------------------------------------------
Init == base = EmptyDoc /\ cur = EmptyDoc /\ log = << >> /\ phase = "build" /\ ev = [op |-> "init"]
Grow(n) == /\ phase = "build" /\ Len(base.nodes) < MaxNodes
           /\ base' = [base EXCEPT !.nodes = Append(@, n)] /\ UNCHANGED <<cur, log, phase, ev>>
Nxt == Len(base.nodes) + 1
AddBody(up, r, p, cc) ==
  /\ up \in {0} \cup {i \in 1..Len(base.nodes) : base.nodes[i].t = "body"}
  /\ Grow(Node("body", up, Nxt, Nxt, SQuat(RotSeq[r]), p, "", cc, -1, "", Z3, FALSE, 1))
AddReplicate(up, ro) ==      \* ro = <<count, offset, quarter turns about z>>
  /\ up \in {0} \cup {i \in 1..Len(base.nodes) : base.nodes[i].t = "body"}
  /\ Grow([Node("replicate", up, 0, Nxt, Spell("euler", I3, Z3, 0, <<0, 0, ro[3]>>, Z3, Z3, Z3), ro[2], "", "", -1, "", Z3, FALSE, 0)
             EXCEPT !.cnt = ro[1]])
AddGeom(up, r, p, cls, f, vis) ==
  /\ up \in {0} \cup {i \in 1..Len(base.nodes) : base.nodes[i].t \in {"body", "replicate"}}
  /\ Grow(Node("geom", up, Nxt, Nxt, SQuat(RotSeq[r]), p, cls, "", f, "", Z3, vis, 0))
AddJoint(up, jt, ax) ==
  /\ up \in {i \in 1..Len(base.nodes) : base.nodes[i].t = "body"}
  /\ ~\E j \in 1..Len(base.nodes) : base.nodes[j].t = "joint" /\ base.nodes[j].up = up     \* one joint per body
  /\ Grow(Node("joint", up, Nxt, Nxt, SQuat(I3), Z3, "", "", -1, jt, ax, FALSE, 0))
SetClass(c, v) == /\ phase = "build" /\ base.nodes = << >> /\ base.cls[c] = -1
                  /\ base' = [base EXCEPT !.cls[c] = v] /\ UNCHANGED <<cur, log, phase, ev>>
Start == /\ phase = "build" /\ \E i \in 1..Len(base.nodes) : base.nodes[i].t = "geom"
         /\ phase' = "rewrite" /\ cur' = base /\ UNCHANGED <<base, log>>
         /\ ev' = [op |-> "start"]

\* ---- rewrites ---------------------------------------------------------------------------------------------------
Rw(name) == /\ phase = "rewrite" /\ name \in Rewrs /\ Len(log) < MaxRewrites /\ log' = Append(log, name)
            /\ UNCHANGED <<base, phase>>
Done(d) == /\ cur' = d
           /\ ev' = [op |-> "rewrite",
                     \* node by node: the entry of a surviving named element (a record with name 0 otherwise)
                     kept |-> [i \in 1..Len(d.nodes) |-> IF Kept(d, i) THEN EntriesOf(d, i) ELSE << >>],
                     samearrays |-> (d.fuse = base.fuse /\ d.discard = base.discard /\ d.edit = << >>
                                     /\ ~\E i \in 1..Len(d.nodes) : d.nodes[i].t = "dead")]
Oriented(d) == {i \in 1..Len(d.nodes) : d.nodes[i].t \in {"body", "geom", "frame"}}
Respell(i, s) ==
  /\ Rw("Respell") /\ i \in Oriented(cur) /\ s \in SpellingsOf[RotOf(cur.nodes[i].ori)] /\ s # cur.nodes[i].ori
  /\ Done([cur EXCEPT !.nodes[i].ori = s])
ToggleAngle == Rw("ToggleAngle") /\ Done([cur EXCEPT !.angle = IF @ = "degree" THEN "radian" ELSE "degree"])
Geoms(d) == {i \in 1..Len(d.nodes) : d.nodes[i].t = "geom"}
Explicitize(i) == /\ Rw("Explicitize") /\ i \in Geoms(cur) /\ cur.nodes[i].fric = -1 /\ Fric(cur, i) # 0
                  /\ Done([cur EXCEPT !.nodes[i].fric = Fric(cur, i)])
Implicitize(i) ==
  /\ Rw("Implicitize") /\ i \in Geoms(cur) /\ cur.nodes[i].fric # -1
  /\ LET d == [cur EXCEPT !.nodes[i].fric = -1] IN Fric(d, i) = cur.nodes[i].fric /\ Done(d)
\* class= c1 on every geom of a body  <->  childclass= c1 on the body (body without nested bodies / frames)
Simple(d, b) == d.nodes[b].t = "body" /\ ~\E j \in 1..Len(d.nodes) : d.nodes[j].up = b /\ d.nodes[j].t \in {"body", "frame"}
GeomsOf(d, b) == {j \in Geoms(d) : d.nodes[j].up = b}
HoistClass(b, c) ==
  /\ Rw("HoistClass") /\ b \in 1..Len(cur.nodes) /\ Simple(cur, b) /\ cur.nodes[b].cc = "" /\ GeomsOf(cur, b) # {}
  /\ \A j \in GeomsOf(cur, b) : cur.nodes[j].cls = c
  /\ Done([cur EXCEPT !.nodes = [j \in 1..Len(cur.nodes) |->
             IF j = b THEN [cur.nodes[j] EXCEPT !.cc = c] ELSE IF j \in GeomsOf(cur, b) THEN [cur.nodes[j] EXCEPT !.cls = ""]
             ELSE cur.nodes[j]]])
SinkClass(b) ==
  /\ Rw("SinkClass") /\ b \in 1..Len(cur.nodes) /\ Simple(cur, b) /\ cur.nodes[b].cc # ""
  /\ Done([cur EXCEPT !.nodes = [j \in 1..Len(cur.nodes) |->
             IF j = b THEN [cur.nodes[j] EXCEPT !.cc = ""]
             ELSE IF j \in GeomsOf(cur, b) /\ cur.nodes[j].cls = "" THEN [cur.nodes[j] EXCEPT !.cls = cur.nodes[b].cc]
             ELSE cur.nodes[j]]])
\* element i moves into a new frame with pose F; its own pose becomes F^-1 o P (joints: position and axis)
\* with hoist, a geom's class= moves to the new frame as childclass=
WrapFrame(i, fp, hoist) ==
  /\ Rw("WrapFrame") /\ i \in 1..Len(cur.nodes) /\ Len(cur.nodes) < MaxNodes + MaxRewrites
  /\ (hoist => cur.nodes[i].t = "geom" /\ cur.nodes[i].cls # "")
  /\ cur.nodes[i].t \in {"body", "geom", "joint", "frame"}      \* (a replicate's offset / rotation is not a pose)
  /\ LET n == cur.nodes[i]
         F == Pose(RotSeq[fp[1]], fp[2])
         Fi == IF Bug = "wrapinv" THEN F ELSE PInv(F)
         P == Pose(RotOf(n.ori), n.pos)
         Q == PMul(Fi, P)
         fr == Node("frame", n.up, 0, n.ord, SQuat(F.R), F.t, "", IF hoist THEN n.cls ELSE "", -1, "", Z3, FALSE, 0)
         k == Len(cur.nodes) + 1
         moved == IF n.t = "joint" THEN [n EXCEPT !.up = k, !.pos = Q.t, !.axis = MV(Fi.R, n.axis)]
                  ELSE [n EXCEPT !.up = k, !.ori = SQuat(Q.R), !.pos = Q.t, !.cls = IF hoist THEN "" ELSE @]
     IN Done([cur EXCEPT !.nodes = Append([@ EXCEPT ![i] = moved], fr)])
\* <replicate> written out: the replicate and its (single, direct) geom disappear, count geoms named name_k appear
\* in the replicate's container with the local pose T^k o P
Unroll(r) ==
  /\ Rw("Unroll") /\ r \in 1..Len(cur.nodes) /\ cur.nodes[r].t = "replicate"
  /\ LET kids == {j \in 1..Len(cur.nodes) : cur.nodes[j].up = r} IN
     /\ Cardinality(kids) = 1
     /\ LET c == CHOOSE j \in kids : TRUE
            n == cur.nodes[c]
            T == Pose(RotOf(cur.nodes[r].ori), cur.nodes[r].pos)
            new == [x \in 1..cur.nodes[r].cnt |->
                      LET Q == PMul(TPow(T, x - 1), Pose(RotOf(n.ori), n.pos)) IN
                      [n EXCEPT !.up = cur.nodes[r].up, !.ord = cur.nodes[r].ord, !.copy = x - 1, !.ori = SQuat(Q.R), !.pos = Q.t]]
        IN /\ n.t = "geom"
           /\ Done([cur EXCEPT !.nodes = [j \in 1..Len(cur.nodes) |->
                      IF j = r \/ j = c THEN [cur.nodes[j] EXCEPT !.t = "dead", !.name = 0] ELSE cur.nodes[j]] \o new])
ToggleFuse == Rw("ToggleFuse") /\ Done([cur EXCEPT !.fuse = ~@])
ToggleDiscard == Rw("ToggleDiscard") /\ Done([cur EXCEPT !.discard = ~@])
\* runtime edit of a body mass: the replay realises it (a) by recompiling cur and (b) by editing the compiled model
\* of the document before the edit and calling mj_setConst
EditMass(b, m) ==
  /\ Rw("EditMass") /\ b \in 1..Len(cur.nodes) /\ cur.nodes[b].t = "body" /\ cur.nodes[b].mass # m /\ cur.edit = << >>
  /\ Done([cur EXCEPT !.nodes[b].mass = m, !.edit = <<[name |-> cur.nodes[b].name, mass |-> m]>>])

Next ==
  \/ \E c \in Classes, v \in Vals : SetClass(c, v)
  \/ \E up \in 0..MaxNodes, r \in BaseRots, p \in BasePos :
       \/ \E cc \in BodyCCs : AddBody(up, r, p, cc)
       \/ \E g \in GeomOpts : AddGeom(up, r, p, g[1], g[2], g[3])
  \/ \E up \in 1..MaxNodes, j \in JointOpts : AddJoint(up, j[1], j[2])
  \/ \E up \in 0..MaxNodes, ro \in ReplOpts : AddReplicate(up, ro)
  \/ Start
  \/ \E i \in 1..(MaxNodes + MaxRewrites) : \/ \E s \in AllSpellings : Respell(i, s)
                                            \/ Explicitize(i) \/ Implicitize(i)
                                            \/ \E c \in {"c1"} : HoistClass(i, c)
                                            \/ SinkClass(i)
                                            \/ \E fp \in FramePoses, h \in BOOLEAN : WrapFrame(i, fp, h)
                                            \/ \E m \in {3} : EditMass(i, m)
                                            \/ Unroll(i)
  \/ ToggleAngle \/ ToggleFuse \/ ToggleDiscard
Spec == Init /\ [][Next]_vars

\* ---- properties -------------------------------------------------------------------------------------------------
TypeOK == /\ phase \in {"build", "rewrite"}
          /\ \A i \in 1..Len(cur.nodes) : cur.nodes[i].up < Len(cur.nodes) + 1 /\ cur.nodes[i].up \in Containers(cur.nodes)
\* a runtime edit changes the mass entry on purpose: compare modulo mass when one was made
NoMass(v) == {[e EXCEPT !.mass = 0] : e \in v}
\* rewriting never changes the meaning of what survives
SameMeaning ==
  phase = "rewrite" => IF cur.edit = << >> THEN KeptView(cur) \subseteq FullView(base)
                       ELSE NoMass(KeptView(cur)) \subseteq NoMass(FullView(base))
\* and nothing is lost unless a compiler flag drops it
NothingLost ==
  (phase = "rewrite" /\ cur.fuse = base.fuse /\ cur.discard = base.discard) => NoMass(KeptView(cur)) = NoMass(KeptView(base))
\* what a flag drops is exactly the static bodies / visual geoms
DropsOnlyThose ==
  phase = "rewrite" => \A e \in FullView(cur) \ KeptView(cur) :
     (e.t = "body" /\ cur.fuse) \/ (e.t = "geom" /\ cur.discard)
\* the edit is reflected
EditApplied ==
  (phase = "rewrite" /\ cur.edit # << >>) =>
     \E e \in FullView(cur) : e.name = cur.edit[1].name /\ e.mass = cur.edit[1].mass

\* ---- configuration constants -----------------------------------------------------------------------------------
MC_AllRw == {"Respell", "ToggleAngle", "Explicitize", "Implicitize", "HoistClass", "SinkClass", "WrapFrame", "ToggleFuse",
             "ToggleDiscard", "EditMass", "Unroll"}
MC_NoRepl == {}
MC_ReplRw == {"Unroll", "WrapFrame", "ToggleAngle", "ToggleDiscard", "ToggleFuse"}
MC_Repl1 == {<<2, <<0, 1, 0>>, 1>>}
MC_Repl2 == {<<2, <<0, 1, 0>>, 1>>, <<3, <<1, 0, 1>>, 0>>, <<3, <<0, 2, 0>>, 3>>}
MC_NoSpell == MC_AllRw \ {"Respell"}
MC_Rots2 == {1, 2}
MC_Rots24 == 1..24
MC_V1 == {1}
MC_V2 == {1, 2}
MC_Rots1 == {2}
MC_G1 == {<<"", -1, FALSE>>}
MC_G2 == {<<"c1", -1, FALSE>>, <<"", 1, TRUE>>}
MC_G3 == {<<"", -1, FALSE>>, <<"c1", -1, FALSE>>, <<"", 1, TRUE>>}
MC_G4 == {<<"", -1, FALSE>>, <<"c1", -1, FALSE>>, <<"", 1, TRUE>>, <<"c1", 2, FALSE>>}
MC_CC1 == {""}
MC_CC2 == {"", "c1"}
MC_J1 == {<<"hinge", <<0, 0, 1>> >>}
MC_J2 == {<<"hinge", <<0, 0, 1>> >>, <<"slide", <<1, 0, 0>> >>}
MC_SpellRw == {"Respell", "ToggleAngle"}
MC_Rots3 == {1, 2, 4}
MC_RotsAll == 1..6
MC_Pos1 == {<<1, 0, 2>>}
MC_Pos2 == {<<0, 0, 0>>, <<1, 0, 2>>}
MC_FP1 == {<<2, <<0, 1, 0>> >>}
MC_FP2 == {<<2, <<0, 1, 0>> >>, <<4, <<1, 0, -1>> >>}
=============================================================================
