SPECIFICATION Spec
CONSTANTS
  MaxOps = 2
  Opts <- MC_Opt1
  Feats <- MC_FeatsUser
  Stages <- MC_NoStages
  Cb = "observer"
  CbGate = "uniform"
  ActDis <- MC_ActBoth
  EKin = "ideal"
  Phased = FALSE
  KeepHist = FALSE
INVARIANT TypeOK
INVARIANT FreshAfterForward
INVARIANT FreshAfterSkip
INVARIANT FreshAfterInvSkip
INVARIANT SplitEq
INVARIANT ReadOnlyCalls
INVARIANT LazySound
INVARIANT CtlSame
CHECK_DEADLOCK FALSE
