------------------------------- MODULE MjxRows -------------------------------
\* C44 (constraint rows) - transfer of the constraint rows between the C engine's dynamic layout and MJX's static layout
\* (mjx/mujoco/mjx/_src/io.py: _put_data_jax "move efc rows to their correct offsets", _put_contact; _get_data_into).
\*   mjData     holds rows only for what is active now:  [active equalities | friction | active limits | contacts],
\*              counted by ne, nf, nl, nefc
\*   mjx.Data   reserves a row for everything that could ever be active: [all equalities | friction | all limits |
\*              all contact slots]; rows that are not active are zero
\* A row is its identity <<kind, object, sub-row>>; the numbers of a row (J, pos, margin, frictionloss, D, aref, force,
\* type) travel with the identity.  The environment chooses which equalities are active, which limits are violated and
\* which contact candidates touch; then  CForward (mj_forward builds the rows) ; Put (put_data) ; Get (get_data).
\* Put and Get are written as the loops of the code: block copies with a source and a destination offset.
EXTENDS Integers, Sequences, FiniteSets, TLC
CONSTANTS EqDims,       \* sequence: rows of each equality constraint (joint 1, connect 3, weld 6)
          NFric, NLim,  \* friction-loss rows (always present), limited joints
          NConSlots,    \* contact slots MJX reserves (one per candidate pair)
          Cons,         \* the candidate pairs that can touch in the replay model: subset of 1..NConSlots
          CRows,        \* rows per contact (pyramidal condim 3: 4)
          Bug           \* "none"; "srcoffset" = the source offset of the friction/limit blocks is computed with the reserved ne

Z == <<"zero", 0, 0>>
NEq == Len(EqDims)
RECURSIVE SumTo(_, _)
SumTo(s, n) == IF n = 0 THEN 0 ELSE s[n] + SumTo(s, n - 1)
RNe == SumTo(EqDims, NEq)        RNf == NFric       RNl == NLim       RNc == NConSlots * CRows
RNefc == RNe + RNf + RNl + RNc

VARIABLES eqact, limact, conact,     \* the environment's choice
          crows, ccnt,               \* mjData: sequence of row identities, [ne, nf, nl, nc]
          xrows,                     \* mjx.Data: RNefc slots holding an identity or Z
          grows, gcnt,               \* mjData returned by get_data
          pc, ev
vars == <<eqact, limact, conact, crows, ccnt, xrows, grows, gcnt, pc, ev>>

RECURSIVE EqRows(_), LimRows(_), ConRows(_)
EqRows(e)  == IF e > NEq THEN <<>> ELSE (IF e \in eqact THEN [k \in 1..EqDims[e] |-> <<"eq", e, k>>] ELSE <<>>) \o EqRows(e + 1)
LimRows(l) == IF l > NLim THEN <<>> ELSE (IF l \in limact THEN <<<<"lim", l, 1>>>> ELSE <<>>) \o LimRows(l + 1)
ConRows(c) == IF c > NConSlots THEN <<>> ELSE (IF c \in conact THEN [k \in 1..CRows |-> <<"con", c, k>>] ELSE <<>>) \o ConRows(c + 1)
FricRows == [j \in 1..NFric |-> <<"fr", j, 1>>]

Init == /\ eqact \in SUBSET (1..NEq) /\ limact \in SUBSET (1..NLim) /\ conact \in SUBSET Cons
        /\ crows = <<>> /\ ccnt = <<0, 0, 0, 0>> /\ xrows = <<>> /\ grows = <<>> /\ gcnt = <<0, 0, 0, 0>>
        /\ pc = "forward" /\ ev = [op |-> "env", eqact |-> eqact, limact |-> limact, conact |-> conact]

\* mj_forward: the rows that exist now, in the engine's order
CForward ==
  /\ pc = "forward"
  /\ LET e == EqRows(1)  l == LimRows(1)  c == ConRows(1) IN
     /\ crows' = e \o FricRows \o l \o c
     /\ ccnt' = <<Len(e), NFric, Len(l), Len(c)>>
  /\ pc' = "put" /\ ev' = [op |-> "cforward"]
  /\ UNCHANGED <<eqact, limact, conact, xrows, grows, gcnt>>

\* source row or Z when the (wrong) source range leaves the array
Src(i) == IF i >= 1 /\ i <= Len(crows) THEN crows[i] ELSE Z
\* put_data: three block copies (equality, friction, limit) + the contacts placed in the first free slots of their dim
Put ==
  /\ pc = "put"
  /\ LET dne == ccnt[1]  dnf == ccnt[2]  dnl == ccnt[3]
         vbeg == <<0, RNe, RNe + RNf>>                                  \* destination offsets: sum([ne, nf][:i])
         dbeg == IF Bug = "srcoffset" THEN <<0, RNe, RNe + dnf>>        \* planted: sum([ne, d.nf][:i])
                 ELSE <<0, dne, dne + dnf>>                             \* source offsets: sum([d.ne, d.nf][:i])
         size == <<dne, dnf, dnl>>
         ncon == ccnt[4] \div CRows                                     \* contacts in the mjData, compacted into slots 1..ncon
         Val(s) == IF s <= RNe + RNf + RNl
                   THEN LET i == IF s <= RNe THEN 1 ELSE IF s <= RNe + RNf THEN 2 ELSE 3
                            j == s - vbeg[i] IN
                        IF j <= size[i] THEN Src(dbeg[i] + j) ELSE Z
                   ELSE LET t == s - (RNe + RNf + RNl) - 1                \* 0-based row inside the contact block
                            slot == (t \div CRows) + 1 IN
                        IF slot <= ncon THEN crows[dne + dnf + dnl + t + 1] ELSE Z
     IN xrows' = [s \in 1..RNefc |-> Val(s)]
  /\ pc' = "get" /\ ev' = [op |-> "put"]
  /\ UNCHANGED <<eqact, limact, conact, crows, ccnt, grows, gcnt>>

BlockOf(s) == IF s <= RNe THEN 1 ELSE IF s <= RNe + RNf THEN 2 ELSE IF s <= RNe + RNf + RNl THEN 3 ELSE 4
\* get_data: the rows with a non-zero Jacobian, in slot order; the counts are those of the active rows per static type
Get ==
  /\ pc = "get"
  /\ grows' = SelectSeq(xrows, LAMBDA r : r # Z)
  /\ gcnt' = [b \in 1..4 |-> Cardinality({s \in 1..RNefc : xrows[s] # Z /\ BlockOf(s) = b})]
  /\ pc' = "done"
  /\ ev' = [op |-> "get", eqact |-> eqact, limact |-> limact, conact |-> conact, crows |-> crows, ccnt |-> ccnt,
            xrows |-> xrows, grows |-> grows', gcnt |-> gcnt', reserved |-> <<RNe, RNf, RNl, RNc>>]
  /\ UNCHANGED <<eqact, limact, conact, crows, ccnt, xrows>>

Next == CForward \/ Put \/ Get
Spec == Init /\ [][Next]_vars

\* ---- properties ---------------------------------------------------------------------------------------------------
KindOfBlock(b) == CASE b = 1 -> "eq" [] b = 2 -> "fr" [] b = 3 -> "lim" [] b = 4 -> "con"
TypeOK == pc \in {"forward", "put", "get", "done"} /\ Len(crows) = ccnt[1] + ccnt[2] + ccnt[3] + ccnt[4]
AfterPut == pc \in {"get", "done"}
\* every slot holds a row of the slot's static type or nothing
KindMatchesSlot == AfterPut => \A s \in 1..RNefc : xrows[s] # Z => xrows[s][1] = KindOfBlock(BlockOf(s))
\* inside each block the rows of the mjData come first, in their order, followed by zero rows
BlockCompact == AfterPut => \A s \in 1..(RNefc - 1) : BlockOf(s) = BlockOf(s + 1) /\ xrows[s] = Z => xrows[s + 1] = Z
\* no row is lost, duplicated or reordered: the non-zero slots read in order are exactly the mjData's rows
NoRowLost == AfterPut => SelectSeq(xrows, LAMBDA r : r # Z) = crows
\* put_data followed by get_data is the identity on rows and counts
RoundTrip == pc = "done" => grows = crows /\ gcnt = ccnt
\* the reserved layout is large enough
Fits == ccnt[1] <= RNe /\ ccnt[3] <= RNl /\ ccnt[4] <= RNc

MC_EqDims == <<1, 3>>
MC_Cons == {1, 2}
=============================================================================
