----------------------------- MODULE LsqLattice -----------------------------
\* Lattice of bounded least-squares PROBLEMS with rational data, and - for the linear families - the exact
\* bounded global minimiser, computed here in rational arithmetic.  (python/mujoco/minimize.py : least_squares)
\*
\* A rational is <<num, den>>, den > 0.  A problem is built coordinate by coordinate (four small Pick steps per
\* coordinate) and closed by Finish, which publishes ev = the problem and, where it is known exactly, the
\* optimum the solver must reach:
\*    "lin"   r_i = a_i (x_i - c_i)                        separable: optimum = clip(c, lo, hi)
\*    "shear" r = A (x - c), A = [[a1, a1 t], [0, a2]]     c strictly feasible: optimum = c      (n = 2)
\*    "quad"  r_i = a_i (x_i^2 - c_i)                      no closed form: monitor clauses only
\*    "rosen" r_1 = c_1 - x_1, r_i = 10 a_i (x_i - x_{i-1}^2)   monitor clauses only           (n >= 2)
\* The recorded solve of every published problem is validated against LeastSquares.tla (trace validation);
\* the returned point of the linear families is compared with ev.opt.
EXTENDS Integers, Sequences, FiniteSets, TLC
CONSTANTS MinN, MaxN, Families, Modes, Jacs, MaxIters, Boxes, Starts, Targets, Slopes, Scales, Shears

Num(r) == r[1]
Den(r) == r[2]
RLess(a, b) == Num(a) * Den(b) < Num(b) * Den(a)
RLeq(a, b)  == Num(a) * Den(b) <= Num(b) * Den(a)
RClip(c, l, h) == IF RLess(c, l) THEN l ELSE IF RLess(h, c) THEN h ELSE c
Abs(i) == IF i < 0 THEN 0 - i ELSE i
RDist(a, b) == <<Abs(Num(a) * Den(b) - Num(b) * Den(a)), Den(a) * Den(b)>>       \* |a - b|
One == <<1, 1>>

VARIABLES stage,   \* "head" | "coords" | "done"
          head,    \* [fam, n, mode, jac, maxit, t]
          coords,  \* sequence of [lo, hi, x0, c, a, s]
          part,    \* the coordinate being built: <<box, x0, c>> so far
          ev
vars == <<stage, head, coords, part, ev>>

Init == /\ stage = "head" /\ head = [fam |-> "none"] /\ coords = << >> /\ part = << >> /\ ev = [op |-> "init"]

FamOK(f, n) == (f = "shear" => n = 2) /\ (f = "rosen" => n >= 2)
PickHead(f, n, mode, jac, mi, t) ==
  /\ stage = "head" /\ FamOK(f, n)
  /\ (f # "shear" => t = <<0, 1>>)
  /\ head' = [fam |-> f, n |-> n, mode |-> mode, jac |-> jac, maxit |-> mi, t |-> t]
  /\ stage' = "coords"
  /\ UNCHANGED <<coords, part, ev>>

\* scale of a coordinate: only where x_scale uses it; a scalar x_scale is the first coordinate's
ScaleOK(s) == IF head.mode = "vector" THEN TRUE
              ELSE IF head.mode = "scalar" THEN (IF coords = << >> THEN TRUE ELSE s = coords[1].s)
              ELSE s = One
\* one coordinate = four small choices (keeps the branching of every step small)
PickBox(b) ==
  /\ stage = "coords" /\ Len(coords) < head.n /\ part = << >>
  /\ RLess(b[1], b[2])
  /\ part' = <<b>>
  /\ UNCHANGED <<stage, head, coords, ev>>
PickStart(x0) ==
  /\ stage = "coords" /\ Len(part) = 1
  /\ part' = Append(part, x0)
  /\ UNCHANGED <<stage, head, coords, ev>>
PickTarget(c) ==
  /\ stage = "coords" /\ Len(part) = 2
  /\ (head.fam = "shear" => RLess(part[1][1], c) /\ RLess(c, part[1][2]))       \* strictly feasible target
  /\ part' = Append(part, c)
  /\ UNCHANGED <<stage, head, coords, ev>>
PickSlope(a, s) ==
  /\ stage = "coords" /\ Len(part) = 3
  /\ ScaleOK(s)
  /\ coords' = Append(coords, [lo |-> part[1][1], hi |-> part[1][2], x0 |-> part[2], c |-> part[3], a |-> a, s |-> s])
  /\ part' = << >>
  /\ UNCHANGED <<stage, head, ev>>

ScaleChoices == IF stage = "coords" THEN (IF head.mode \in {"scalar", "vector"} THEN Scales ELSE {One}) ELSE {}
HasOpt == head.fam \in {"lin", "shear"}
Opt == [i \in 1..Len(coords) |-> RClip(coords[i].c, coords[i].lo, coords[i].hi)]
Finish ==
  /\ stage = "coords" /\ Len(coords) = head.n /\ part = << >>
  /\ stage' = "done"
  /\ ev' = [op |-> "problem", head |-> head, coords |-> coords, hasopt |-> HasOpt, opt |-> Opt]
  /\ UNCHANGED <<head, coords, part>>

Next == \/ \E f \in Families, n \in MinN..MaxN, mode \in Modes, jac \in Jacs, mi \in MaxIters, t \in Shears :
             PickHead(f, n, mode, jac, mi, t)
        \/ \E b \in Boxes : PickBox(b)
        \/ \E x0 \in Starts : PickStart(x0)
        \/ \E c \in Targets : PickTarget(c)
        \/ \E a \in Slopes, s \in ScaleChoices : PickSlope(a, s)
        \/ Finish
Spec == Init /\ [][Next]_vars

\* ---- properties of the oracle ------------------------------------------------------------------------------
TypeOK == stage \in {"head", "coords", "done"} /\ (stage # "head" => Len(coords) <= head.n)
Published == stage = "done"
\* the published optimum is feasible ...
OptFeasible == Published => \A i \in 1..Len(coords) : RLeq(coords[i].lo, ev.opt[i]) /\ RLeq(ev.opt[i], coords[i].hi)
\* ... and no feasible lattice value of any coordinate is closer to the target (separable cost: coordinate-wise)
Cands == Starts \cup Targets \cup {b[1] : b \in Boxes} \cup {b[2] : b \in Boxes}
OptIsBoundedMin ==
  (Published /\ ev.hasopt) =>
     \A i \in 1..Len(coords) : \A z \in Cands :
        (RLeq(coords[i].lo, z) /\ RLeq(z, coords[i].hi)) =>
            RLeq(RDist(ev.opt[i], coords[i].c), RDist(z, coords[i].c))
\* shear problems have their target strictly inside, so the unconstrained minimiser c is the optimum
ShearOptIsTarget == (Published /\ head.fam = "shear") => \A i \in 1..Len(coords) : ev.opt[i] = coords[i].c

\* ---- constants for the configurations ------------------------------------------------------------------------
A_Families == {"lin", "shear", "quad", "rosen"}
L_Families == {"lin", "quad"}
A_Modes    == {"none", "scalar", "vector", "jac"}
A_Jacs     == {"fd", "user"}
A_MaxIters == {3, 40}
One_MaxIters == {40}
A_Boxes    == {<<<<-1, 1>>, <<1, 1>>>>, <<<<0, 1>>, <<1, 3>>>>, <<<<-5, 3>>, <<7, 10>>>>, <<<<1, 10>>, <<3, 1>>>>,
               <<<<-2, 1>>, <<-1, 8>>>>}
A_Starts   == {<<-2, 1>>, <<-1, 2>>, <<0, 1>>, <<1, 3>>, <<1, 1>>, <<3, 1>>, <<7, 10>>}
A_Targets  == {<<-4, 1>>, <<-1, 1>>, <<-1, 3>>, <<1, 10>>, <<1, 5>>, <<2, 3>>, <<5, 1>>}
A_Slopes   == {<<1, 1>>, <<2, 1>>, <<1, 3>>}
A_Scales   == {<<1, 10>>, <<3, 1>>, <<7, 1>>, <<3, 10>>}
A_Shears   == {<<0, 1>>, <<1, 2>>, <<-3, 1>>}
S_Boxes    == {<<<<-1, 1>>, <<1, 1>>>>, <<<<-5, 3>>, <<7, 10>>>>, <<<<1, 10>>, <<3, 1>>>>}
S_Starts   == {<<-2, 1>>, <<7, 10>>, <<1, 1>>}
S_Targets  == {<<-4, 1>>, <<-1, 3>>, <<2, 3>>, <<5, 1>>}
S_Slopes   == {<<1, 1>>, <<1, 3>>}
S_Scales   == {<<1, 10>>, <<7, 1>>}
NoShear    == {<<0, 1>>}
=============================================================================
