----------------------------- MODULE LsqLattice -----------------------------
\* Lattice of bounded least-squares PROBLEMS with rational data, and - for the linear families - the exact
\* bounded global minimiser, computed here in rational arithmetic.  (python/mujoco/minimize.py : least_squares)
\*
\* A rational is <<num, den>>, den > 0.  A problem is built coordinate by coordinate (four small Pick steps per
\* coordinate) and closed by Finish, which publishes ev = the problem and, where it is known exactly, the
\* optimum the solver must reach:
\*    "lin"   r_i = a_i (x_i - c_i)                        separable: optimum = clip(c, lo, hi)
\*    "shear" r = A (x - c), A = [[a1, a1 t], [0, a2]]     c strictly feasible: optimum = c      (n = 2)
\*    "quad"  r_i = a_i (x_i^2 - c_i)                      no closed form: monitor clauses only
\*    "rosen" r_1 = c_1 - x_1, r_i = 10 a_i (x_i - x_{i-1}^2)   monitor clauses only           (n >= 2)
\* The recorded solve of every published problem is validated against LeastSquares.tla (trace validation);
\* the returned point of the linear families is compared with ev.opt.
\* Position relative to the finite-difference step.  jacobian_fd perturbs coordinate i by the RELATIVE step
\*    h(x) = eps * max(1, |x|),   eps = 2^-26,
\* far below the rational lattice, so it is a symbolic unit here (rendered by the harness):
\*    box   <<lo, hi, w>> : w = <<0, 1>> an ordinary box [lo, hi];  otherwise the NARROW box [lo, lo + w h(lo)]
\*    start <<at, k>>     : at = "abs": the rational k;  "lo": lo + k h(lo);  "hi": hi - k h(hi);
\*                          "mid": (lo + hi)/2 + k h(mid)                  (k in steps, inward for lo / hi)
\* so that every combination of |x| in {< 1, 1, > 1, large} with distance {0, < 1, = 1, > 1 steps} to either bound,
\* and boxes only 1.5 - 3 steps wide (still WIDER than the step, the precondition of the property), are problems of
\* the lattice.  head.api = "jacobian_fd" asks for one direct call of jacobian_fd at the start point.
EXTENDS Integers, Sequences, FiniteSets, TLC
CONSTANTS MinN, MaxN, Apis, Families, Modes, Jacs, MaxIters, Boxes, Starts, Targets, Slopes, Scales, Shears

Num(r) == r[1]
Den(r) == r[2]
RLess(a, b) == Num(a) * Den(b) < Num(b) * Den(a)
RLeq(a, b)  == Num(a) * Den(b) <= Num(b) * Den(a)
RClip(c, l, h) == IF RLess(c, l) THEN l ELSE IF RLess(h, c) THEN h ELSE c
Abs(i) == IF i < 0 THEN 0 - i ELSE i
RDist(a, b) == <<Abs(Num(a) * Den(b) - Num(b) * Den(a)), Den(a) * Den(b)>>       \* |a - b|
One == <<1, 1>>

VARIABLES stage,   \* "head" | "coords" | "done"
          head,    \* [api, fam, n, mode, jac, maxit, t]
          coords,  \* sequence of [lo, hi, w, x0, c, a, s]
          part,    \* the coordinate being built: <<box, x0, c>> so far
          ev
vars == <<stage, head, coords, part, ev>>

Init == /\ stage = "head" /\ head = [fam |-> "none"] /\ coords = << >> /\ part = << >> /\ ev = [op |-> "init"]

FamOK(f, n) == (f = "shear" => n = 2) /\ (f = "rosen" => n >= 2)
PickHead(api, f, n, mode, jac, mi, t) ==
  /\ stage = "head" /\ FamOK(f, n)
  /\ (f # "shear" => t = <<0, 1>>)
  /\ (api = "jacobian_fd" => mode = "none" /\ jac = "fd" /\ \A m2 \in MaxIters : mi <= m2)   \* one representative
  /\ head' = [api |-> api, fam |-> f, n |-> n, mode |-> mode, jac |-> jac, maxit |-> mi, t |-> t]
  /\ stage' = "coords"
  /\ UNCHANGED <<coords, part, ev>>

Zero == <<0, 1>>
Narrow(b) == b[3] # Zero
RAbsLeq(a, b) == (IF Num(a) < 0 THEN 0 - Num(a) ELSE Num(a)) * Den(b) <= Num(b) * Den(a)     \* |a| <= b, b >= 0
Half(r) == <<Num(r), 2 * Den(r)>>
\* is the start inside the box?  (decidable symbolically: macro widths are >> steps)
StartInside(b, x0) ==
  CASE x0[1] = "abs" -> ~Narrow(b) /\ RLeq(b[1], x0[2]) /\ RLeq(x0[2], b[2])
    [] x0[1] \in {"lo", "hi"} -> RLeq(Zero, x0[2]) /\ (Narrow(b) => RLeq(x0[2], b[3]))
    [] x0[1] = "mid" -> (Narrow(b) => RAbsLeq(x0[2], Half(b[3])))
\* scale of a coordinate: only where x_scale uses it; a scalar x_scale is the first coordinate's
ScaleOK(s) == IF head.mode = "vector" THEN TRUE
              ELSE IF head.mode = "scalar" THEN (IF coords = << >> THEN TRUE ELSE s = coords[1].s)
              ELSE s = One
\* one coordinate = four small choices (keeps the branching of every step small)
PickBox(b) ==
  /\ stage = "coords" /\ Len(coords) < head.n /\ part = << >>
  /\ (IF Narrow(b) THEN RLess(One, b[3]) ELSE RLess(b[1], b[2]))    \* wider than one finite-difference step
  /\ (head.fam = "shear" => ~Narrow(b))
  /\ part' = <<b>>
  /\ UNCHANGED <<stage, head, coords, ev>>
PickStart(x0) ==
  /\ stage = "coords" /\ Len(part) = 1
  /\ (head.api = "jacobian_fd" => StartInside(part[1], x0))      \* jacobian_fd is called at a feasible point
  /\ part' = Append(part, x0)
  /\ UNCHANGED <<stage, head, coords, ev>>
PickTarget(c) ==
  /\ stage = "coords" /\ Len(part) = 2
  /\ (head.fam = "shear" => RLess(part[1][1], c) /\ RLess(c, part[1][2]))       \* strictly feasible target
  /\ part' = Append(part, c)
  /\ UNCHANGED <<stage, head, coords, ev>>
PickSlope(a, s) ==
  /\ stage = "coords" /\ Len(part) = 3
  /\ ScaleOK(s)
  /\ coords' = Append(coords, [lo |-> part[1][1], hi |-> part[1][2], w |-> part[1][3], x0 |-> part[2], c |-> part[3],
                                a |-> a, s |-> s])
  /\ part' = << >>
  /\ UNCHANGED <<stage, head, ev>>

ScaleChoices == IF stage = "coords" THEN (IF head.mode \in {"scalar", "vector"} THEN Scales ELSE {One}) ELSE {}
HasOpt == head.fam \in {"lin", "shear"} /\ head.api = "least_squares" /\ \A i \in 1..Len(coords) : coords[i].w = Zero
Opt == [i \in 1..Len(coords) |-> RClip(coords[i].c, coords[i].lo, coords[i].hi)]
Finish ==
  /\ stage = "coords" /\ Len(coords) = head.n /\ part = << >>
  /\ stage' = "done"
  /\ ev' = [op |-> "problem", head |-> head, coords |-> coords, hasopt |-> HasOpt, opt |-> Opt]
  /\ UNCHANGED <<head, coords, part>>

Next == \/ \E api \in Apis, f \in Families, n \in MinN..MaxN, mode \in Modes, jac \in Jacs, mi \in MaxIters, t \in Shears :
             PickHead(api, f, n, mode, jac, mi, t)
        \/ \E b \in Boxes : PickBox(b)
        \/ \E x0 \in Starts : PickStart(x0)
        \/ \E c \in Targets : PickTarget(c)
        \/ \E a \in Slopes, s \in ScaleChoices : PickSlope(a, s)
        \/ Finish
Spec == Init /\ [][Next]_vars

\* ---- properties of the oracle ------------------------------------------------------------------------------
TypeOK == stage \in {"head", "coords", "done"} /\ (stage # "head" => Len(coords) <= head.n)
Published == stage = "done"
\* the published optimum is feasible ...
OptFeasible == (Published /\ ev.hasopt) => \A i \in 1..Len(coords) : RLeq(coords[i].lo, ev.opt[i]) /\ RLeq(ev.opt[i], coords[i].hi)
\* ... and no feasible lattice value of any coordinate is closer to the target (separable cost: coordinate-wise)
Cands == {x0[2] : x0 \in {y \in Starts : y[1] = "abs"}} \cup Targets \cup {b[1] : b \in Boxes} \cup {b[2] : b \in Boxes}
OptIsBoundedMin ==
  (Published /\ ev.hasopt) =>
     \A i \in 1..Len(coords) : \A z \in Cands :
        (RLeq(coords[i].lo, z) /\ RLeq(z, coords[i].hi)) =>
            RLeq(RDist(ev.opt[i], coords[i].c), RDist(z, coords[i].c))
\* the precondition of the property: every box is wider than the finite-difference step
WiderThanStep == \A i \in 1..Len(coords) : IF coords[i].w = Zero THEN RLess(coords[i].lo, coords[i].hi) ELSE RLess(One, coords[i].w)
\* a direct jacobian_fd call is made at a feasible point
FdPointFeasible == (stage # "head" /\ head.api = "jacobian_fd") =>
                      \A i \in 1..Len(coords) : StartInside(<<coords[i].lo, coords[i].hi, coords[i].w>>, coords[i].x0)
\* shear problems have their target strictly inside, so the unconstrained minimiser c is the optimum
ShearOptIsTarget == (Published /\ head.fam = "shear") => \A i \in 1..Len(coords) : ev.opt[i] = coords[i].c

\* ---- constants for the configurations ------------------------------------------------------------------------
A_Families == {"lin", "shear", "quad", "rosen"}
L_Families == {"lin", "quad"}
A_Modes    == {"none", "scalar", "vector", "jac"}
A_Jacs     == {"fd", "user"}
A_MaxIters == {3, 40}
One_MaxIters == {40}
Bx(l, h) == <<l, h, Zero>>
Nw(l, w)  == <<l, l, w>>
Ab(n, d)  == <<"abs", <<n, d>>>>
A_Boxes    == {Bx(<<-1, 1>>, <<1, 1>>), Bx(<<0, 1>>, <<1, 3>>), Bx(<<-5, 3>>, <<7, 10>>), Bx(<<1, 10>>, <<3, 1>>),
               Bx(<<-2, 1>>, <<-1, 8>>)}
A_Starts   == {Ab(-2, 1), Ab(-1, 2), Ab(0, 1), Ab(1, 3), Ab(1, 1), Ab(3, 1), Ab(7, 10)}
A_Targets  == {<<-4, 1>>, <<-1, 1>>, <<-1, 3>>, <<1, 10>>, <<1, 5>>, <<2, 3>>, <<5, 1>>}
A_Slopes   == {<<1, 1>>, <<2, 1>>, <<1, 3>>}
A_Scales   == {<<1, 10>>, <<3, 1>>, <<7, 1>>, <<3, 10>>}
A_Shears   == {<<0, 1>>, <<1, 2>>, <<-3, 1>>}
S_Boxes    == {Bx(<<-1, 1>>, <<1, 1>>), Bx(<<-5, 3>>, <<7, 10>>), Bx(<<1, 10>>, <<3, 1>>)}
S_Starts   == {Ab(-2, 1), Ab(7, 10), Ab(1, 1)}
S_Targets  == {<<-4, 1>>, <<-1, 3>>, <<2, 3>>, <<5, 1>>}
S_Slopes   == {<<1, 1>>, <<1, 3>>}
S_Scales   == {<<1, 10>>, <<7, 1>>}
\* the finite-difference dimension: |bound| in {< 1, 1, > 1, large} x distance {0, 1/2, 1, 2 steps} x both bounds,
\* and boxes 1.5 - 3 steps wide
N_Boxes    == {Bx(<<1, 10>>, <<7, 10>>), Bx(<<-1, 1>>, <<1, 1>>), Bx(<<5, 2>>, <<10, 1>>), Bx(<<-10, 1>>, <<-5, 2>>),
               Bx(<<250, 1>>, <<1000, 1>>), Bx(<<-1000, 1>>, <<-250, 1>>),
               Nw(<<10, 1>>, <<3, 2>>), Nw(<<-1000, 1>>, <<3, 1>>), Nw(<<1, 3>>, <<3, 2>>), Nw(<<250, 1>>, <<5, 2>>)}
N_Starts   == {<<"lo", <<0, 1>>>>, <<"lo", <<1, 2>>>>, <<"lo", <<1, 1>>>>, <<"lo", <<2, 1>>>>,
               <<"hi", <<0, 1>>>>, <<"hi", <<1, 2>>>>, <<"hi", <<1, 1>>>>, <<"hi", <<2, 1>>>>,
               <<"mid", <<1, 8>>>>, <<"mid", <<-1, 8>>>>}
N_Targets  == {<<-4, 1>>, <<2000, 1>>}
N_Modes    == {"none", "vector"}
N_Jacs     == {"fd"}
N_MaxIters == {3}
AN_Boxes   == A_Boxes \cup N_Boxes
AN_Starts  == A_Starts \cup N_Starts
AN_Targets == A_Targets \cup N_Targets
OnlyLS     == {"least_squares"}
BothApis   == {"least_squares", "jacobian_fd"}
One_Slopes == {<<1, 1>>}
NoShear    == {<<0, 1>>}
=============================================================================
