SPECIFICATION GSpec
CONSTANTS
  MaxGrow = 2
  SeedIds <- GSeedFull
  GrowT <- GTinyT
  GrowNames <- GNameP
  DeclNames <- GDeclQ
  Mutate = FALSE
  MutFrom = 0
  Focused = FALSE
  PumpSizes <- NoPump
  NoisePos <- NoPos
INVARIANT GenTypeOK
INVARIANT XsdComplete
INVARIANT NothingAlien
INVARIANT ProjectionSound
INVARIANT TableBalanced
INVARIANT GenClosed
PROPERTY GenMonotone
CHECK_DEADLOCK FALSE
