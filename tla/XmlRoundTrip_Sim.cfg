SPECIFICATION Spec
CONSTANTS
  ClassSeq <- MC_Class2
  LeafKinds <- MC_Leaf4
  TopKinds <- MC_TopsAll4
  Attrs <- MC_AttrABI
  SetVals <- MC_ValAll
  MaxClasses = 2
  MaxNodes = 8
  MaxBodies = 3
  MaxFrames = 3
  MaxTops = 2
  MaxDefSets = 4
  MaxAttrSets = 4
  MaxKeys = 3
  Precs <- MC_PBoth
  FeatSeq <- MC_Feats
  MaxFeats = 3
  MinSize = 5
  Exclusive = FALSE
  MinClasses = 1
  MinNodes = 4
  CodeDevs <- CurrentDevs
INVARIANT TypeOK
INVARIANT RoundTripExact
INVARIANT RoundTripPrinted
INVARIANT RoundTripUpToOrder
INVARIANT ClassesPreserved
INVARIANT LostExplains
CHECK_DEADLOCK FALSE
