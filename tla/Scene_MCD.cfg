SPECIFICATION Spec
CONSTANTS
  Models <- ModelsD
  Caps <- CapsD
  GMasks <- EdgeMasks
  SMasks <- EdgeMasks
  JMasks <- EdgeMasks
  TMasks <- EdgeMasks
  AMasks <- EdgeMasks
  FlagSets <- AllFlags
  Statics <- OnlyTrue
  CatMasks <- FullCat
  QPos <- Q0
  Status0 <- St0
  InitMode = "all"
  Ops <- UpdateOnly
  MaxOps = 1
  Bug = "none"
INVARIANT TypeOK
INVARIANT Bounded
INVARIANT StatusIsOverflow
INVARIANT Faithful
INVARIANT GroupLaw
INVARIANT MinLaw
INVARIANT OnlyGeoms
INVARIANT WalkDeterministic
PROPERTY NoFalseAlarm
CHECK_DEADLOCK FALSE
