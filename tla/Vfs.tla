------------------------------- MODULE Vfs -------------------------------
\* Set semantics of MuJoCo's virtual file system (src/user/user_vfs.cc) modulo ONE key function K.
\*
\* A name is a record; Render (in the harness, vlib/../checks/c39.py) turns it into a string such as
\*      ./d\x\..\A.TXT
\* K(n) is the reduced path the header contract implies (FilePath: separators canonical, "./" and "x/.."
\* removed, case preserved).  Files added from disk (mj_addFileVFS) are keyed by their lower-cased base
\* name, as documented for the legacy API; buffers and files share one key space.
\*
\* Deliberate, named deviations that follow the code rather than an idealised set:
\*   DeleteLegacy : mj_deleteFileVFS falls back to the lower-cased base name (needed for AddFile entries).
\*   ReadLegacy   : mju_openResource falls back to a case-insensitive base-name match when the reduced path
\*                  is not mounted; enabled only when that match is unique (the code iterates an unordered map).
EXTENDS Integers, Sequences, FiniteSets, TLC
CONSTANTS MaxOps,
          Dots,       \* subset of {"", "./"}
          DotDots,    \* subset of BOOLEAN : insert "x/../" before the base name
          Seps        \* subset of {"/", "\\"}

Dirs  == {"", "d"}
Bases == {"a.txt", "A.TXT", "b.txt"}
Lower(b) == IF b = "A.TXT" THEN "a.txt" ELSE b
\* name space explored by the mutating actions (bounded by the constants)
Names == {n \in [dots : Dots, dir : Dirs, sep : Seps, dd : DotDots, base : Bases] :
             (n.dir = "" /\ ~n.dd) => n.sep = "/"}
\* name space of the observation battery: always the full one
AllNames == {n \in [dots : {"", "./"}, dir : Dirs, sep : {"/", "\\"}, dd : BOOLEAN, base : Bases] :
             (n.dir = "" /\ ~n.dd) => n.sep = "/"}
K(n)  == <<n.dir, n.base>>                 \* the reduced path
LK(n) == <<"", Lower(n.base)>>             \* legacy key: lower-cased base name
Contents == {"X", "Y"}
DiskDirs == {"", "d"}                      \* directories of real files prepared by the harness
Disk(dr, b) == <<"F", dr, b>>              \* content id of the real file dr/b

VARIABLES files,   \* key -> [c : content id, kind : "buf" | "file"]
          nops,
          ev,      \* last operation with the result the implementation must return
          obs      \* what every query must answer in this state (function of files)
vars == <<files, nops, ev, obs>>

Present(f, k) == k \in DOMAIN f
Without(f, k) == [x \in DOMAIN f \ {k} |-> f[x]]
With(f, k, v) == [x \in DOMAIN f \cup {k} |-> IF x = k THEN v ELSE f[x]]
Cands(f, n)   == {k \in DOMAIN f : Lower(k[2]) = Lower(n.base)}

ReadRet(f, n) == IF Present(f, K(n)) THEN f[K(n)].c
                 ELSE IF Cardinality(Cands(f, n)) = 1 THEN f[CHOOSE k \in Cands(f, n) : TRUE].c
                 ELSE IF Cands(f, n) = {} THEN "none" ELSE "skip"
\* the battery is indexed by reduced key: every spelling n of key K(n) must get these answers
Keys == Dirs \X Bases
KeyName(k) == [dots |-> "", dir |-> k[1], sep |-> "/", dd |-> FALSE, base |-> k[2]]
ObsOf(f) == [k \in Keys |-> [cb |-> IF Present(f, k) THEN 1 ELSE 0,
                             cf |-> IF Present(f, LK(KeyName(k))) THEN 1 ELSE 0,
                             rd |-> ReadRet(f, KeyName(k))]]

Init == files = << >> /\ nops = 0 /\ ev = [op |-> "init"] /\ obs = ObsOf(<< >>)

Step == nops < MaxOps /\ nops' = nops + 1

AddBuffer(n, c) ==
  /\ Step
  /\ IF Present(files, K(n))
     THEN /\ UNCHANGED files /\ ev' = [op |-> "addbuf", n |-> n, c |-> c, ret |-> 2]
     ELSE /\ files' = With(files, K(n), [c |-> c, kind |-> "buf"])
          /\ ev' = [op |-> "addbuf", n |-> n, c |-> c, ret |-> 0]
  /\ obs' = ObsOf(files')

AddFile(dr, b) ==
  /\ Step
  /\ LET k == <<"", Lower(b)>> IN
     IF Present(files, k)
     THEN /\ UNCHANGED files /\ ev' = [op |-> "addfile", dir |-> dr, base |-> b, ret |-> 2]
     ELSE /\ files' = With(files, k, [c |-> Disk(dr, b), kind |-> "file"])
          /\ ev' = [op |-> "addfile", dir |-> dr, base |-> b, ret |-> 0]
  /\ obs' = ObsOf(files')

DeleteExact(n) ==
  /\ Step /\ Present(files, K(n))
  /\ files' = Without(files, K(n)) /\ ev' = [op |-> "delete", n |-> n, ret |-> 0]
  /\ obs' = ObsOf(files')
DeleteLegacy(n) ==
  /\ Step /\ ~Present(files, K(n)) /\ Present(files, LK(n))
  /\ files' = Without(files, LK(n)) /\ ev' = [op |-> "delete", n |-> n, ret |-> 0]
  /\ obs' = ObsOf(files')
DeleteAbsent(n) ==
  /\ Step /\ ~Present(files, K(n)) /\ ~Present(files, LK(n))
  /\ UNCHANGED files /\ ev' = [op |-> "delete", n |-> n, ret |-> -1]
  /\ obs' = ObsOf(files')

Next == \/ \E n \in Names, c \in Contents : AddBuffer(n, c)
        \/ \E dr \in DiskDirs, b \in Bases : AddFile(dr, b)
        \/ \E n \in Names : DeleteExact(n) \/ DeleteLegacy(n) \/ DeleteAbsent(n)
Spec == Init /\ [][Next]_vars

\* ---- the property ------------------------------------------------------------------------------
TypeOK == /\ \A k \in DOMAIN files : files[k].kind \in {"buf", "file"}
          /\ obs = ObsOf(files)
\* presence = added and not deleted since, modulo K
AddThenPresent    == [][(ev'.op = "addbuf") => (Present(files', K(ev'.n)) /\ obs'[K(ev'.n)].cb = 1)]_vars
AddKeepsOthers    == [][(ev'.op \in {"addbuf", "addfile"}) =>
                          \A k \in DOMAIN files : Present(files', k) /\ files'[k] = files[k]]_vars
RepeatKeeps       == [][(ev'.op \in {"addbuf", "addfile"} /\ ev'.ret = 2) => files' = files]_vars
FreshAddStores    == [][(ev'.op = "addbuf" /\ ev'.ret = 0) => (files'[K(ev'.n)].c = ev'.c /\ obs'[K(ev'.n)].rd = ev'.c)]_vars
DeleteThenAbsent  == [][(ev'.op = "delete" /\ ev'.ret = 0) => (~Present(files', K(ev'.n)) /\ obs'[K(ev'.n)].cb = 0)]_vars
DeleteRemovesOne  == [][(ev'.op = "delete" /\ ev'.ret = 0) => Cardinality(DOMAIN files') = Cardinality(DOMAIN files) - 1]_vars
DeleteAbsentFails == [][(ev'.op = "delete" /\ ~Present(files, K(ev'.n)) /\ ~Present(files, LK(ev'.n))) =>
                          (ev'.ret = -1 /\ files' = files)]_vars
\* spellings of one file are indistinguishable
ReadPresentExact  == \A k \in Keys : Present(files, k) => obs[k].rd = files[k].c
PresenceIsObs     == \A k \in Keys : (obs[k].cb = 1) <=> Present(files, k)
\* ---- constants for the configurations (cfg files cannot hold "\\")
BothSeps == {"/", "\\"}
OneSep   == {"/"}
NoDots   == {""}
AllDots  == {"", "./"}
NoDD     == {FALSE}
AllDD    == BOOLEAN
ViewNoEv == <<files, nops>>
=============================================================================
