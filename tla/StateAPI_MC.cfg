SPECIFICATION Spec
CONSTANTS
  NC = 6
  Dims <- MC_Dims4
  MaxOps = 3
  Mode = "free"
  Sigs <- MC_SigsSmall
  ChainSigs <- MC_SigsSmall
  Masks <- MC_Masks2
  Bug = "none"
  NKey = 1
  NPat = 2
INVARIANT TypeOK
INVARIANT SizeIsLength
INVARIANT GetIsDecl
INVARIANT ExtractLen
PROPERTY SetRestores
PROPERTY SetFrame
PROPERTY ExtractIsGet
PROPERTY CopyIsGetSet
PROPERTY ResetIsFresh
PROPERTY KeyLoads
PROPERTY QueriesPure
CHECK_DEADLOCK FALSE
