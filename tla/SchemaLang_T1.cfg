SPECIFICATION Spec
CONSTANTS
  MaxGrow = 1
  SeedIds <- AllSeeds
  GrowT <- FewT
  GrowNames <- NamesAP
  DeclNames <- DNamesQ
  Mutate = TRUE
  MutFrom = 0
  Focused = FALSE
  PumpSizes <- NoPump
  NoisePos <- NoPos
INVARIANT TypeOK
INVARIANT GrowValid
INVARIANT MutantBroken
INVARIANT MutantSingle
INVARIANT AcceptedSound
PROPERTY GrowMonotone
PROPERTY AuxKeeps
CHECK_DEADLOCK FALSE
