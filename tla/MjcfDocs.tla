------------------------------ MODULE MjcfDocs ------------------------------
\* Small MJCF documents over a SLICE OF THE REAL grammar table (src/xml/generated/mjcf_table.inc, generated from
\* src/xml/mjcf.schema) and the verdict the real reader (mj_parseXMLString / mj_loadXML) must give.
\*
\* Row i = one real element row: name, cardinality type (! ? * R), a subset of its real attributes with the type
\* class of each, its sub-rows (subset, real order) and its real presence constraints restricted to the slice
\* (kinds e = at most one bundle present, o = at least one bundle complete, t = all or none; the real table has
\* no 'r' constraint).  The harness re-derives every fact of this table from the working tree (row path, type,
\* attribute membership, attribute type/arity/enum, constraints) and refuses to run on a mismatch.
\*
\* A document is a prefix-closed set of nodes [path, tag, attrs], attrs = set of <<name, value class, type class>>:
\*     "ok"      a well-typed value (number(s) of the right count / a keyword of the attribute's enum / text)
\*     "text"    text where a number is required          "nonint"  1.5 where an int is required
\*     "many"    more numbers than the arity allows       "few"     fewer numbers than an exact arity requires
\*     "kwbad"   a word that is no keyword of the enum
\* Documents grow from conforming skeletons by AddNode (known tag in place / out of place, alias tags, unknown
\* tag) and AddAttr (row attribute with any applicable value class, attribute of another row, unknown attribute).
\*     valid     : root is mujoco, every element matches a row of its parent, cardinalities (? at most once),
\*                 attributes known, presence constraints hold, every value well-typed -- at every position,
\*                 also below the alias elements frame / replicate
\*     validcode : the verdict of the coded schema pass, which does not descend into alias children (named
\*                 deviation of XSchema.tla; value classes are still enforced there, by the reader itself)
\*     kinds     : the kinds of violation present (for vacuity guards and signatures)
EXTENDS Integers, Sequences, FiniteSets, TLC
CONSTANTS MaxNodes, MaxAttrs, Skels, TagSet, BadSet, RootTags

Exact == {"d2", "d3", "d6", "d7"}                 \* exactly n numbers
Upto  == {"v3", "v6"}                             \* at most n numbers
BadOf(ty) == IF ty = "s" THEN {}
             ELSE IF ty = "d1" THEN {"text", "many"}
             ELSE IF ty \in Exact THEN {"text", "many", "few"}
             ELSE IF ty \in Upto THEN {"text", "many"}
             ELSE IF ty = "i1" THEN {"text", "nonint", "many"}
             ELSE {"kwbad"}                         \* "kw": keyword of the enum the real schema declares

A(n, t) == <<n, t>>
Row == [i \in 1..24 |->
  CASE i = 1  -> [name |-> "mujoco", type |-> "!", attrs |-> {A("model", "s")}, subs |-> <<2, 3, 4, 5, 11, 14, 16>>, cons |-> {}]
    [] i = 2  -> [name |-> "option", type |-> "*",
                  attrs |-> {A("timestep", "d1"), A("gravity", "d3"), A("integrator", "kw"), A("iterations", "i1")},
                  subs |-> <<>>, cons |-> {}]
    [] i = 3  -> [name |-> "size", type |-> "*", attrs |-> {A("memory", "s"), A("njmax", "i1"), A("nstack", "i1")}, subs |-> <<>>,
                  cons |-> {[kind |-> "e", b |-> <<{"memory"}, {"njmax"}>>], [kind |-> "e", b |-> <<{"memory"}, {"nstack"}>>]}]
    [] i = 4  -> [name |-> "default", type |-> "R", attrs |-> {A("class", "s")}, subs |-> <<18, 19, 21, 22, 23>>, cons |-> {}]
    [] i = 5  -> [name |-> "body", type |-> "R", attrs |-> {A("name", "s"), A("pos", "d3"), A("mocap", "kw")},
                  subs |-> <<6, 7, 8, 9, 10>>, cons |-> {}]
    [] i = 6  -> [name |-> "inertial", type |-> "?",
                  attrs |-> {A("pos", "d3"), A("mass", "d1"), A("quat", "s"), A("euler", "d3"), A("fullinertia", "d6")}, subs |-> <<>>,
                  cons |-> {[kind |-> "e", b |-> <<{"fullinertia"}, {"quat"}, {"euler"}>>]}]
    [] i = 7  -> [name |-> "joint", type |-> "*",
                  attrs |-> {A("name", "s"), A("type", "kw"), A("axis", "d3"), A("range", "d2"), A("limited", "kw")},
                  subs |-> <<>>, cons |-> {}]
    [] i = 8  -> [name |-> "freejoint", type |-> "*", attrs |-> {A("name", "s"), A("group", "i1")}, subs |-> <<>>, cons |-> {}]
    [] i = 9  -> [name |-> "geom", type |-> "*",
                  attrs |-> {A("name", "s"), A("type", "kw"), A("size", "v3"), A("condim", "i1"), A("fromto", "d6")},
                  subs |-> <<>>, cons |-> {}]
    [] i = 10 -> [name |-> "site", type |-> "*", attrs |-> {A("name", "s"), A("pos", "d3")}, subs |-> <<>>, cons |-> {}]
    [] i = 11 -> [name |-> "equality", type |-> "*", attrs |-> {}, subs |-> <<12, 13, 24>>, cons |-> {}]
    [] i = 12 -> [name |-> "connect", type |-> "*",
                  attrs |-> {A("name", "s"), A("body1", "s"), A("body2", "s"), A("anchor", "d3"), A("site1", "s"), A("site2", "s")},
                  subs |-> <<>>,
                  cons |-> {[kind |-> "e", b |-> <<{"site1", "site2"}, {"body1", "body2", "anchor"}>>],
                            [kind |-> "o", b |-> <<{"site1", "site2"}, {"body1", "anchor"}>>],
                            [kind |-> "t", b |-> <<{"site1"}, {"site2"}>>]}]
    [] i = 13 -> [name |-> "weld", type |-> "*",
                  attrs |-> {A("body1", "s"), A("body2", "s"), A("relpose", "d7"), A("anchor", "d3"), A("site1", "s"), A("site2", "s"),
                             A("torquescale", "d1")}, subs |-> <<>>,
                  cons |-> {[kind |-> "e", b |-> <<{"site1", "site2"}, {"body1", "body2", "anchor", "relpose"}>>],
                            [kind |-> "o", b |-> <<{"site1", "site2"}, {"body1"}>>],
                            [kind |-> "t", b |-> <<{"site1"}, {"site2"}>>]}]
    [] i = 14 -> [name |-> "actuator", type |-> "*", attrs |-> {}, subs |-> <<15>>, cons |-> {}]
    [] i = 15 -> [name |-> "motor", type |-> "*",
                  attrs |-> {A("name", "s"), A("joint", "s"), A("gear", "v6"), A("ctrllimited", "kw"), A("ctrlrange", "d2")},
                  subs |-> <<>>, cons |-> {}]
    [] i = 16 -> [name |-> "sensor", type |-> "*", attrs |-> {}, subs |-> <<17, 20>>, cons |-> {}]
    [] i = 17 -> [name |-> "rangefinder", type |-> "*", attrs |-> {A("name", "s"), A("site", "s"), A("camera", "s"), A("cutoff", "d1")},
                  subs |-> <<>>,
                  cons |-> {[kind |-> "e", b |-> <<{"site"}, {"camera"}>>], [kind |-> "o", b |-> <<{"site"}, {"camera"}>>]}]
    \* rows of the <default> context (projected: no name / class), both of cardinality ?
    [] i = 18 -> [name |-> "joint", type |-> "?", attrs |-> {A("type", "kw"), A("axis", "d3"), A("range", "d2"), A("limited", "kw")},
                  subs |-> <<>>, cons |-> {}]
    [] i = 19 -> [name |-> "geom", type |-> "?", attrs |-> {A("type", "kw"), A("size", "v3"), A("condim", "i1")},
                  subs |-> <<>>, cons |-> {}]
    [] i = 21 -> [name |-> "site", type |-> "?", attrs |-> {A("pos", "d3"), A("group", "i1")}, subs |-> <<>>, cons |-> {}]
    [] i = 22 -> [name |-> "equality", type |-> "?", attrs |-> {A("active", "kw")}, subs |-> <<>>, cons |-> {}]
    [] i = 23 -> [name |-> "motor", type |-> "?", attrs |-> {A("gear", "v6"), A("ctrllimited", "kw")}, subs |-> <<>>, cons |-> {}]
    [] i = 24 -> [name |-> "joint", type |-> "*", attrs |-> {A("name", "s"), A("joint1", "s"), A("joint2", "s")}, subs |-> <<>>, cons |-> {}]
    [] OTHER  -> [name |-> "framepos", type |-> "*",
                  attrs |-> {A("name", "s"), A("objtype", "kw"), A("objname", "s"), A("reftype", "kw"), A("refname", "s")},
                  subs |-> <<>>, cons |-> {[kind |-> "t", b |-> <<{"reftype"}, {"refname"}>>]}]]
Alias == {"worldbody", "frame", "replicate"}
AttrNames(r) == {a[1] : a \in Row[r].attrs}
TypeOf(r, n) == (CHOOSE a \in Row[r].attrs : a[1] = n)[2]

VARIABLES doc, nnode, nattr, ev
vars == <<doc, nnode, nattr, ev>>

Kids(d, p) == {n \in d : Len(n.path) = Len(p) + 1 /\ SubSeq(n.path, 1, Len(p)) = p}
Names(n) == {x[1] : x \in n.attrs}
NameMatch(r, tag, level) ==
  \/ Row[r].name = tag
  \/ /\ Row[r].name = "body"
     /\ \/ (level = 1 /\ tag = "worldbody") \/ (level # 1 /\ tag = "body")
        \/ (level >= 1 /\ tag \in {"frame", "replicate"})
ConOK(c, attrs) ==
  LET nb == Len(c.b)
      anyp == {i \in 1..nb : c.b[i] \cap attrs # {}}
      allp == {i \in 1..nb : c.b[i] \subseteq attrs}
      listed == UNION {c.b[i] : i \in 1..nb}
  IN CASE c.kind = "e" -> Cardinality(anyp) <= 1
       [] c.kind = "t" -> (listed \cap attrs = {}) \/ (listed \subseteq attrs)
       [] OTHER        -> allp # {}
SubFor(r, tag, level) ==
  LET m == {k \in 1..Len(Row[r].subs) : NameMatch(Row[r].subs[k], tag, level)}
  IN IF m = {} THEN 0 ELSE Row[r].subs[CHOOSE k \in m : \A j \in m : k <= j]

\* the coded schema pass does not look below an alias child; the reader still reads (and type-checks) the
\* attributes of the elements it knows there -- only those of geom / joint / site / body are modelled as read
ReadAnyway(tag) == IF tag = "geom" THEN AttrNames(9) ELSE IF tag = "joint" THEN AttrNames(7)
                   ELSE IF tag = "site" THEN AttrNames(10) ELSE IF tag = "body" THEN AttrNames(5) ELSE {}
RECURSIVE ValuesBelow(_, _)
ValuesBelow(d, n) == {<<"value", x[2]>> : x \in {y \in n.attrs : y[2] # "ok" /\ y[1] \in ReadAnyway(n.tag)}}
                     \cup UNION {ValuesBelow(d, k) : k \in Kids(d, n.path)}
\* kinds of violation at and below node n read against row r (deep: descend into alias children too)
RECURSIVE Viol(_, _, _, _, _)
Viol(d, n, r, level, deep) ==
       (IF Names(n) \subseteq AttrNames(r) THEN {} ELSE {<<"unknown-attribute", "">>})
  \cup {<<"constraint", c.kind>> : c \in {x \in Row[r].cons : ~ConOK(x, Names(n))}}
  \cup {<<"value", x[2]>> : x \in {y \in n.attrs : y[1] \in AttrNames(r) /\ y[2] # "ok"}}
  \cup UNION {LET s == SubFor(r, k.tag, level + 1) IN
              IF s # 0 THEN Viol(d, k, s, level + 1, deep)
              ELSE IF Row[r].type = "R" /\ NameMatch(r, k.tag, level + 1)
                   THEN (IF deep \/ k.tag = Row[r].name THEN Viol(d, k, r, level + 1, deep) ELSE ValuesBelow(d, k))
                   ELSE {<<"unknown-element", "">>} : k \in Kids(d, n.path)}
  \cup {<<"cardinality", "">> : j \in {x \in 1..Len(Row[r].subs) :
           Row[Row[r].subs[x]].type \in {"?", "!"} /\
           Cardinality({k \in Kids(d, n.path) : SubFor(r, k.tag, level + 1) = Row[r].subs[x]}) > 1}}
Root(d) == CHOOSE n \in d : n.path = <<>>
Kinds(d, deep) == IF Root(d).tag # "mujoco" THEN {<<"wrong-root", "">>} ELSE Viol(d, Root(d), 1, 0, deep)
Verdict(d) == [valid |-> Kinds(d, TRUE) = {}, validcode |-> Kinds(d, FALSE) = {}, kinds |-> Kinds(d, TRUE)]

N(p, t, as) == [path |-> p, tag |-> t, attrs |-> as]
SkelA(root) == {N(<<>>, root, {}), N(<<1>>, "option", {}), N(<<2>>, "worldbody", {}), N(<<2, 1>>, "body", {}),
                N(<<2, 1, 1>>, "geom", {<<"size", "ok", "v3">>})}
SkelB == {N(<<>>, "mujoco", {<<"model", "ok", "s">>}), N(<<1>>, "default", {}), N(<<1, 1>>, "geom", {<<"size", "ok", "v3">>}),
          N(<<2>>, "worldbody", {}), N(<<2, 1>>, "body", {<<"name", "ok", "s">>}),
          N(<<2, 1, 1>>, "inertial", {<<"pos", "ok", "d3">>, <<"mass", "ok", "d1">>}), N(<<2, 1, 2>>, "joint", {<<"name", "ok", "s">>}),
          N(<<2, 1, 3>>, "geom", {<<"size", "ok", "v3">>}), N(<<2, 1, 4>>, "frame", {}), N(<<2, 1, 4, 1>>, "geom", {<<"size", "ok", "v3">>}),
          N(<<3>>, "equality", {}), N(<<3, 1>>, "connect", {<<"body1", "ok", "s">>, <<"anchor", "ok", "d3">>}),
          N(<<4>>, "actuator", {}), N(<<4, 1>>, "motor", {<<"joint", "ok", "s">>}),
          N(<<5>>, "sensor", {}), N(<<5, 1>>, "rangefinder", {<<"site", "ok", "s">>})}
SkelC == {N(<<>>, "mujoco", {}), N(<<1>>, "size", {}), N(<<2>>, "equality", {}),
          N(<<2, 1>>, "weld", {<<"body1", "ok", "s">>}), N(<<2, 2>>, "connect", {<<"site1", "ok", "s">>, <<"site2", "ok", "s">>}),
          N(<<3>>, "sensor", {}), N(<<3, 1>>, "framepos", {<<"objtype", "ok", "kw">>, <<"objname", "ok", "s">>}),
          N(<<4>>, "worldbody", {}), N(<<4, 1>>, "body", {}), N(<<4, 1, 1>>, "freejoint", {}), N(<<4, 1, 2>>, "geom", {<<"size", "ok", "v3">>}),
          N(<<4, 1, 3>>, "body", {}), N(<<4, 1, 3, 1>>, "inertial", {<<"pos", "ok", "d3">>, <<"mass", "ok", "d1">>})}
Init == /\ doc \in ({SkelA(rt) : rt \in (IF "A" \in Skels THEN RootTags ELSE {})}
                    \cup {SkelB : x \in Skels \cap {"B"}} \cup {SkelC : x \in Skels \cap {"C"}})
        /\ nnode = 0 /\ nattr = 0 /\ ev = Verdict(doc)

\* the row a node is read against (0: none), following the same matching as the verdict
RECURSIVE RowAt(_, _)
RowAt(d, p) == IF p = <<>> THEN 1
               ELSE LET pr == RowAt(d, SubSeq(p, 1, Len(p) - 1))
                        nd == CHOOSE n \in d : n.path = p IN
                    IF pr = 0 THEN 0
                    ELSE IF SubFor(pr, nd.tag, Len(p)) # 0 THEN SubFor(pr, nd.tag, Len(p))
                    ELSE IF Row[pr].type = "R" /\ NameMatch(pr, nd.tag, Len(p)) THEN pr ELSE 0
AddNode(p, tag) ==
  /\ nnode < MaxNodes /\ Len(p) < 4 /\ nnode' = nnode + 1
  /\ \E n \in doc : n.path = p
  /\ doc' = doc \cup {N(Append(p, Cardinality(Kids(doc, p)) + 1), tag, {})}
  /\ UNCHANGED nattr /\ ev' = Verdict(doc')
\* attribute a with value class v on node p: a row attribute (v ok or any bad class of its type), an attribute of
\* another row ("gravity" / "size"), or an unknown one ("zz"), the latter two with a well-formed value
AddAttr(p, a, v) ==
  /\ nattr < MaxAttrs /\ nattr' = nattr + 1
  /\ \E n \in doc : n.path = p /\ a \notin Names(n)
  /\ LET r == RowAt(doc, p) IN
     IF r # 0 /\ a \in AttrNames(r) THEN v \in {"ok"} \cup (BadOf(TypeOf(r, a)) \cap BadSet)
     ELSE a \in {"zz", "gravity", "size"} /\ v = "ok"
  /\ LET r == RowAt(doc, p)
         ty == IF r # 0 /\ a \in AttrNames(r) THEN TypeOf(r, a) ELSE "s" IN
     doc' = {IF n.path = p THEN [n EXCEPT !.attrs = @ \cup {<<a, v, ty>>}] ELSE n : n \in doc}
  /\ UNCHANGED nnode /\ ev' = Verdict(doc')
Paths == {n.path : n \in doc}
AllAttrNames == UNION {AttrNames(r) : r \in 1..24} \cup {"zz"}
Next == \/ \E p \in Paths, t \in TagSet : AddNode(p, t)
        \/ \E p \in Paths, a \in AllAttrNames, v \in {"ok", "text", "many", "few", "nonint", "kwbad"} : AddAttr(p, a, v)
Spec == Init /\ [][Next]_vars

\* ---- properties of the specification itself ---------------------------------------------------------
VerdictIsVerdict == ev = Verdict(doc)
SkeletonsValid == (nnode = 0 /\ nattr = 0 /\ Root(doc).tag = "mujoco") => ev.valid
CodeNeverStricter == ev.valid => ev.validcode
HasInnerAlias == \E n \in doc : n.tag \in {"frame", "replicate"}
DiffOnlyUnderAlias == (ev.valid # ev.validcode) => HasInnerAlias
BogusInvalid == (\E n \in doc : n.tag = "bogus" \/ <<"zz", "ok", "s">> \in n.attrs) => ~ev.valid
BadValueInvalid == (\E n \in doc : RowAt(doc, n.path) # 0 /\
                       \E x \in n.attrs : x[1] \in AttrNames(RowAt(doc, n.path)) /\ x[2] # "ok") => ~ev.valid
\* growing never repairs: an invalid document stays invalid except that a missing 'o' bundle / 't' partner can be completed
MonotoneInvalid == [][(~ev.valid /\ ev.kinds \cap {<<"constraint", "o">>, <<"constraint", "t">>} = {}) => ~ev'.valid]_vars
\* negative configuration: this is FALSE (TLC must find an invalid document)
NeverInvalid == ev.valid

AllTags   == {"option", "size", "default", "body", "worldbody", "inertial", "joint", "freejoint", "geom", "site", "equality",
              "connect", "weld", "actuator", "motor", "sensor", "rangefinder", "framepos", "frame", "replicate", "bogus"}
FewTags   == {"option", "default", "body", "inertial", "geom", "joint", "frame", "bogus", "connect", "rangefinder"}
AllBad    == {"text", "many", "few", "nonint", "kwbad"}
SkABC     == {"A", "B", "C"}
SkBC      == {"B", "C"}
SkB       == {"B"}
SkC       == {"C"}
Roots     == {"mujoco", "model", "body"}
RootOK    == {"mujoco"}
\* the table, printed once so that the harness can read it (facts check against the working tree, rendering)
ASSUME PrintT(<<"ROWS", Row>>)
=============================================================================
