SPECIFICATION Spec
CONSTANTS
  W = 16
  Base = 64
  Configs <- C_100
  Sizes <- S_3
  Aligns <- A_8
  MaxOps = 3
  MaxFrames = 2
  Threads <- T2
  CodeSites <- Contract
INVARIANT TypeOK
INVARIANT InArena
INVARIANT Aligned
INVARIANT Disjoint
INVARIANT RedZoneGap
INVARIANT Apart
INVARIANT Sides
INVARIANT FramesOK
INVARIANT ReservationsDisjoint
PROPERTY FreeRestores
PROPERTY MarkFreeId
PROPERTY ErrorIsClean
PROPERTY NoSpuriousNull
PROPERTY NoSpuriousErr
PROPERTY FinishAgrees
CHECK_DEADLOCK FALSE
