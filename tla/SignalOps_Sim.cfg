SPECIFICATION Spec
CONSTANTS
  MaxOps = 6
  MaxObjs = 5
  MaxSeries = 2
  InPlaceDelay = FALSE
  Biases <- MC_Biases
  Gains <- MC_Gains
  Delays <- MC_Delays
  Windows <- MC_Windows
  DWindows <- MC_DWindows
  RsdCfgs <- MC_RsdCfgs
  NearCfgs <- MC_NearCfgs
  GridIds <- MC_GridIds
  Methods <- MC_Methods
  QueryTimes <- MC_Query
  Cuts <- MC_Cuts
INVARIANT TypeOK
INVARIANT Exact
INVARIANT PowerOfTwoSteps
CHECK_DEADLOCK FALSE
