SPECIFICATION Spec
CONSTANTS
  Models <- ModelsA
  Caps <- CapsAll
  GMasks <- AllGroups
  SMasks <- SiteMasks
  JMasks <- NoSites
  TMasks <- NoSites
  AMasks <- NoSites
  FlagSets <- NoFlags
  Statics <- BothBool
  CatMasks <- ThreeCats
  QPos <- Q0
  Status0 <- St0
  InitMode = "all"
  Ops <- CallOps
  MaxOps = 1
  Bug = "none"
INVARIANT TypeOK
INVARIANT Bounded
INVARIANT StatusIsOverflow
INVARIANT Faithful
INVARIANT GroupLaw
INVARIANT MinLaw
INVARIANT OnlyGeoms
INVARIANT WalkDeterministic
PROPERTY NoFalseAlarm
CHECK_DEADLOCK FALSE
