----------------------------- MODULE CacheTrace -----------------------------
\* Trace validation (code -> spec) for Cache.tla.  A trace is [cap |-> initial capacity, evs |-> events];
\* events are the operations of a (possibly concurrent) history of the real mjCCache in lock-acquisition order,
\* with arguments and results; size = -1 means "not observed" (concurrent histories log only the final size).
EXTENDS Cache, Json, IOUtils, TLCExt
Traces == JsonDeserialize(IOEnv.TRACE_FILE)
VARIABLES tid, l
tvars == <<vars, tid, l>>
TInit == /\ tid \in 1..Len(Traces) /\ TLCSet(tid, 0) /\ l = 1
         /\ cap = Traces[tid].cap /\ size = 0 /\ insnum = 0
         /\ asset = [i \in Ids |-> NONE] /\ mods = [m \in Models |-> {}]
         /\ nops = 0 /\ ev = [op |-> "init", cap |-> cap]
Cur == Traces[tid].evs[l]
SizeOk == Cur.size = -1 \/ ev'.size = Cur.size
Step ==
  \/ /\ Cur.op = "insert" /\ InsertT(Cur.m, Cur.id, Cur.ts, Cur.b, Cur.tok) /\ ev'.ret = Cur.ret /\ SizeOk
  \/ /\ Cur.op = "populate" /\ PopulateT(Cur.id, Cur.ts) /\ ev'.ret = Cur.ret /\ ev'.tok = Cur.tok /\ SizeOk
  \/ /\ Cur.op = "has" /\ HasT(Cur.id) /\ ev'.ret = Cur.ret /\ SizeOk
  \/ /\ Cur.op = "removemodel" /\ RemoveModelT(Cur.m) /\ SizeOk
  \/ /\ Cur.op = "resetmodel" /\ ResetModelT(Cur.m) /\ SizeOk
  \/ /\ Cur.op = "resetall" /\ ResetAllT /\ SizeOk
  \/ /\ Cur.op = "delete" /\ DeleteAssetT(Cur.id) /\ SizeOk
  \/ /\ Cur.op = "setcap" /\ SetCapacityT(Cur.c) /\ SizeOk
  \/ /\ Cur.op = "final" /\ size = Cur.size /\ cap = Cur.c /\ UNCHANGED <<cap, size, insnum, asset, mods, ev>>
TNext == l <= Len(Traces[tid].evs) /\ l' = l + 1 /\ UNCHANGED <<tid, nops>> /\ Step
TSpec == TInit /\ [][TNext]_tvars
Track == IF l - 1 > TLCGet(tid) THEN TLCSet(tid, l - 1) ELSE TRUE
Report == /\ \A t \in 1..Len(Traces) : PrintT(<<"TRACE", t, TLCGet(t), Len(Traces[t].evs)>>)
          /\ \A t \in 1..Len(Traces) : TLCGet(t) = Len(Traces[t].evs)
=============================================================================
