SPECIFICATION Spec
CONSTANTS
  Hs <- L_HX
  Ms <- L_M
  Ks <- L_K2
  Bs <- L_B3
  Polys <- L_PX
  Fs <- L_F2
  Q0s <- L_Q3
  V0s <- L_V3
  W0s <- L_W2
  T0s <- L_T
  Us <- L_UX
  Integs <- L_AllInt
  EDamps <- L_Bool
  Dampers <- L_Bool
  Springs <- L_Bool
  Actuations <- L_Bool
  GroupOns <- L_Bool
  Acts <- AllPresets
  MaxSteps = 4
  MaxOff = 5
  Variant = "doc"
  Bound = 1024
  BoundRK = 64

INVARIANT TypeOK
INVARIANT DerivedOK
INVARIANT TimeAdvances
INVARIANT TimeIsSteps
INVARIANT ActInRange
INVARIANT ActLaw
INVARIANT EnclosureOK
INVARIANT FilterExactLaw
INVARIANT ActFrozen
INVARIANT SemiImplicit
INVARIANT UpdateEq
INVARIANT EulerDampEq
INVARIANT ImplicitIsEulerDamp
INVARIANT RK4Taylor
INVARIANT RK4ConstAcc
INVARIANT DamperContracts
INVARIANT PolyDampLaw
CHECK_DEADLOCK FALSE
