SPECIFICATION Spec
CONSTANTS
  ShapesA <- MC_ShapesA
  ShapesB <- MC_ShapesB
  Centers <- MC_Centers
  Margins <- MC_Margins
  MaxOps = 1
INVARIANT NegNoPenetration
CHECK_DEADLOCK FALSE
