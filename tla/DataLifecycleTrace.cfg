SPECIFICATION TSpec
CONSTANTS
  NI = 3
  MaxOps = 1000
  NPat = 2
  SigNames <- MC_SigsAll
  GoodSigs <- MC_Good
  SleepOn = TRUE
  Caveat = TRUE
  Phased = FALSE
  Opts <- MC_Opt1
  Scenario = FALSE
  Allowed <- MC_NoAllowed
INVARIANT TypeOK
INVARIANT Determinism
INVARIANT GoodSig
INVARIANT TwinSound
CONSTRAINT Track
POSTCONDITION Report
CHECK_DEADLOCK FALSE
