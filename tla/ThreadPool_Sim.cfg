SPECIFICATION Spec
CONSTANTS
  NW = 3
  MaxTask = 4
  MaxOps = 5
  Bug = "none"
INVARIANT ExactlyOnceAtReturn
INVARIANT NoneRunningAtReturn
