------------------------------- MODULE Sparse -------------------------------
\* Structural part of MuJoCo's linear algebra (src/engine/engine_util_sparse.c, engine_util_sparse.h,
\* engine_util_solve.c): compressed-sparse-row (CSR) matrices against their dense denotation, band and
\* symmetric-lower storage, and the Cholesky / LU factor-solve pairs on integer problems with known answers.
\*
\* A matrix is kept TWICE:
\*   A : the CSR representation  [nr, nc, lay, rows]; rows[r] is the sequence of <<column, value>> entries of row r
\*       in storage order (columns 0-based, increasing), lay is the memory layout: "c" compressed (row r starts
\*       where row r-1 ends) or "u" uncompressed (row r starts at r*nc, so every row has room for nc entries).
\*       Stored entries may hold the value 0 (explicit zeros), rows may be empty.
\*   D : its dense denotation, a ghost variable updated ONLY through the dense definition of every operation.
\* A evolves through entry-level (sparse) definitions of the operations; the invariant Denotes (DenseOf(A) = D)
\* and the flag chk (sparse formula = dense formula for operations that return vectors) say that every sparse
\* routine equals its dense counterpart; TLC checks them for every sparsity pattern of the configured sizes.
\* B / DB: a second operand for the two-operand routines.
\*
\* Values are a fixed function of the position (VA, VB: small integers, some of them 0), so a pattern determines
\* the matrix; vectors and diagonals are fixed as well.  ev' = the call, its arguments, the operands it was applied
\* to (ev.in) and what the implementation must return (ev.ret: dense matrices, vectors, counts).
\*
\* Factorizations (pattern family "lower"): the pattern picks an integer lower-triangular L with positive diagonal; the
\* routines are given L L' (dense, band) or L' L (sparse reverse order) and must give back L, and x from (L L') x.
\*
\* One TLC run explores a set of SUITES (sizes x pattern family x layouts x family of second operands x enabled calls);
\* the suite of a behaviour is chosen in the initial state and kept in the variable su.
EXTENDS Integers, Sequences, FiniteSets, TLC
CONSTANTS Suites,    \* names of the suites explored in this run; a suite fixes sizes, pattern family, layouts, the family of
                     \* second operands, the enabled calls and the number of calls per behaviour (see Suite below)
          Bug        \* "none" | "upper": the sparse transpose forgets its last row (negative control)

\* ---- fixed data ---------------------------------------------------------------------------------------------------
VA(r, c) == ((3 * r + 5 * c + 1) % 7) - 3          \* -3..3; zero at (2,2), (3,0), (0,4) ...
VB(r, c) == ((2 * r + 3 * c + 2) % 5) - 2          \* -2..2
VL(r, c) == IF r = c THEN 1 + (r % 3) ELSE VA(r, c)  \* lower-triangular factors: diagonal 1, 2, 3, 1
XV == <<2, -1, 3, 1, -2, 1, 2, -3>>                  \* vector multiplied from the right (length nc)
YV == <<1, -2, 2, 3, -1, 2>>                         \* vector multiplied from the left (length nr)
DG == <<2, 0, 3, 1, -1, 2>>                          \* diagonal of M' diag M (with a zero)
Ones(n) == [i \in 1..n |-> 1]
Abs(x) == IF x < 0 THEN -x ELSE x

\* ---- sequences -----------------------------------------------------------------------------------------------------
RECURSIVE Sum(_, _)
Sum(f, n) == IF n = 0 THEN 0 ELSE f[n] + Sum(f, n - 1)
Upto(n) == [i \in 1..n |-> i - 1]                    \* <<0, 1, .., n-1>>
SortedSeq(S, n) == SelectSeq(Upto(n), LAMBDA c : c \in S)      \* the subset S of 0..n-1 in increasing order
Take(s, n) == [i \in 1..n |-> s[i]]

\* ---- CSR matrices ---------------------------------------------------------------------------------------------------
Cols(row)   == [i \in 1..Len(row) |-> row[i][1]]
ColSet(row) == {row[i][1] : i \in 1..Len(row)}
Val(row, c) == LET S == {i \in 1..Len(row) : row[i][1] = c} IN IF S = {} THEN 0 ELSE row[CHOOSE i \in S : TRUE][2]
RowOf(P, r, nc, V(_, _)) == LET cs == SortedSeq({c \in 0..nc - 1 : <<r, c>> \in P}, nc) IN
                            [i \in 1..Len(cs) |-> <<cs[i], V(r, cs[i])>>]
MkMat(nr, nc, lay, P, V(_, _)) == [nr |-> nr, nc |-> nc, lay |-> lay, rows |-> [r \in 1..nr |-> RowOf(P, r - 1, nc, V)]]
DenseOf(M) == [r \in 1..M.nr |-> [c \in 1..M.nc |-> Val(M.rows[r], c - 1)]]
Nnz(M)     == [r \in 1..M.nr |-> Len(M.rows[r])]
Total(M)   == Sum(Nnz(M), M.nr)
WellFormed(M) == \A r \in 1..M.nr : /\ Len(M.rows[r]) <= M.nc
                                    /\ \A i \in 1..Len(M.rows[r]) : M.rows[r][i][1] \in 0..M.nc - 1
                                    /\ \A i \in 1..Len(M.rows[r]) - 1 : M.rows[r][i][1] < M.rows[r][i + 1][1]
\* CSR from a dense matrix: the non-zeros in row-major order (mju_dense2sparse)
FromDense(X, nr, nc, lay) == [nr |-> nr, nc |-> nc, lay |-> lay,
   rows |-> [r \in 1..nr |-> LET cs == SortedSeq({c \in 0..nc - 1 : X[r][c + 1] # 0}, nc) IN
                             [i \in 1..Len(cs) |-> <<cs[i], X[r][cs[i] + 1]>>]]]
\* lower triangle (with the whole diagonal) of a square dense matrix, uncompressed so that fill-in has room
FromLower(X, n) == [nr |-> n, nc |-> n, lay |-> "u",
   rows |-> [r \in 1..n |-> LET cs == SortedSeq({c \in 0..r - 1 : X[r][c + 1] # 0 \/ c = r - 1}, n) IN
                            [i \in 1..Len(cs) |-> <<cs[i], X[r][cs[i] + 1]>>]]]
\* row supernodes: number of rows directly below with the same column sequence
RECURSIVE SuperAt(_, _)
SuperAt(M, r) == IF r >= M.nr THEN 0 ELSE IF Cols(M.rows[r]) = Cols(M.rows[r + 1]) THEN 1 + SuperAt(M, r + 1) ELSE 0
Super(M) == [r \in 1..M.nr |-> SuperAt(M, r)]

\* ---- dense definitions ------------------------------------------------------------------------------------------------
DZero(nr, nc)        == [r \in 1..nr |-> [c \in 1..nc |-> 0]]
DTrans(X, nr, nc)    == [c \in 1..nc |-> [r \in 1..nr |-> X[r][c]]]
DMulVec(X, nr, nc, x) == [r \in 1..nr |-> Sum([c \in 1..nc |-> X[r][c] * x[c]], nc)]
DTMulVec(X, nr, nc, y) == [c \in 1..nc |-> Sum([r \in 1..nr |-> X[r][c] * y[r]], nr)]
DComb(X, Y, a, b, nr, nc) == [r \in 1..nr |-> [c \in 1..nc |-> a * X[r][c] + b * Y[r][c]]]
DMul(X, Y, n, k, m)  == [i \in 1..n |-> [j \in 1..m |-> Sum([l \in 1..k |-> X[i][l] * Y[l][j]], k)]]
\* M' diag M
DSqr(X, dg, nr, nc)  == [i \in 1..nc |-> [j \in 1..nc |-> Sum([k \in 1..nr |-> dg[k] * X[k][i] * X[k][j]], nr)]]
DLower(S, n)         == [i \in 1..n |-> [j \in 1..n |-> IF j <= i THEN S[i][j] ELSE 0]]
\* symmetric matrix stored as its lower triangle
DSym(X, n)           == [i \in 1..n |-> [j \in 1..n |-> IF j <= i THEN X[i][j] ELSE X[j][i]]]
DOuter(x, n)         == [i \in 1..n |-> [j \in 1..n |-> x[i] * x[j]]]
\* determinant by expansion along the first row (n <= 4)
RECURSIVE Det(_, _)
Minor(X, n, j) == [r \in 1..n - 1 |-> [c \in 1..n - 1 |-> X[r + 1][IF c < j THEN c ELSE c + 1]]]
Det(X, n) == IF n = 0 THEN 1 ELSE IF n = 1 THEN X[1][1]
             ELSE Sum([j \in 1..n |-> (IF j % 2 = 1 THEN 1 ELSE -1) * X[1][j] * Det(Minor(X, n, j), n - 1)], n)

\* ---- entry-level (sparse) definitions -----------------------------------------------------------------------------------
SMulVec(M, x)  == [r \in 1..M.nr |-> Sum([i \in 1..Len(M.rows[r]) |-> M.rows[r][i][2] * x[M.rows[r][i][1] + 1]], Len(M.rows[r]))]
SMulTVec(M, y) == [c \in 1..M.nc |-> Sum([r \in 1..M.nr |-> Val(M.rows[r], c - 1) * y[r]], M.nr)]
STrans(M) == [nr |-> M.nc, nc |-> (IF Bug = "upper" /\ M.nr > 1 THEN M.nr - 1 ELSE M.nr), lay |-> "c",
              rows |-> [c \in 1..M.nc |->
                 LET rs == SelectSeq(Upto(IF Bug = "upper" /\ M.nr > 1 THEN M.nr - 1 ELSE M.nr),
                                     LAMBDA r : (c - 1) \in ColSet(M.rows[r + 1])) IN
                 [i \in 1..Len(rs) |-> <<rs[i], Val(M.rows[rs[i] + 1], c - 1)>>]]]
SCompress(M, mv) == [M EXCEPT !.lay = "c",
                              !.rows = [r \in 1..M.nr |-> SelectSeq(M.rows[r], LAMBDA e : mv < 0 \/ Abs(e[2]) > mv)]]
\* a * r1 + b * r2 on the union of the two patterns (mju_combineSparse)
RowComb(r1, r2, a, b, nc) == LET cs == SortedSeq(ColSet(r1) \cup ColSet(r2), nc) IN
                             [i \in 1..Len(cs) |-> <<cs[i], a * Val(r1, cs[i]) + b * Val(r2, cs[i])>>]
\* the same restricted to the pattern of r1 (mju_combineSparseInc, mju_addToSclSparseInc)
RowCombInc(r1, r2, a, b) == [i \in 1..Len(r1) |-> <<r1[i][1], a * r1[i][2] + b * Val(r2, r1[i][1])>>]
RowDot(r1, r2) == Sum([i \in 1..Len(r1) |-> r1[i][2] * Val(r2, r1[i][1])], Len(r1))
SComb(M, N, a, b) == [M EXCEPT !.rows = [r \in 1..M.nr |-> RowComb(M.rows[r], N.rows[r], a, b, M.nc)]]
SCombInc(M, N, a, b) == [M EXCEPT !.rows = [r \in 1..M.nr |-> RowCombInc(M.rows[r], N.rows[r], a, b)]]

\* ---- patterns ------------------------------------------------------------------------------------------------------------
Cells(nr, nc) == (0..nr - 1) \X (0..nc - 1)
RECURSIVE Pow2(_)
Pow2(n) == IF n = 0 THEN 1 ELSE 2 * Pow2(n - 1)
\* cell (r, c) belongs to the pattern of seed s iff bit r*nc + c of the scrambled seed is set
SeedBits(s, n) == ((s * 40503 + 12345) * 31 + s * s * 7) % Pow2(n)
\* pattern families: "all": every subset of the cells | "sample": nseeds pseudo-random subsets | "rowrep": all rows share
\* one column set, one row may be empty or full instead | "lower": square, lower triangle with the whole diagonal
Patterns(nr, nc, fam, nseeds) ==
  CASE fam = "all"    -> SUBSET Cells(nr, nc)
    [] fam = "sample" -> {{p \in Cells(nr, nc) : (SeedBits(s, nr * nc) \div Pow2(p[1] * nc + p[2])) % 2 = 1} : s \in 1..nseeds}
    [] fam = "rowrep" -> {{<<r, c>> \in Cells(nr, nc) : c \in (IF r = k THEN Q ELSE S)} :
                                 S \in SUBSET (0..nc - 1), Q \in {{}, 0..nc - 1}, k \in 0..nr}
    [] OTHER             -> {{<<r, r>> : r \in 0..nr - 1} \cup T : T \in SUBSET {<<r, c>> \in Cells(nr, nc) : c < r}}
Shift(P, nc) == {<<p[1], (p[2] + 1) % nc>> : p \in P}
BPatterns(nr, nc, P, bfam) ==
  CASE bfam = "all" -> SUBSET Cells(nr, nc)
    [] bfam = "few" -> {P, {}, Cells(nr, nc), Cells(nr, nc) \ P, Shift(P, nc),
                           {p \in P : p[2] % 2 = 0}, P \cup {<<r, nc - 1>> : r \in 0..nr - 1}}
    [] OTHER           -> {{}}


\* ---- suites ------------------------------------------------------------------------------------------------------------
Dims33  == {<<a, b>> : a \in 1..3, b \in 1..3}
Dims34  == {<<3, 4>>, <<4, 3>>, <<1, 4>>, <<2, 4>>, <<4, 1>>, <<4, 2>>}
DimsLower == {<<n, n>> : n \in 1..4}
OneOps  == {"S2D", "D2S", "MulVec", "MulTVec", "Transpose", "Compress", "Gather", "Scatter", "Sqr", "LU"}
CheapOps == {"S2D", "D2S", "MulVec", "MulTVec", "Transpose", "Compress", "Gather", "Scatter"}
PairOps == {"AddTo", "Combine", "CombineInc", "AddSclInc", "Dot2", "Merge"}
WideOps == {"Combine", "CombineInc", "Dot2", "Merge", "MulVec"}
RepOps  == {"S2D", "MulVec", "Transpose", "Sqr"}
LowerOps == {"Sym2Dense", "MulSymVec", "AddToSym", "CholDense", "CholUpdate", "CholSparse", "Band"}
ChainOps == {"Transpose", "Compress", "CombineInc", "MulVec", "MulTVec", "S2D", "Sqr", "D2S", "Gather", "Scatter"}
Mk(dims, fam, nseeds, lays, bfam, ops, maxops, full) ==
  [dims |-> dims, fam |-> fam, nseeds |-> nseeds, lays |-> lays, bfam |-> bfam, ops |-> ops, maxops |-> maxops, full |-> full]
\* full = FALSE: M' diag M only without diagonal / with diagonal and upper triangle (two of the three modes)
Suite(n) ==
  CASE n = "one33"   -> Mk(Dims33, "all", 0, {"c", "u"}, "none", OneOps, 1, FALSE)          \* every pattern up to 3x3
    [] n = "one33f"  -> Mk(Dims33, "all", 0, {"c", "u"}, "none", OneOps, 1, TRUE)
    [] n = "one34"   -> Mk(Dims34, "all", 0, {"c"}, "none", OneOps, 1, TRUE)                \* every pattern of 3x4, 4x3, ...
    [] n = "cheap44" -> Mk({<<4, 4>>}, "all", 0, {"c"}, "none", {"MulVec", "MulTVec", "Transpose"}, 1, TRUE)   \* every 4x4 pattern
    [] n = "s44q"    -> Mk({<<4, 4>>}, "sample", 40, {"c", "u"}, "none", OneOps, 1, FALSE)  \* sampled 4x4 patterns
    [] n = "s44"     -> Mk({<<4, 4>>}, "sample", 600, {"c", "u"}, "none", OneOps, 1, TRUE)
    [] n = "pairq"   -> Mk({<<1, 3>>, <<2, 2>>, <<1, 4>>}, "all", 0, {"c", "u"}, "all", PairOps, 1, TRUE)   \* all pairs of patterns
    [] n = "pairt"   -> Mk({<<2, 3>>, <<3, 2>>}, "all", 0, {"c", "u"}, "all", PairOps, 1, TRUE)
    [] n = "wideq"   -> Mk({<<1, 6>>}, "all", 0, {"u"}, "few", WideOps, 1, TRUE)            \* long rows: SIMD blocks and remainders
    [] n = "wide"    -> Mk({<<1, 8>>, <<1, 5>>}, "all", 0, {"u"}, "few", WideOps, 1, TRUE)
    [] n = "repq"    -> Mk({<<3, 5>>}, "rowrep", 0, {"c"}, "none", RepOps, 1, FALSE)        \* supernodes
    [] n = "rep"     -> Mk({<<3, 5>>, <<4, 6>>, <<5, 4>>}, "rowrep", 0, {"c"}, "none", RepOps, 1, TRUE)
    [] n = "lower"   -> Mk(DimsLower, "lower", 0, {"c"}, "none", LowerOps, 1, TRUE)         \* symmetric storage, factorizations
    [] n = "chain"   -> Mk(Dims33, "all", 0, {"c", "u"}, "none", ChainOps, 5, TRUE)         \* several calls in a row (simulation)
    [] OTHER         -> Mk(Dims33, "all", 0, {"c"}, "none", CheapOps, 1, TRUE)              \* "neg"

VARIABLES A, D, B, DB, su, chk, ev, nops
vars == <<A, D, B, DB, su, chk, ev, nops>>
NR == A.nr
NC == A.nc
Xv  == Take(XV, NC)
Yv  == Take(YV, NR)

Init == \E n \in Suites : \E d \in Suite(n).dims : \E P \in Patterns(d[1], d[2], Suite(n).fam, Suite(n).nseeds) :
        \E lay \in Suite(n).lays : \E PB \in BPatterns(d[1], d[2], P, Suite(n).bfam) :
          /\ su = [name |-> n, fam |-> Suite(n).fam, ops |-> Suite(n).ops, maxops |-> Suite(n).maxops, full |-> Suite(n).full]
          /\ A = (IF Suite(n).fam = "lower" THEN MkMat(d[1], d[2], lay, P, VL) ELSE MkMat(d[1], d[2], lay, P, VA))
          /\ D = DenseOf(A)
          /\ B = MkMat(d[1], d[2], "c", PB, VB)
          /\ DB = DenseOf(B)
          /\ chk = TRUE /\ nops = 0 /\ ev = [op |-> "init"]

Can(name) == name \in su.ops /\ nops < su.maxops
InA  == [A |-> A]
InAB == [A |-> A, B |-> B]
\* a call that leaves the operands alone
Query(name, args, inp, ret, ok) == /\ UNCHANGED <<A, D, B, DB, su>> /\ chk' = ok /\ nops' = nops + 1
                                   /\ ev' = [op |-> name, a |-> args, in |-> inp, ret |-> ret]
\* a call that replaces A
Update(name, args, inp, newA, newD, ret) == /\ A' = newA /\ D' = newD /\ UNCHANGED <<B, DB, su>> /\ chk' = WellFormed(newA)
                                            /\ nops' = nops + 1
                                            /\ ev' = [op |-> name, a |-> args, in |-> inp, ret |-> ret]

\* ---- one matrix -----------------------------------------------------------------------------------------------------------------
\* mju_sparse2dense
S2D == Can("S2D") /\ Query("s2d", << >>, InA, [dense |-> D], TRUE)
\* mju_dense2sparse of the dense denotation with room for cap entries: 1 if too small
D2S(cap) == /\ Can("D2S") /\ A.lay = "c" /\ cap >= 1
            /\ LET R == FromDense(D, NR, NC, "c") IN
               Query("d2s", [cap |-> cap], InA,
                     [code |-> IF Total(R) > cap THEN 1 ELSE 0, dense |-> D, nnz |-> Nnz(R)], DenseOf(R) = D)
DoD2S == \E k \in {Total(FromDense(D, NR, NC, "c")) + j : j \in {-1, 0, 1}} : D2S(k)
\* mju_mulMatVecSparse, without and with the supernodes of mju_superSparse
MulVec(sup) == Can("MulVec") /\ Query("mulvec", [x |-> Xv, super |-> sup], InA,
                                      [vec |-> DMulVec(D, NR, NC, Xv), super |-> Super(A)], SMulVec(A, Xv) = DMulVec(D, NR, NC, Xv))
\* mju_mulMatTVecSparse
MulTVec == Can("MulTVec") /\ Query("multvec", [y |-> Yv], InA, [vec |-> DTMulVec(D, NR, NC, Yv)],
                                   SMulTVec(A, Yv) = DTMulVec(D, NR, NC, Yv))
\* mju_transposeSparse (with the supernodes of the result)
Transpose == /\ Can("Transpose") /\ A.lay = "c"
             /\ LET T == STrans(A) IN
                Update("transpose", << >>, InA, T, DTrans(D, NR, NC),
                       [dense |-> DTrans(D, NR, NC), nnz |-> Nnz(T), super |-> Super(T)])
\* mju_compressSparse: minval < 0 only closes the gaps, otherwise entries with |v| <= minval are dropped
Compress(mv) == /\ Can("Compress")
                /\ LET C == SCompress(A, mv)
                       DC == [r \in 1..NR |-> [c \in 1..NC |-> IF mv >= 0 /\ Abs(D[r][c]) <= mv THEN 0 ELSE D[r][c]]]
                   IN Update("compress", [minval |-> mv], InA, C, DC, [dense |-> DC, nnz |-> Nnz(C), total |-> Total(C)])
\* mju_gather / mju_scatter with the column indices of each row
Gather == Can("Gather") /\ Query("gather", [x |-> Xv], InA, [rows |-> [r \in 1..NR |-> [i \in 1..Len(A.rows[r]) |-> Xv[A.rows[r][i][1] + 1]]]], TRUE)
Scatter == Can("Scatter") /\ Query("scatter", << >>, InA, [dense |-> D], TRUE)
\* M' diag M through the four implementations; dg = << >> means no diagonal; up: the upper triangle is filled in too
Variants == {"sym", "col", "ucol", "row"}
Sqr(v, useDiag, up) ==
  /\ Can("Sqr") /\ A.lay = "c"
  /\ LET dg == IF useDiag THEN Take(DG, NR) ELSE Ones(NR)
         S  == DSqr(D, dg, NR, NC)
     IN Query("sqr", [variant |-> v, diag |-> IF useDiag THEN dg ELSE << >>, upper |-> IF up THEN 1 ELSE 0], InA,
              [dense |-> IF up THEN S ELSE DLower(S, NC)], S = DTrans(S, NC, NC))
DoSqr == \E v \in Variants : Sqr(v, FALSE, FALSE) \/ Sqr(v, TRUE, TRUE) \/ (su.full /\ Sqr(v, TRUE, FALSE))

\* ---- two matrices -----------------------------------------------------------------------------------------------------------
\* the two operands have the same shape (a transposition changes the shape of A only)
Same == B.nr = A.nr /\ B.nc = A.nc
\* mju_addToMatSparse: A += B (A needs room: uncompressed layout)
AddTo == /\ Can("AddTo") /\ Same /\ A.lay = "u"
         /\ LET S == SComb(A, B, 1, 1) IN
            Update("addto", << >>, InAB, S, DComb(D, DB, 1, 1, NR, NC), [dense |-> DComb(D, DB, 1, 1, NR, NC), nnz |-> Nnz(S)])
\* mju_combineSparse row by row: A := a A + b B
Combine(a, b) == /\ Can("Combine") /\ Same /\ A.lay = "u"
                 /\ LET S == SComb(A, B, a, b) IN
                    Update("combine", [a |-> a, b |-> b], InAB, S, DComb(D, DB, a, b, NR, NC),
                           [dense |-> DComb(D, DB, a, b, NR, NC), nnz |-> Nnz(S)])
\* mju_combineSparseInc / mju_addToSclSparseInc row by row: only where A has entries
OnPattern(Z) == [r \in 1..NR |-> [c \in 1..NC |-> IF (c - 1) \in ColSet(A.rows[r]) THEN Z[r][c] ELSE 0]]
CombineInc(a, b) == /\ Can("CombineInc") /\ Same
                    /\ LET S == SCombInc(A, B, a, b) IN
                       Update("combineinc", [a |-> a, b |-> b], InAB, S, OnPattern(DComb(D, DB, a, b, NR, NC)),
                              [dense |-> OnPattern(DComb(D, DB, a, b, NR, NC)), nnz |-> Nnz(S)])
AddSclInc(s) == /\ Can("AddSclInc") /\ Same
                /\ LET S == SCombInc(A, B, 1, s) IN
                   Update("addsclinc", [s |-> s], InAB, S, OnPattern(DComb(D, DB, 1, s, NR, NC)),
                          [dense |-> OnPattern(DComb(D, DB, 1, s, NR, NC)), nnz |-> Nnz(S)])
\* mju_dotSparse2 row by row
Dot2 == Can("Dot2") /\ Same /\ Query("dot2", << >>, InAB,
                             [vec |-> [r \in 1..NR |-> Sum([c \in 1..NC |-> D[r][c] * DB[r][c]], NC)]],
                             \A r \in 1..NR : RowDot(A.rows[r], B.rows[r]) = Sum([c \in 1..NC |-> D[r][c] * DB[r][c]], NC))
\* mju_combineSparseCount, mju_addChains, mj_mergeSorted row by row: the union of the two patterns
Merge == Can("Merge") /\ Same /\ Query("merge", << >>, InAB,
                               [rows |-> [r \in 1..NR |-> SortedSeq(ColSet(A.rows[r]) \cup ColSet(B.rows[r]), NC)]], TRUE)

\* ---- symmetric matrices stored as their lower triangle (family "lower") ---------------------------------------------------------------
IsLower == su.fam = "lower"
Sym2Dense == Can("Sym2Dense") /\ IsLower /\ Query("sym2dense", << >>, InA, [dense |-> DSym(D, NR)], TRUE)
MulSymVec == Can("MulSymVec") /\ IsLower /\ Query("mulsymvec", [x |-> Xv], InA, [vec |-> DMulVec(DSym(D, NR), NR, NR, Xv)], TRUE)
\* mju_addToSymSparse onto a matrix of ones
AddToSym(up) == Can("AddToSym") /\ IsLower /\
                Query("addtosym", [upper |-> IF up THEN 1 ELSE 0], InA,
                      [dense |-> DComb([r \in 1..NR |-> Ones(NR)], IF up THEN DSym(D, NR) ELSE D, 1, 1, NR, NR)], TRUE)

\* ---- factorizations: D is an integer lower-triangular factor L with positive diagonal ---------------------------------------------------
LLt == DMul(D, DTrans(D, NR, NR), NR, NR, NR)                  \* L L'
LtL == DMul(DTrans(D, NR, NR), D, NR, NR, NR)                  \* L' L
\* mju_cholFactor / mju_cholSolve on L L': the factor is L, the rank is n, the solve gives back x
CholDense == Can("CholDense") /\ IsLower /\
             Query("choldense", [mat |-> LLt, rhs |-> DMulVec(LLt, NR, NR, Xv)], InA, [factor |-> D, rank |-> NR, x |-> Xv],
                   DMulVec(D, NR, NR, DTMulVec(D, NR, NR, Xv)) = DMulVec(LLt, NR, NR, Xv))
\* mju_cholUpdate: rank-one update of the factor of L L' gives a factor of L L' + x x'; the downdate of the factor of
\* L L' + x x' gives back a factor of L L'
CholUpdate(plus) == Can("CholUpdate") /\ IsLower /\
                    Query("cholupdate", [mat |-> LLt, x |-> Xv, plus |-> IF plus THEN 1 ELSE 0], InA,
                          [prod |-> IF plus THEN DComb(LLt, DOuter(Xv, NR), 1, 1, NR, NR) ELSE LLt, rank |-> NR], TRUE)
\* mju_cholFactorSparse / mju_cholSolveSparse ("direct") and mju_cholFactorSymbolic + mju_cholFactorNumeric ("symbolic") on the
\* lower triangle of L' L (reverse-order factorization: the factor is L)
CholSparse(v) == Can("CholSparse") /\ IsLower /\
                 Query("cholsparse", [variant |-> v, rhs |-> DMulVec(LtL, NR, NR, Xv)], [A |-> FromLower(LtL, NR)],
                       [factor |-> D, rank |-> NR, x |-> Xv], DSym(DenseOf(FromLower(LtL, NR)), NR) = LtL)
\* band-dense storage: the first nt - nd rows keep nb entries up to the diagonal, the last nd rows are dense.
\* The factor is L cut to that shape; mju_dense2Band / mju_band2Dense round-trip, mju_cholFactorBand returns the smallest
\* squared diagonal and the factor, mju_cholSolveBand solves, mju_bandMulMatVec multiplies (lower part or symmetric)
InBand(i, j, nb, nd) == j <= i /\ (i > NR - nd \/ i - j <= nb - 1)
Band(nb, nd) ==
  /\ Can("Band") /\ IsLower
  /\ LET Lb == [i \in 1..NR |-> [j \in 1..NR |-> IF InBand(i, j, nb, nd) THEN D[i][j] ELSE 0]]
         M  == DMul(Lb, DTrans(Lb, NR, NR), NR, NR, NR)
         md == CHOOSE m \in {Lb[i][i] * Lb[i][i] : i \in 1..NR} : \A i \in 1..NR : m <= Lb[i][i] * Lb[i][i]
     IN Query("band", [nb |-> nb, nd |-> nd, mat |-> M, x |-> Xv], InA,
              [factor |-> Lb, mindiag |-> md, x |-> Xv, mulsym |-> DMulVec(M, NR, NR, Xv),
               mullow |-> DMulVec(DLower(M, NR), NR, NR, Xv)],
              \A i \in 1..NR : \A j \in 1..i : InBand(i, j, nb, nd) \/ M[i][j] = 0)
DoBand == \E nb \in 1..NR, nd \in 0..NR : Band(nb, nd)
\* mju_factorLU / mju_solveLU on a non-singular integer matrix (family "all", square)
LU == /\ Can("LU") /\ NR = NC /\ Det(D, NR) # 0
      /\ Query("lu", [mat |-> D, rhs |-> DMulVec(D, NR, NR, Xv)], InA, [x |-> Xv, code |-> 1], TRUE)

Next == \/ S2D \/ DoD2S \/ MulVec(0) \/ MulVec(1) \/ MulTVec \/ Transpose \/ Gather \/ Scatter \/ DoSqr
        \/ \E mv \in {-1, 0, 1} : Compress(mv)
        \/ AddTo \/ Dot2 \/ Merge
        \/ \E ab \in {<<1, 1>>, <<2, -1>>, <<0, 3>>, <<-1, 0>>} : Combine(ab[1], ab[2]) \/ CombineInc(ab[1], ab[2])
        \/ \E s \in {2, -1} : AddSclInc(s)
        \/ Sym2Dense \/ MulSymVec \/ AddToSym(TRUE) \/ AddToSym(FALSE)
        \/ CholDense \/ CholUpdate(TRUE) \/ CholUpdate(FALSE) \/ CholSparse("direct") \/ CholSparse("symbolic") \/ DoBand
        \/ LU
Spec == Init /\ [][Next]_vars

\* ---- properties ---------------------------------------------------------------------------------------------------------------------------
\* the CSR representation denotes the dense matrix, whatever calls produced it
Denotes      == DenseOf(A) = D /\ DenseOf(B) = DB
Structure    == WellFormed(A) /\ WellFormed(B)
\* entry-level and dense formulas of the returned vectors / side conditions agree
SparseIsDense == chk
\* round trips: dense -> sparse -> dense and transposing twice are identities
RoundTrip    == nops = 0 => DenseOf(FromDense(D, NR, NC, "c")) = D /\ DTrans(DTrans(D, NR, NC), NC, NR) = D
TransposeTwice == (nops = 0 /\ A.lay = "c") => (STrans(STrans(A)).rows = A.rows)
\* compression never changes what is denoted unless asked to drop small entries
CompressKeeps == nops = 0 => DenseOf(SCompress(A, -1)) = D /\ DenseOf(SCompress(A, 0)) = D
\* the square M' M is symmetric and its lower triangle determines it
SqrSymmetric == nops = 0 => LET S == DSqr(D, Ones(NR), NR, NC) IN DSym(DLower(S, NC), NC) = S
\* factor-solve pairs solve their systems (on the integer problems)
FactorSolves == IsLower => /\ \A i \in 1..NR : D[i][i] > 0 /\ \A j \in i + 1..NR : D[i][j] = 0
                           /\ DMulVec(D, NR, NR, DTMulVec(D, NR, NR, Xv)) = DMulVec(LLt, NR, NR, Xv)

\* ---- constants for the configurations ---------------------------------------------------------------------------------------------------------
QuickSuites    == {"one33", "s44q", "pairq", "wideq", "repq", "lower"}
ThoroughSuites == {"one33f", "one34", "cheap44", "s44", "pairq", "pairt", "wide", "rep", "lower"}
ChainSuites    == {"chain"}
NegSuites      == {"neg"}
=============================================================================
