SPECIFICATION Spec
CONSTANTS
  MaxGrow = 2
  SeedIds <- GrowSeeds
  GrowT <- FewT
  GrowNames <- NamesAP
  DeclNames <- DNamesQ
  Mutate = FALSE
  MutFrom = 0
  Focused = FALSE
  PumpSizes <- NoPump
  NoisePos <- NoPos
INVARIANT TypeOK
INVARIANT GrowValid
INVARIANT AcceptedSound
PROPERTY GrowMonotone
CHECK_DEADLOCK FALSE
