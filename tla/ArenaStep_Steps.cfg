SPECIFICATION FairSpec
CONSTANTS
  CapMax = 24
  Profiles <- ProfSmall
  MaxSteps = 3
  PairChecked = TRUE
  IslandClears = TRUE
  DualChecked = TRUE
INVARIANT TypeOK
INVARIANT Apart
INVARIANT NoDerefNull
INVARIANT Consistent
INVARIANT WarnIffTruncated
INVARIANT Balanced
INVARIANT Enough
PROPERTY Returns
CHECK_DEADLOCK FALSE
