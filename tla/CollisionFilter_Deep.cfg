SPECIFICATION Spec
CONSTANTS
  MaxBodies = 3
  MaxGeoms = 3
  PerBody = 1
  MaxPairs = 0
  MaxExcl = 1
  MaxOps = 1
  BodyKinds <- Deep_Kinds
  Radii <- Deep_Radii
  Xs <- Deep_Xs
  Zs <- Deep_Zs
  Masks <- Deep_Masks
  Margins <- Deep_Margins
  PairMargins <- Deep_PairMargins
  Moves <- Deep_Moves
  Toggles <- Deep_Toggles
INVARIANT TypeOK
INVARIANT ContactsAreExpected
INVARIANT BroadComplete
INVARIANT CandidatesNear
INVARIANT NoContactWhenDisabled
INVARIANT NoSelfContact
CHECK_DEADLOCK FALSE
