SPECIFICATION Spec
CONSTANTS
  MaxOps = 3
  MaxObjs = 3
  MaxSeries = 2
  InPlaceDelay = FALSE
  Biases <- MC_Biases
  Gains <- MC_Gains
  Delays <- MC_Delays
  Windows <- MC_Windows
  DWindows <- MC_DWindows
  RsdCfgs <- MC_RsdCfgs
  NearCfgs <- MC_NearCfgs
  GridIds <- MC_GridIds
  Methods <- MC_Methods
  QueryTimes <- MC_Query
  Cuts <- MC_Cuts
INVARIANT TypeOK
INVARIANT Exact
INVARIANT PowerOfTwoSteps
PROPERTY NoWriteToExisting
PROPERTY Purity
PROPERTY ReturnsNew
PROPERTY OnlyNamedColumns
PROPERTY ZeroDelayIsIdentity
PROPERTY ResampleSameTimesIsIdentity
PROPERTY InterpolationBounded
PROPERTY GroupedIsColumnwise
PROPERTY NearDelaysStayApart
PROPERTY WindowExact
PROPERTY WindowErrorIffEmpty
CHECK_DEADLOCK FALSE
