----------------------------- MODULE Rotations -----------------------------
\* Group part of MuJoCo's rotation and pose utilities (src/engine/engine_util_spatial.c).
\*
\* The state is an orientation kept TWICE, in two independent algebras:
\*   q : an exact unit quaternion of the binary octahedral group (the 48 quaternions that denote the 24
\*       proper rotations of the cube); its components are numbers (a + b*sqrt2)/2 written <<a, b>>,
\*       so 1 = <<2,0>>, 1/2 = <<1,0>>, sqrt(1/2) = <<0,1>>.  q evolves by QUATERNION algebra only
\*       (Hamilton product, conjugate, half-angle axis-angle formula), in the conventions of the header.
\*   R : a 3x3 integer matrix (row-major 9-tuple), evolving by MATRIX algebra only (matrix product,
\*       transpose, Rodrigues' formula with integer sine/cosine of quarter turns).
\* and a position t (integer 3-vector).  TLC decides that the two algebras agree (Homomorphism:
\* MatOf(q) = R in every reachable state, whatever sequence of operations led there), closure, the
\* two-to-one cover (conversions round-trip up to the sign of the quaternion), inverse laws for
\* quaternions and poses, norm preservation, and the intrinsic/extrinsic duality of Euler sequences.
\*
\* Every action is one API call; ev' names the call, its arguments, the state it was applied to (ev.in)
\* and, for calls that return a vector, the vector (ev.ret).  The state after the action (q, R, t) is what
\* the implementation must hold after the call: the quaternion up to sign, the matrix and the position.
\* Angles are counted in quarter turns (k means k*pi/2).
EXTENDS Integers, Sequences, FiniteSets, TLC
CONSTANTS Ops,        \* names of the enabled actions
          InitMode,   \* "id": start at the identity pose;  "all": start anywhere in the group x TInit
          TInit,      \* initial positions for InitMode = "all"
          MaxOps,     \* number of operations per behaviour
          MaxT,       \* |t_i| <= MaxT (guards the pose operations)
          QArgs,      \* quaternion operands of MulQuat / PreMulQuat / MulPose
          KArgs,      \* turn counts of MulAxis / SetAxis
          IArgs,      \* <<turns, quaternion scale, time step>> triples of Integrate
          ETurns,     \* turn counts of the Euler angles
          CheckGroup, \* TRUE: TLC also checks the constant-level theorems about the group (ASSUME) at start-up
          Bug         \* "none"; "order": the ghost matrix of MulQuat multiplies on the wrong side (negative control)

\* ---- numbers (a + b*sqrt2)/2 ------------------------------------------------------------------------
NZ  == <<0, 0>>
N1  == <<2, 0>>
NH  == <<1, 0>>
NS  == <<0, 1>>
NNeg(x)    == <<-x[1], -x[2]>>
NAdd(x, y) == <<x[1] + y[1], x[2] + y[2]>>
NSub(x, y) == <<x[1] - y[1], x[2] - y[2]>>
NScl(s, x) == <<s * x[1], s * x[2]>>
\* the product of two numbers, in QUARTER units: x*y = <<a, b>>/4
NMul4(x, y) == <<x[1] * y[1] + 2 * x[2] * y[2], x[1] * y[2] + x[2] * y[1]>>
Even(p)  == p[1] % 2 = 0 /\ p[2] % 2 = 0
Halve(p) == <<p[1] \div 2, p[2] \div 2>>

\* ---- quaternions ------------------------------------------------------------------------------------
QId == <<N1, NZ, NZ, NZ>>
QNegAll(p) == <<NNeg(p[1]), NNeg(p[2]), NNeg(p[3]), NNeg(p[4])>>        \* the other quaternion of the same rotation
QConj(p)   == <<p[1], NNeg(p[2]), NNeg(p[3]), NNeg(p[4])>>              \* mju_negQuat
\* Hamilton product in quarter units (the formula of mju_mulQuat)
QMul4(p, r) ==
  LET M(i, j) == NMul4(p[i], r[j]) IN
  << NSub(NSub(NSub(M(1,1), M(2,2)), M(3,3)), M(4,4)),
     NSub(NAdd(NAdd(M(1,2), M(2,1)), M(3,4)), M(4,3)),
     NAdd(NAdd(NSub(M(1,3), M(2,4)), M(3,1)), M(4,2)),
     NAdd(NSub(NAdd(M(1,4), M(2,3)), M(3,2)), M(4,1)) >>
QMulRaw(p, r) == LET x == QMul4(p, r) IN <<Halve(x[1]), Halve(x[2]), Halve(x[3]), Halve(x[4])>>
QMulExact(p, r) == LET x == QMul4(p, r) IN \A i \in 1..4 : Even(x[i])
\* squared norm in quarter units: must be <<4, 0>>
QNorm4(p) == NAdd(NAdd(NMul4(p[1], p[1]), NMul4(p[2], p[2])), NAdd(NMul4(p[3], p[3]), NMul4(p[4], p[4])))

\* the binary octahedral group, written out
Pos4 == 1..4
UnitQ  == {[i \in Pos4 |-> IF i = k THEN NScl(s, N1) ELSE NZ] : k \in Pos4, s \in {-1, 1}}
HalfQ  == {[i \in Pos4 |-> NScl(s[i], NH)] : s \in [Pos4 -> {-1, 1}]}
SqrtQ  == {[i \in Pos4 |-> IF i = k THEN NScl(a, NS) ELSE IF i = l THEN NScl(b, NS) ELSE NZ] :
              k \in Pos4, l \in Pos4, a \in {-1, 1}, b \in {-1, 1}} \ {[i \in Pos4 |-> NZ]}
O48raw == UnitQ \cup HalfQ \cup {p \in SqrtQ : QNorm4(p) = <<4, 0>>}
O48    == O48raw
\* multiplication table of the group (a constant: TLC evaluates it once); products of group elements are looked up
QMul4Tab == [p \in O48 |-> [r \in O48 |-> QMul4(p, r)]]
QMulTab == [p \in O48 |-> [r \in O48 |-> LET x == QMul4Tab[p][r] IN <<Halve(x[1]), Halve(x[2]), Halve(x[3]), Halve(x[4])>>]]
QMul(p, r) == QMulTab[p][r]

\* ---- integer matrices and vectors ---------------------------------------------------------------------
I3 == <<1, 0, 0, 0, 1, 0, 0, 0, 1>>
E(M, i, j) == M[3 * (i - 1) + j]
MMulRaw(A, B) == [x \in 1..9 |-> LET i == (x - 1) \div 3 + 1  j == ((x - 1) % 3) + 1 IN
                 E(A, i, 1) * E(B, 1, j) + E(A, i, 2) * E(B, 2, j) + E(A, i, 3) * E(B, 3, j)]
MT(A)      == [x \in 1..9 |-> LET i == (x - 1) \div 3 + 1  j == ((x - 1) % 3) + 1 IN E(A, j, i)]
MV(A, v)   == [i \in 1..3 |-> E(A, i, 1) * v[1] + E(A, i, 2) * v[2] + E(A, i, 3) * v[3]]
VAdd(u, v) == [i \in 1..3 |-> u[i] + v[i]]
VNeg(u)    == [i \in 1..3 |-> -u[i]]
VDot(u, v) == u[1] * v[1] + u[2] * v[2] + u[3] * v[3]
Det(A) == E(A,1,1) * (E(A,2,2) * E(A,3,3) - E(A,2,3) * E(A,3,2))
        - E(A,1,2) * (E(A,2,1) * E(A,3,3) - E(A,2,3) * E(A,3,1))
        + E(A,1,3) * (E(A,2,1) * E(A,3,2) - E(A,2,2) * E(A,3,1))
\* the 24 proper rotations of the cube, defined without quaternions: signed permutation matrices, det +1
Perm3 == {p \in [1..3 -> 1..3] : p[1] # p[2] /\ p[1] # p[3] /\ p[2] # p[3]}
SPM(p, s) == [x \in 1..9 |-> LET i == (x - 1) \div 3 + 1  j == ((x - 1) % 3) + 1 IN IF p[i] = j THEN s[i] ELSE 0]
Rot24 == {m \in {SPM(p, s) : p \in Perm3, s \in [1..3 -> {-1, 1}]} : Det(m) = 1}
MMulTab == [A \in Rot24 |-> [B \in Rot24 |-> MMulRaw(A, B)]]
MMul(A, B) == MMulTab[A][B]

\* rotation matrix denoted by a quaternion: the formula of mju_quat2Mat, in quarter units
MatOf4(p) ==
  LET P(i, j) == NMul4(p[i + 1], p[j + 1]) IN
  << NSub(NSub(NAdd(P(0,0), P(1,1)), P(2,2)), P(3,3)),  NScl(2, NSub(P(1,2), P(0,3))),  NScl(2, NAdd(P(1,3), P(0,2))),
     NScl(2, NAdd(P(1,2), P(0,3))),  NSub(NAdd(NSub(P(0,0), P(1,1)), P(2,2)), P(3,3)),  NScl(2, NSub(P(2,3), P(0,1))),
     NScl(2, NSub(P(1,3), P(0,2))),  NScl(2, NAdd(P(2,3), P(0,1))),  NAdd(NSub(NSub(P(0,0), P(1,1)), P(2,2)), P(3,3)) >>
MatIntegral(p) == LET m == MatOf4(p) IN \A x \in 1..9 : m[x][2] = 0 /\ m[x][1] % 4 = 0
MatOfRaw(p) == LET m == MatOf4(p) IN [x \in 1..9 |-> m[x][1] \div 4]
\* table over the group (a constant: TLC evaluates it once)
MatTab == [p \in O48 |-> MatOfRaw(p)]
MatOf(p) == MatTab[p]

\* ---- elementary rotations: axis = <<index, sign>>, k quarter turns ----------------------------------------
Axes == {<<i, s>> : i \in 1..3, s \in {-1, 1}}
AxVec(ax) == [i \in 1..3 |-> IF i = ax[1] THEN ax[2] ELSE 0]
Cos4(k) == CASE k % 4 = 0 -> 1 [] k % 4 = 1 -> 0 [] k % 4 = 2 -> -1 [] OTHER -> 0
Sin4(k) == CASE k % 4 = 0 -> 0 [] k % 4 = 1 -> 1 [] k % 4 = 2 -> 0 [] OTHER -> -1
Skew(a) == <<0, -a[3], a[2],  a[3], 0, -a[1],  -a[2], a[1], 0>>
\* Rodrigues: R = c I + s [a]x + (1 - c) a a^T
AxisRot(ax, k) == LET a == AxVec(ax) c == Cos4(k) s == Sin4(k) IN
  [x \in 1..9 |-> LET i == (x - 1) \div 3 + 1  j == ((x - 1) % 3) + 1 IN
      c * I3[x] + s * Skew(a)[x] + (1 - c) * a[i] * a[j]]
\* half-angle formula of mju_axisAngle2Quat: (cos(k pi/4), axis sin(k pi/4)), k in -4..4
CosH(k) == CASE k = 0 -> N1 [] k \in {1, -1} -> NS [] k \in {2, -2} -> NZ [] k \in {3, -3} -> NNeg(NS) [] OTHER -> NNeg(N1)
SinH(k) == CASE k = 0 -> NZ [] k = 1 -> NS [] k = 2 -> N1 [] k = 3 -> NS [] k = -1 -> NNeg(NS) [] k = -2 -> NNeg(N1)
             [] k = -3 -> NNeg(NS) [] OTHER -> NZ
AxisQuat(ax, k) == LET a == AxVec(ax) IN <<CosH(k), NScl(a[1], SinH(k)), NScl(a[2], SinH(k)), NScl(a[3], SinH(k))>>
Turns == -3..4

\* ---- Euler sequences: letters over xyzXYZ, lower case intrinsic (post-multiply), upper case extrinsic ---
Letters == {"x", "y", "z", "X", "Y", "Z"}
LetterAxis(l) == CASE l \in {"x", "X"} -> <<1, 1>> [] l \in {"y", "Y"} -> <<2, 1>> [] OTHER -> <<3, 1>>
Intrinsic(l) == l \in {"x", "y", "z"}
EulerStepQ(acc, l, k) == IF Intrinsic(l) THEN QMul(acc, AxisQuat(LetterAxis(l), k)) ELSE QMul(AxisQuat(LetterAxis(l), k), acc)
EulerStepM(acc, l, k) == IF Intrinsic(l) THEN MMul(acc, AxisRot(LetterAxis(l), k)) ELSE MMul(AxisRot(LetterAxis(l), k), acc)
EulerQuat(sq, ks) == EulerStepQ(EulerStepQ(EulerStepQ(QId, sq[1], ks[1]), sq[2], ks[2]), sq[3], ks[3])
EulerMat(sq, ks)  == EulerStepM(EulerStepM(EulerStepM(I3, sq[1], ks[1]), sq[2], ks[2]), sq[3], ks[3])
Swapcase(l) == CASE l = "x" -> "X" [] l = "y" -> "Y" [] l = "z" -> "Z" [] l = "X" -> "x" [] l = "Y" -> "y" [] OTHER -> "z"
EulerTurns == -1..2

\* ---- poses ---------------------------------------------------------------------------------------------
\* (q1, t1) * (q2, t2) = (q1 q2, R1 t2 + t1);  neg(q, t) = (conj q, -R^T t)
InBox(v) == \A i \in 1..3 : v[i] <= MaxT /\ -v[i] <= MaxT
Vecs  == {<<1, 2, 3>>, <<0, 0, 0>>, <<-2, 0, 1>>, <<0, 3, 0>>}
TVecs == {<<0, 0, 0>>, <<1, 0, 0>>, <<0, -1, 2>>}
ZVecs == {<<2, 0, 0>>, <<-2, 0, 0>>, <<0, 3, 0>>, <<0, -3, 0>>, <<0, 0, 1>>, <<0, 0, -1>>}

VARIABLES q, R, t, ev, nops
vars == <<q, R, t, ev, nops>>

In == [q |-> q, t |-> t]
Step(name) == name \in Ops /\ nops < MaxOps /\ nops' = nops + 1

Init == /\ IF InitMode = "all" THEN q \in O48 /\ t \in TInit ELSE q = QId /\ t = <<0, 0, 0>>
        /\ R = MatOf(q)
        /\ ev = [op |-> "init", in |-> [q |-> q, t |-> t], ret |-> <<>>]
        /\ nops = 0

\* q := q * p   (mju_mulQuat(q, q, p))
MulQuat(p) == /\ Step("MulQuat")
              /\ q' = QMul(q, p) /\ R' = (IF Bug = "order" THEN MMul(MatOf(p), R) ELSE MMul(R, MatOf(p))) /\ UNCHANGED t
              /\ ev' = [op |-> "mulquat", p |-> p, in |-> In, ret |-> <<>>]
\* q := p * q
PreMulQuat(p) == /\ Step("PreMulQuat")
                 /\ q' = QMul(p, q) /\ R' = MMul(MatOf(p), R) /\ UNCHANGED t
                 /\ ev' = [op |-> "premulquat", p |-> p, in |-> In, ret |-> <<>>]
\* q := q * axisAngle2Quat(axis, k pi/2): the ghost matrix uses Rodrigues' formula, not the quaternion
MulAxis(ax, k) == /\ Step("MulAxis")
                  /\ q' = QMul(q, AxisQuat(ax, k)) /\ R' = MMul(R, AxisRot(ax, k)) /\ UNCHANGED t
                  /\ ev' = [op |-> "mulaxis", ax |-> AxVec(ax), k |-> k, in |-> In, ret |-> <<>>]
\* q := axisAngle2Quat(axis, k pi/2)
SetAxis(ax, k) == /\ Step("SetAxis")
                  /\ q' = AxisQuat(ax, k) /\ R' = AxisRot(ax, k) /\ UNCHANGED t
                  /\ ev' = [op |-> "setaxis", ax |-> AxVec(ax), k |-> k, in |-> In, ret |-> <<>>]
\* q := mju_negQuat(q)
Neg == /\ Step("Neg")
       /\ q' = QConj(q) /\ R' = MT(R) /\ UNCHANGED t
       /\ ev' = [op |-> "neg", in |-> In, ret |-> <<>>]
\* q := mju_mat2Quat(mju_quat2Mat(q)): the same rotation, either sign
RoundTrip == /\ Step("RoundTrip")
             /\ UNCHANGED <<q, R, t>>
             /\ ev' = [op |-> "roundtrip", in |-> In, ret |-> <<>>]
\* mju_rotVecQuat(v, q) = R v
RotVec(v) == /\ Step("RotVec")
             /\ UNCHANGED <<q, R, t>>
             /\ ev' = [op |-> "rotvec", v |-> v, in |-> In, ret |-> MV(R, v)]
\* mju_quatIntegrate(q * qs, ax * k pi/2 / h, h): the quaternion is normalised first, then turned by k quarter turns
\* about ax in its own frame; mju_subQuat(new, old) must give back the rotation vector of the SHORTER way round:
\* ax * k for |k| <= 1, ax * (k - 4) for k = 3, ax * (k + 4) for k = -3 (in quarter turns; half turns are left open)
SubTurns(k) == CASE k \in {-1, 0, 1} -> k [] k = 3 -> -1 [] k = -3 -> 1 [] OTHER -> 9
Integrate(ax, k, qs, h) ==
  /\ Step("Integrate")
  /\ q' = QMul(q, AxisQuat(ax, k)) /\ R' = MMul(R, AxisRot(ax, k)) /\ UNCHANGED t
  /\ ev' = [op |-> "integrate", ax |-> AxVec(ax), k |-> k, qs |-> qs, h |-> h, in |-> In,
            ret |-> IF SubTurns(k) # 9 THEN [i \in 1..3 |-> SubTurns(k) * AxVec(ax)[i]] ELSE <<>>]
\* ---- derivative routines and degenerate argument pairs (identical, negated, scaled arguments) -------------------------
\* mjd_subQuat(qa, qb) with qa = sa * (q * turn(ax, k)), qb = sb * q, k in {-1, 0, 1}: the relative rotation is k quarter
\* turns about ax, mju_subQuat gives k * ax, and with K = Skew(k * ax) the Jacobians are
\*     Da = I + (pi/4) K + (1 - pi/4) K K,   Db = -Da'      (inverse right Jacobian of SO(3) at half angle pi/4)
\* which at zero relative rotation (k = 0: qa = qb, qa = -qb, scalar multiples) are EXACTLY I and -I
NegI3 == [x \in 1..9 |-> -I3[x]]
DSub(ax, k, sa, sb) ==
  /\ Step("DSub") /\ UNCHANGED <<q, R, t>>
  /\ LET K == Skew([i \in 1..3 |-> k * AxVec(ax)[i]]) IN
     ev' = [op |-> "dsub", ax |-> AxVec(ax), k |-> k, sa |-> sa, sb |-> sb, in |-> In,
            ret |-> [sub |-> [i \in 1..3 |-> k * AxVec(ax)[i]], K |-> K, KK |-> MMulRaw(K, K),
                     exact |-> IF k = 0 THEN [da |-> I3, db |-> NegI3] ELSE << >>]]
\* mjd_quatIntegrate(vel, scale) where the scaled velocity vanishes (zero velocity or zero step): Dquat = I, Dvel = I,
\* Dscale = Dvel vel = vel
DInt(v, sc) == /\ Step("DInt") /\ (v = <<0, 0, 0>> \/ sc = 0) /\ UNCHANGED <<q, R, t>>
               /\ ev' = [op |-> "dint", v |-> v, sc |-> sc, in |-> In, ret |-> [dquat |-> I3, dvel |-> I3, dscale |-> v]]
\* q := q * negQuat(q): the identity
MulInverse == /\ Step("MulInverse") /\ q' = QMul(q, QConj(q)) /\ R' = MMul(R, MT(R)) /\ UNCHANGED t
              /\ ev' = [op |-> "mulinv", in |-> In, ret |-> <<>>]
\* mju_quatIntegrate(qs * q, v, 0): a zero step leaves the (normalised) orientation alone
IntZero(v, qs) == /\ Step("IntZero") /\ UNCHANGED <<q, R, t>>
                  /\ ev' = [op |-> "intzero", v |-> v, qs |-> qs, in |-> In, ret |-> <<>>]
\* q := mju_euler2Quat(k pi/2, seq)
Euler(sq, ks) == /\ Step("Euler")
                 /\ q' = EulerQuat(sq, ks) /\ R' = EulerMat(sq, ks) /\ UNCHANGED t
                 /\ ev' = [op |-> "euler", sq |-> sq, ks |-> ks, in |-> In, ret |-> <<>>]
\* malformed sequence strings end in mju_error and leave the state alone
BadSeqs == {<<"x", "y">>, <<"x", "y", "z", "x">>, <<"x", "q", "z">>, <<>>}
EulerBad(sq) == /\ Step("EulerBad")
                /\ UNCHANGED <<q, R, t>>
                /\ ev' = [op |-> "eulerbad", sq |-> sq, in |-> In, ret |-> <<>>]
\* q := mju_quatZ2Vec(v): the minimal rotation taking the z axis to v/|v| (half turn about x for -z)
Z2VecAxis(v) == <<-v[2], v[1], 0>>                                \* cross(z, v)
Z2Vec(v) ==
  /\ Step("Z2Vec")
  /\ LET c == Z2VecAxis(v)
         ax == CHOOSE a \in Axes \cup {<<0, 0>>} :
                  IF c = <<0, 0, 0>> THEN a = <<0, 0>> ELSE \E n \in 1..3 : [i \in 1..3 |-> n * AxVec(a)[i]] = c
     IN IF ax # <<0, 0>> THEN q' = AxisQuat(ax, 1) /\ R' = AxisRot(ax, 1)
        ELSE IF v[3] > 0 THEN q' = QId /\ R' = I3
        ELSE q' = AxisQuat(<<1, 1>>, 2) /\ R' = AxisRot(<<1, 1>>, 2)
  /\ UNCHANGED t
  /\ ev' = [op |-> "z2vec", v |-> v, in |-> In, ret |-> <<>>]
\* (t, q) := mju_mulPose((t, q), (t2, p))
MulPose(p, t2) == /\ Step("MulPose")
                  /\ InBox(VAdd(MV(R, t2), t))
                  /\ q' = QMul(q, p) /\ R' = MMul(R, MatOf(p)) /\ t' = VAdd(MV(R, t2), t)
                  /\ ev' = [op |-> "mulpose", p |-> p, t2 |-> t2, in |-> In, ret |-> <<>>]
\* (t, q) := mju_negPose(t, q)
NegPose == /\ Step("NegPose")
           /\ q' = QConj(q) /\ R' = MT(R) /\ t' = VNeg(MV(MT(R), t))
           /\ ev' = [op |-> "negpose", in |-> In, ret |-> <<>>]
\* mju_trnVecPose(t, q, v) = R v + t
TrnVec(v) == /\ Step("TrnVec")
             /\ UNCHANGED <<q, R, t>>
             /\ ev' = [op |-> "trnvec", v |-> v, in |-> In, ret |-> VAdd(MV(R, v), t)]

On(name) == name \in Ops /\ nops < MaxOps
\* the API calls with their argument spaces (named so that TLC's coverage reports them)
DoMulQuat    == On("MulQuat") /\ \E p \in QArgs : MulQuat(p)
DoPreMulQuat == On("PreMulQuat") /\ \E p \in QArgs : PreMulQuat(p)
DoMulAxis    == On("MulAxis") /\ \E ax \in Axes, k \in KArgs : MulAxis(ax, k)
DoSetAxis    == On("SetAxis") /\ \E ax \in Axes, k \in KArgs : SetAxis(ax, k)
DoRotVec     == On("RotVec") /\ \E v \in Vecs : RotVec(v)
DoTrnVec     == On("TrnVec") /\ \E v \in Vecs : TrnVec(v)
DoIntegrate  == On("Integrate") /\ \E ax \in Axes, a \in IArgs : Integrate(ax, a[1], a[2], a[3])
DoEuler      == On("Euler") /\ \E sq \in [1..3 -> Letters], ks \in [1..3 -> ETurns] : Euler(sq, ks)
DoEulerBad   == On("EulerBad") /\ \E sq \in BadSeqs : EulerBad(sq)
DoZ2Vec      == On("Z2Vec") /\ \E v \in ZVecs : Z2Vec(v)
DoDSub       == On("DSub") /\ \E ax \in Axes, k \in {-1, 0, 1}, ss \in {<<1, 1>>, <<1, -1>>, <<3, 1>>, <<-2, 3>>} : DSub(ax, k, ss[1], ss[2])
DoDInt       == On("DInt") /\ \E v \in {<<0, 0, 0>>, <<1, 2, 3>>}, sc \in {0, 2} : DInt(v, sc)
DoIntZero    == On("IntZero") /\ \E v \in {<<1, 2, 3>>, <<0, 0, 0>>}, qs \in {1, 3} : IntZero(v, qs)
DoMulPose    == On("MulPose") /\ \E p \in QArgs, t2 \in TVecs : MulPose(p, t2)
Next == \/ DoMulQuat \/ DoPreMulQuat \/ DoMulAxis \/ DoSetAxis \/ Neg \/ RoundTrip \/ NegPose
        \/ DoDSub \/ DoDInt \/ DoIntZero \/ MulInverse
        \/ DoRotVec \/ DoTrnVec \/ DoIntegrate \/ DoEuler \/ DoEulerBad \/ DoZ2Vec \/ DoMulPose
Spec == Init /\ [][Next]_vars

\* ---- properties -----------------------------------------------------------------------------------------
ASSUME Cardinality(O48) = 48 /\ Cardinality(Rot24) = 24
ASSUME CheckGroup => \A p \in O48 : QNorm4(p) = <<4, 0>> /\ MatIntegral(p)
\* the group is closed and every product of two of its elements is exact in the number system
ASSUME CheckGroup => \A p \in O48 : \A r \in O48 : (\A i \in 1..4 : Even(QMul4Tab[p][r][i])) /\ QMulTab[p][r] \in O48
ASSUME CheckGroup => \A A \in Rot24 : \A B \in Rot24 : MMulTab[A][B] \in Rot24
\* Rodrigues' matrices and the half-angle quaternions are group elements
ASSUME CheckGroup => \A ax \in Axes : \A k \in Turns : AxisRot(ax, k) \in Rot24 /\ AxisQuat(ax, k) \in O48
Closure      == q \in O48 /\ R \in Rot24
\* quaternion products compose rotations like matrix products; conversions agree
Homomorphism == MatOf(q) = R
\* the conversion quaternion -> matrix is exactly two-to-one: round trips are defined up to sign
DoubleCover  == {p \in O48 : MatOf(p) = R} = {q, QNegAll(q)}
Orthonormal  == MMulRaw(R, MT(R)) = I3 /\ Det(R) = 1
NormKept     == \A v \in Vecs : VDot(MV(R, v), MV(R, v)) = VDot(v, v)
QuatInverse  == QMul(q, QConj(q)) = QId /\ QMul(QConj(q), q) = QId
\* pose composition and inversion are inverses
PoseInverse  == LET nq == QConj(q)  nt == VNeg(MV(MT(R), t)) IN
                /\ QMul(q, nq) = QId /\ VAdd(MV(R, nt), t) = <<0, 0, 0>>
                /\ QMul(nq, q) = QId /\ VAdd(MV(MT(R), t), nt) = <<0, 0, 0>>
\* intrinsic abc(k1,k2,k3) is extrinsic CBA(k3,k2,k1) (sequences of one case)
PureCase(sq) == (\A i \in 1..3 : Intrinsic(sq[i])) \/ (\A i \in 1..3 : ~Intrinsic(sq[i]))
EulerDuality == (ev.op = "euler" /\ PureCase(ev.sq)) =>
                  q = EulerQuat(<<Swapcase(ev.sq[3]), Swapcase(ev.sq[2]), Swapcase(ev.sq[1])>>,
                                <<ev.ks[3], ev.ks[2], ev.ks[1]>>)
\* action properties
NegIsInverse == [][ev'.op = "neg" => QMul(q, q') = QId]_vars
IntegrateSub == [][(ev'.op = "integrate" /\ ev'.ret # <<>>) =>
                     \* the rotation vector given back by subQuat integrates the old orientation to the new one
                     \E ax \in Axes : \E k \in {-1, 0, 1} :
                        [i \in 1..3 |-> k * AxVec(ax)[i]] = ev'.ret /\ QMul(q, AxisQuat(ax, k)) \in {q', QNegAll(q')}]_vars
\* at zero relative rotation the Jacobians of subQuat are exactly I and -I, and multiplying by the inverse gives the identity
ZeroRelExact == (ev.op = "dsub" /\ ev.k = 0) => (ev.ret.exact.da = I3 /\ ev.ret.exact.db = NegI3 /\ ev.ret.sub = <<0, 0, 0>>
                                                  /\ ev.ret.K = [x \in 1..9 |-> 0])
InverseGivesId == ev.op = "mulinv" => (q = QId /\ R = I3)
PoseNegTwice == [][ev'.op = "negpose" => (QConj(q') = q /\ VNeg(MV(MT(R'), t')) = t)]_vars

\* ---- constants for the configurations --------------------------------------------------------------------
AllOps    == {"MulQuat", "PreMulQuat", "MulAxis", "SetAxis", "Neg", "RoundTrip", "RotVec", "Integrate", "Z2Vec",
              "MulPose", "NegPose", "TrnVec", "EulerBad", "DSub", "DInt", "IntZero", "MulInverse"}
GroupOps  == AllOps \cup {"Euler"}
EulerOps  == {"Euler"}
NoOps     == {}
AllQ      == O48
GenQ      == {AxisQuat(<<1, 1>>, 1), AxisQuat(<<2, -1>>, 1), AxisQuat(<<3, 1>>, 2)}
QuickQ    == GenQ \cup {QId, QNegAll(QId), <<NH, NH, NNeg(NH), NH>>, <<NZ, NS, NZ, NNeg(NS)>>, <<NNeg(NS), NZ, NZ, NS>>}
AllE      == EulerTurns
QuickE    == {-1, 1, 2}
AllK      == Turns
AllI      == (-3..3) \X {1, 3} \X {1, 2}
FewI      == {<<1, 1, 1>>, <<-1, 3, 2>>, <<2, 1, 2>>, <<0, 1, 1>>, <<3, 1, 1>>, <<-3, 3, 2>>}
FewK      == {1, -1, 2}
GenK      == {1}
ClosureOps == {"MulQuat", "PreMulQuat", "MulAxis", "Neg", "RoundTrip", "MulPose", "NegPose"}
MC_TInit  == {<<1, -2, 3>>}
ViewState == <<q, R, t>>
=============================================================================
