SPECIFICATION Spec
CONSTANTS
  B = 2
  Pre = 1
  NWr = 2
  NRd = 1
  Reqs <- MC_Reqs2
  Queries <- MC_Queries1
  Bug = "none"
INVARIANT Dense
INVARIANT OneSlotPerKey
INVARIANT BlocksCover
INVARIANT MutexExclusive
INVARIANT NoPartialSeen
INVARIANT WriterResults
INVARIANT NameSlotAgree
PROPERTY Stable
PROPERTY Terminates
