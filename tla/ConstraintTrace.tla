--------------------------- MODULE ConstraintTrace ---------------------------
\* Trace validation for C11 (code -> spec).  A trace = the events harness/constraint_drv.cc ("rows") recorded from
\* mjData after one mj_forward:  begin, one event per constraint row (efc order), one per contact, end.
\* Doubles are logged as their order-preserving 64-bit image split into three limbs (22 + 21 + 21 bits); the
\* order classes the monitor ConstraintRows.tla needs are computed HERE by lexicographic comparison of limbs:
\*     sign of efc_force;  efc_force against -frictionloss and +frictionloss;  sign of the widened cone slack
\*     f_n^2 - ||f_t / mu||^2 + 2e-10 + 1e-9 max(f_n^2, ||f_t / mu||^2)   (the one quantity the harness has to compute in
\*     floating point; 1e-10 absolute on the squares is the convergence threshold of the engine's own cone projection).
\* Each event must be explained by the monitor action of its row type; an inadmissible force, a row in the
\* wrong region, a broken contact block, a mj_contactForce that disagrees with the rows, or qfrc_constraint #
\* J' efc_force leaves the event unexplained and the trace is rejected at that event.
EXTENDS ConstraintRows, Json, IOUtils, TLCExt
Traces == JsonDeserialize(IOEnv.TRACE_FILE)
VARIABLES tid, l
tvars == <<vars, tid, l>>

\* ---- order keys
ZeroK == <<2097152, 0, 0>>                      \* image of +0.0 (the harness normalises -0.0)
KLt(a, b) == \/ a[1] < b[1]
             \/ a[1] = b[1] /\ a[2] < b[2]
             \/ a[1] = b[1] /\ a[2] = b[2] /\ a[3] < b[3]
KeyOK(k) == Len(k) = 3 /\ k[1] \in 0..4194303 /\ k[2] \in 0..2097151 /\ k[3] \in 0..2097151
SignOf(f) == IF KLt(f, ZeroK) THEN "neg" ELSE IF KLt(ZeroK, f) THEN "pos" ELSE "zero"
BoundOf(f, lo, hi) == IF KLt(f, lo) THEN "below" ELSE IF KLt(hi, f) THEN "above" ELSE "in"
SlackOf(sl) == IF KLt(sl, ZeroK) THEN "out" ELSE "in"

TInit == /\ tid \in 1..Len(Traces) /\ TLCSet(tid, 0) /\ l = 1 /\ Init
Cur == Traces[tid][l]
Consume == l <= Len(Traces[tid]) /\ l' = l + 1 /\ UNCHANGED <<tid, plan>>

TBegin == /\ Consume /\ Cur.op = "begin"
          /\ Begin(Cur.ne, Cur.nf, Cur.nl, Cur.ncon, Cur.nefc, Cur.cone)
\* a row event: index in order, finite force, well-formed key; then the action of its type
RowHead == Consume /\ Cur.op = "row" /\ Cur.i = pos /\ Cur.fin = 1 /\ KeyOK(Cur.f)
TRowEq   == RowHead /\ Cur.ty = 0 /\ RowEq(Cur.ty, SignOf(Cur.f))
TRowFric == RowHead /\ Cur.ty \in {1, 2} /\ KeyOK(Cur.lo) /\ KeyOK(Cur.hi)
            /\ RowFric(Cur.ty, BoundOf(Cur.f, Cur.lo, Cur.hi))
TRowLimit == RowHead /\ Cur.ty \in {3, 4} /\ RowLimit(Cur.ty, SignOf(Cur.f))
TRowFrictionless == RowHead /\ Cur.ty = 5 /\ RowFrictionless(Cur.ty, Cur.id, Cur.dim, Cur.adr, SignOf(Cur.f))
TRowPyr == RowHead /\ Cur.ty = 6
           /\ \/ RowPyrFirst(Cur.ty, Cur.id, Cur.dim, Cur.adr, SignOf(Cur.f))
              \/ RowPyrNext(Cur.ty, Cur.id, SignOf(Cur.f))
TRowEllFirst == RowHead /\ Cur.ty = 7 /\ cur.left = 0 /\ "sl" \in DOMAIN Cur /\ KeyOK(Cur.sl)
                /\ RowEllFirst(Cur.ty, Cur.id, Cur.dim, Cur.adr, SignOf(Cur.f), SlackOf(Cur.sl))
TRowEllNext == RowHead /\ Cur.ty = 7 /\ cur.left > 0 /\ RowEllNext(Cur.ty, Cur.id, SignOf(Cur.f))
TContact == /\ Consume /\ Cur.op = "contact" /\ KeyOK(Cur.n)
            /\ ContactForce(Cur.id, Cur.dim, Cur.adr, Cur.cf, SignOf(Cur.n), Cur.adh)
TEnd == Consume /\ Cur.op = "end" /\ End(Cur.resid)

TNext == TBegin \/ TRowEq \/ TRowFric \/ TRowLimit \/ TRowFrictionless \/ TRowPyr \/ TRowEllFirst \/ TRowEllNext
         \/ TContact \/ TEnd
TSpec == TInit /\ [][TNext]_tvars
\* furthest event explained, per trace (needs -workers 1)
Track == IF l - 1 > TLCGet(tid) THEN TLCSet(tid, l - 1) ELSE TRUE
Accepted == \A t \in 1..Len(Traces) : TLCGet(t) = Len(Traces[t])
Report == /\ \A t \in 1..Len(Traces) : PrintT(<<"TRACE", t, TLCGet(t), Len(Traces[t])>>)
          /\ Accepted
NoDims == {}
=============================================================================
