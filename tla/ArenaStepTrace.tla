--------------------------- MODULE ArenaStepTrace ---------------------------
\* code -> spec: outcomes of real mj_step runs under a shrinking arena (harness/arena_drv.cc, op s.try) must be
\* outcomes of ArenaStep for SOME capacity and SOME demand profile per step.  A trace is the sequence of observable
\* events of one run (model, memory size N):
\*    noarena | done(con, wcon, wcns, efc, incl, isl, bal, apart) | error(err) reset | crash
\* computed by checks/c20.py from the counters the child printed.  The oracle is the INTENDED specification
\* (PairChecked = IslandClears = TRUE): a crash, a contact that keeps an efc address while nefc = 0, a truncation
\* without its warning, an unbalanced stack ... have no explaining action and the trace is rejected there.
EXTENDS ArenaStep, Json, IOUtils, TLCExt
Traces == JsonDeserialize(IOEnv.TRACE_FILE)
VARIABLES tid, l
tvars == <<vars, tid, l>>
Cur == Traces[tid][l]

TInit == tid \in 1..Len(Traces) /\ TLCSet(tid, 0) /\ l = 1 /\ Init

MatchObs(o, c) ==
  /\ o.kind = c.kind
  /\ o.kind = "error" => (o.err = c.err /\ o.apart = c.apart)
  /\ o.kind = "done" => /\ (c.con = "any" \/ o.con = c.con)
                        /\ o.wcon = c.wcon /\ o.wcns = c.wcns /\ o.efc = c.efc /\ o.incl = c.incl
                        /\ (c.isl = "any" \/ o.isl = c.isl) /\ o.bal = c.bal /\ o.apart = c.apart

\* every action of the step is allowed; the ones that produce an observation must produce the recorded one
TStep == /\ Next
         /\ IF obs' # obs /\ obs'.kind # "none"
            THEN l <= Len(Traces[tid]) /\ MatchObs(obs', Cur) /\ l' = l + 1 /\ UNCHANGED tid
            ELSE UNCHANGED <<tid, l>>
TSpec == TInit /\ [][TStep]_tvars

Track == IF l - 1 > TLCGet(tid) THEN TLCSet(tid, l - 1) ELSE TRUE
Report == /\ \A t \in 1..Len(Traces) : PrintT(<<"TRACE", t, TLCGet(t), Len(Traces[t])>>)
          /\ \A t \in 1..Len(Traces) : TLCGet(t) = Len(Traces[t])
=============================================================================
