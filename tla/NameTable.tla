----------------------------- MODULE NameTable -----------------------------
\* Name lookup of a compiled MuJoCo model (src/engine/engine_name.c: mj_name2id, mj_id2name, mj_hashString,
\* _getnumadr; src/user/user_model.cc: namelist / CopyNames).
\*
\* A model is, per object type, the sequence of the names of its objects in id order ("" = unnamed).  Names
\* are unique within a type; the same name may be used by several types.  The answers to the queries are
\* computed *operationally*, the way the code does it: the compiler inserts the ids of the named objects in
\* an open-addressing table of size Load * n with linear probing from Hash(name) % size, and mj_name2id
\* probes from the same position until it finds the name, an empty slot, or has wrapped around.  The hash
\* function is a free parameter h chosen in the initial state, so TLC decides the properties (stated
\* declaratively below) for every pattern of collisions, not only for those of the real hash.
EXTENDS Integers, Sequences, FiniteSets, TLC
CONSTANTS Types,      \* object types that own a name list (strings: "body", "joint", ...)
          Layout,     \* "A": helper objects exist (body world+hb, joint hj, geom hg1+hg2); "B": only world
          Names,      \* names the user may give (strings)
          MaxAdd,     \* objects added per type
          MaxOps,
          HMax,       \* hash values 0..HMax (before reduction modulo the table size)
          Load,       \* mjLOAD_MULTIPLE
          CompileEvery, FaultFrom,   \* see Behaviours
          RoundRobin, \* TRUE: edit number k may only touch type TSeq[k % n] (small branching for simulation)
          Bug         \* "none"; other values plant defects in the lookup (negative controls)

\* objects that exist before the user adds anything (ids 0, 1, ...)
Pre(t) == IF t = "body" THEN (IF Layout = "A" THEN <<"world", "hb">> ELSE <<"world">>)
          ELSE IF Layout = "A" /\ t = "joint" THEN <<"hj">>
          ELSE IF Layout = "A" /\ t = "geom" THEN <<"hg1", "hg2">>
          ELSE <<>>
\* layout B has no movable body, joint or named geom: the types that need one stay empty
Dependent == {"joint", "pair", "exclude", "equality", "tendon", "actuator", "sensor", "tuple", "flex"}
CanAdd(t) == Layout = "A" \/ t \notin Dependent

Reserved == {"world", "hb", "hj", "hg1", "hg2"}
NonName  == "~"                               \* a string nobody is ever called
AllNames == Names \cup Reserved \cup {NonName}
\* the query battery: fixed order, so that answers are sequences
RECURSIVE SetToSeq(_)
SetToSeq(S) == IF S = {} THEN <<>> ELSE LET x == CHOOSE y \in S : TRUE IN <<x>> \o SetToSeq(S \ {x})
QSeq == <<"">> \o SetToSeq(AllNames)
MaxLen == 2 + MaxAdd
IdSeq == [k \in 1..(MaxLen + 4) |-> k - 3]    \* ids -2 .. MaxLen+1
Null == "<null>"

\* types that have no name list (mjOBJ_UNKNOWN, mjOBJ_DOF, mjOBJ_FRAME, mjOBJ_DEFAULT, mjOBJ_MODEL, integers
\* outside the enumeration) and the alias mjOBJ_XBODY of mjOBJ_BODY
NoNameTypes == {"unknown", "dof", "frame", "default", "model", "neg", "past", "big"}
Alias == [xbody |-> "body"]

VARIABLES tab,    \* [Types -> sequence of names]: the specification being edited
          ctab,   \* tab at the last compilation
          gmap,   \* the compiled model's names_map: one array, a segment of Load * n slots per type, in TSeq order
          h,      \* [AllNames -> 0..HMax]: the hash function
          bad,    \* a repeated name was added: the model does not compile
          nops, ev, obs
vars == <<tab, ctab, gmap, h, bad, nops, ev, obs>>

\* ---- the compiler's table and the engine's lookup, operationally --------------------------------------
\* enumeration order of the types (mjtObj); the segments of names_map are laid out in this order
EnumOrder == <<"body", "joint", "geom", "site", "camera", "light", "flex", "mesh", "skin", "hfield", "texture",
               "material", "pair", "exclude", "equality", "tendon", "actuator", "sensor", "numeric", "text",
               "tuple", "key", "plugin">>
TSeq == SelectSeq(EnumOrder, LAMBDA t : t \in Types)
TPos(t) == CHOOSE k \in 1..Len(TSeq) : TSeq[k] = t
Size(names) == Load * Len(names)
RECURSIVE Probe(_, _)                  \* first empty slot from j (0-based positions, map is 1-based)
Probe(map, j) == IF map[j + 1] = -1 THEN j ELSE Probe(map, (j + 1) % Len(map))
RECURSIVE Insert(_, _, _)              \* namelist(): ids in increasing order, empty names skipped
Insert(names, i, map) ==
  IF i > Len(names) THEN map
  ELSE IF names[i] = "" THEN Insert(names, i + 1, map)
  ELSE LET j == Probe(map, h[names[i]] % Len(map)) IN Insert(names, i + 1, [map EXCEPT ![j + 1] = i - 1])
MapOf(names) == Insert(names, 1, [k \in 1..Size(names) |-> -1])
\* CopyNames(): the segments one after the other
RECURSIVE BuildFrom(_, _)
BuildFrom(tb, k) == IF k > Len(TSeq) THEN <<>> ELSE MapOf(tb[TSeq[k]]) \o BuildFrom(tb, k + 1)
Build(tb) == BuildFrom(tb, 1)

\* _getnumadr(): the segment of type t starts at  nnames_map - (sizes of t and of all later types)
RECURSIVE SizesFrom(_, _)
SizesFrom(tb, k) == IF k > Len(TSeq) THEN 0 ELSE Size(tb[TSeq[k]]) + SizesFrom(tb, k + 1)
MapAdr(tb, gm, t) == Len(gm) - SizesFrom(tb, IF Bug = "offset" THEN TPos(t) + 1 ELSE TPos(t))   \* planted: off by one type

RECURSIVE Search(_, _, _, _, _, _, _)   \* the do-while loop of mj_name2id
Search(names, gm, adr, num, q, i, start) ==
  LET j == IF adr + i + 1 \in 1..Len(gm) THEN gm[adr + i + 1] ELSE -1 IN
  IF j < 0 THEN -1
  ELSE IF j + 1 \in 1..Len(names) /\ (names[j + 1] = q \/ (Bug = "emptymatch" /\ q = ""))   \* planted
       THEN j
  ELSE LET nx == IF i + 1 = num THEN 0 ELSE i + 1 IN
       IF nx = start THEN -1 ELSE Search(names, gm, adr, num, q, nx, start)
HashOf(q) == IF q = "" THEN 0 ELSE h[q]        \* the empty string is hashed like any other (value irrelevant)
Name2Id(tb, gm, t, q) ==
  LET names == tb[t]
      num == Size(names) IN
  IF num = 0 THEN -1
  ELSE LET adr == MapAdr(tb, gm, t)
           st  == HashOf(q) % num IN
       IF Bug = "noprobe" THEN (LET j == gm[adr + st + 1] IN IF j >= 0 /\ names[j + 1] = q THEN j ELSE -1)
       ELSE Search(names, gm, adr, num, q, st, st)
Id2Name(names, id) == IF id >= 0 /\ id < Len(names) /\ names[id + 1] # "" THEN names[id + 1] ELSE Null

Answers(tb, gm, t) == [n2i |-> [k \in 1..Len(QSeq) |-> Name2Id(tb, gm, t, QSeq[k])],
                       i2n |-> [k \in 1..Len(IdSeq) |-> Id2Name(tb[t], IdSeq[k])]]
ObsOf(tb, gm) == [t \in Types |-> Answers(tb, gm, t)]
\* what the types without a name list answer (num = 0)
NoAnswers == [n2i |-> [k \in 1..Len(QSeq) |-> -1], i2n |-> [k \in 1..Len(IdSeq) |-> Id2Name(<<>>, IdSeq[k])]]

\* ---- behaviours -----------------------------------------------------------------------------------------
\* The user edits the specification (Add...); Compile builds names_map and the answers of the query battery.
\* A compilation is due after every CompileEvery edits; faulty edits are allowed from edit number FaultFrom on.
MustName == {"mesh", "hfield", "texture", "material"}      \* the compiler rejects unnamed objects of these types
Init == /\ tab = [t \in Types |-> Pre(t)]
        /\ ctab = tab
        /\ h \in {[n \in AllNames |-> IF n \in Reserved THEN 0 ELSE g[n]] : g \in [Names \cup {NonName} -> 0..HMax]}
        /\ bad = FALSE /\ nops = 0
        /\ ev = [op |-> "init", qseq |-> QSeq, idseq |-> IdSeq, noanswers |-> NoAnswers]
        /\ gmap = Build(tab)
        /\ obs = ObsOf(tab, gmap)

Used(t) == {tab[t][i] : i \in 1..Len(tab[t])} \ {""}
Due  == tab # ctab /\ (nops % CompileEvery = 0 \/ nops = MaxOps \/ bad)
Edit == nops < MaxOps /\ nops' = nops + 1 /\ ~bad /\ ~Due
Turn(t) == ~RoundRobin \/ t = TSeq[(nops % Len(TSeq)) + 1]
Room(t) == Turn(t) /\ CanAdd(t) /\ Len(tab[t]) < Len(Pre(t)) + MaxAdd

\* add an object of type t with name n ("" = unnamed); it gets the next id
Add(t, n) ==
  /\ Edit /\ Room(t)
  /\ n \notin Used(t) /\ (n = "" => t \notin MustName)
  /\ tab' = [tab EXCEPT ![t] = Append(@, n)]
  /\ ev' = [op |-> "add", t |-> t, n |-> n, id |-> Len(tab[t])]
  /\ UNCHANGED <<ctab, gmap, obs, h, bad>>

\* a repeated name within a type, or no name where one is required: compilation will fail
AddDup(t, n) ==
  /\ Edit /\ Room(t) /\ nops >= FaultFrom
  /\ n \in Used(t) /\ n \in Names
  /\ tab' = [tab EXCEPT ![t] = Append(@, n)]
  /\ bad' = TRUE
  /\ ev' = [op |-> "adddup", t |-> t, n |-> n]
  /\ UNCHANGED <<ctab, gmap, obs, h>>
AddNoName(t) ==
  /\ Edit /\ Room(t) /\ nops >= FaultFrom /\ t \in MustName
  /\ tab' = [tab EXCEPT ![t] = Append(@, "")]
  /\ bad' = TRUE
  /\ ev' = [op |-> "addnoname", t |-> t]
  /\ UNCHANGED <<ctab, gmap, obs, h>>

\* round-robin mode: leave the type whose turn it is alone
Skip == /\ RoundRobin /\ Edit /\ ev' = [op |-> "skip"] /\ UNCHANGED <<tab, ctab, gmap, obs, h, bad>>

Compile ==
  /\ Due /\ UNCHANGED <<tab, h, bad, nops>>
  /\ ctab' = tab
  /\ IF bad THEN /\ ev' = [op |-> "compile", ret |-> "error"] /\ UNCHANGED <<gmap, obs>>
            ELSE /\ gmap' = Build(tab)
                 /\ obs' = ObsOf(tab, gmap')
                 /\ ev' = [op |-> "compile", ret |-> "ok"]

Next == \/ \E t \in Types, n \in Names \cup {""} : Add(t, n)
        \/ \E t \in Types, n \in Names : AddDup(t, n)
        \/ \E t \in Types : AddNoName(t)
        \/ Skip
        \/ Compile
Spec == Init /\ [][Next]_vars

\* ---- the property ----------------------------------------------------------------------------------------
\* obs always describes the model compiled from ctab
QIndex(q) == CHOOSE k \in 1..Len(QSeq) : QSeq[k] = q
IIndex(i) == i + 3
CUsed(t) == {ctab[t][i] : i \in 1..Len(ctab[t])} \ {""}
TypeOK == /\ \A t \in Types : \A i \in 1..Len(tab[t]) : tab[t][i] \in AllNames \cup {""}
          /\ Len(gmap) = SizesFrom(ctab, 1) \/ bad
Unique == ~bad => \A t \in Types : \A i, j \in 1..Len(tab[t]) : (i # j /\ tab[t][i] # "") => tab[t][i] # tab[t][j]
\* mj_name2id(mj_id2name(i)) = i for every named object
Inverse == ~bad => \A t \in Types : \A i \in 1..Len(ctab[t]) :
              ctab[t][i] # "" => /\ obs[t].i2n[IIndex(i - 1)] = ctab[t][i]
                                 /\ obs[t].n2i[QIndex(ctab[t][i])] = i - 1
\* mj_id2name is NULL exactly for unnamed objects and ids out of range
NullIff == ~bad => \A t \in Types : \A k \in 1..Len(IdSeq) :
              (obs[t].i2n[k] = Null) <=> (IdSeq[k] < 0 \/ IdSeq[k] >= Len(ctab[t]) \/ ctab[t][IdSeq[k] + 1] = "")
\* mj_name2id is -1 for every string that does not name an object of that type (the empty string included)
NonNames == ~bad => \A t \in Types : \A k \in 1..Len(QSeq) :
              (QSeq[k] = "" \/ QSeq[k] \notin CUsed(t)) => obs[t].n2i[k] = -1
\* types without a name list answer -1 / NULL to everything
NoListAnswers == /\ \A k \in 1..Len(QSeq) : NoAnswers.n2i[k] = -1
                 /\ \A k \in 1..Len(IdSeq) : NoAnswers.i2n[k] = Null
\* recompiling after edits changes nothing for the types that were not edited, and keeps the existing ids
EditsAreLocal == [][(ev'.op = "compile" /\ ev'.ret = "ok") =>
                   /\ \A t \in Types : (tab[t] = ctab[t]) => obs'[t] = obs[t]
                   /\ \A t \in Types : \A i \in 1..Len(ctab[t]) :
                         obs'[t].i2n[IIndex(i - 1)] = obs[t].i2n[IIndex(i - 1)]]_vars
\* a faulty edit is reported by the compiler
FaultsRejected == [][(ev'.op = "compile") => (ev'.ret = "error" <=> bad)]_vars

\* ---- constants for the configurations ----------------------------------------------------------------------
MC_Types2 == {"body", "site"}
MC_Types3 == {"body", "joint", "mesh"}
MC_TypesAll == {"body", "joint", "geom", "site", "camera", "light", "flex", "mesh", "skin", "hfield", "texture",
                "material", "pair", "exclude", "equality", "tendon", "actuator", "sensor", "numeric", "text",
                "tuple", "key", "plugin"}
MC_Names3 == {"a", "aa", "b"}
MC_Names4 == {"a", "aa", "ab", "b"}
=============================================================================
