SPECIFICATION Spec
CONSTANTS
  Kinds <- L_Kinds
  Zs <- L_Z
  Z0s <- L_Z0
  R1s <- L_R1
  R2s <- L_R2
  Margins <- L_Mg
  Gaps <- L_Gp
  Variant = "midpoint"
INVARIANT TypeOK
INVARIANT Midway
INVARIANT DistIsGap
INVARIANT EfcImpliesCon
INVARIANT PenetrationDetected
INVARIANT NormalOrient
CHECK_DEADLOCK FALSE
