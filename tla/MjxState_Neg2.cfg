SPECIFICATION Spec
CONSTANTS
  NC = 4
  Dims <- MC_Dims4
  MaxOps = 2
  MaxSims = 2
  Mode = "free"
  Sigs <- MC_SigsSmall
  ChainMod = 1
  ChainRem = 0
  Modes <- MC_ModesMC
  NPat = 2
  W = 1
  CW = 1
  Bug = "getdrop"
INVARIANT TypeOK
INVARIANT SizeIsLength
INVARIANT GetIsDecl
INVARIANT ApisAgree
INVARIANT OriginOK
INVARIANT SimTabDistinct
PROPERTY XSetRestores
PROPERTY XSetPure
PROPERTY CSetRestores
PROPERTY SetThenGet
PROPERTY PutCopies
PROPERTY GetCopies
PROPERTY PutGetIdentity
PROPERTY MakeIsPutFresh
PROPERTY StepKeepsInputs
PROPERTY StepFunctional
PROPERTY QueriesPure
CHECK_DEADLOCK FALSE
