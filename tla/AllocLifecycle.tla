--------------------------- MODULE AllocLifecycle ---------------------------
\* Heap-block discipline of MuJoCo's object API as seen through the public allocator hooks
\* (mju_user_malloc / mju_user_free / mju_user_error / mju_user_warning), property C21:
\*   "if an allocation fails ... the failure surfaces as an error through the log/error channel or as a
\*    NULL/error return.  No NULL pointer is dereferenced, and no memory is leaked or freed twice."
\*
\* Vocabulary (= the events recorded by harness/alloc_drv.cc):
\*   Call(api, owner, tg)   an API call starts.  tg = the objects the call may modify or destroy,
\*                          owner = an opaque object (an mjSpec) that may keep blocks of its own, or 0
\*   Alloc(p)               the allocator hands out block p            AllocFail   it returns NULL
\*   Free(p)                the library frees block p
\*   Error / Warn           mju_error / mju_warning reach the user's handler (Error: control leaves the call)
\*   Ret(res, o, owns, dead) the call is over: res = obj (new object o) | null | err | void;
\*                          owns = for objects whose memory layout is public (mjModel: struct + buffer, mjData:
\*                          struct + buffer + arena) the blocks they now consist of (ground truth read off the
\*                          object by the harness); dead = the objects the call destroyed
\*   End                    the scenario program is over and has deleted every object it obtained
\*
\* Every live block must belong to an existing object.  What a call allocated, kept, and did not hand over in
\* `owns` goes to the call's owner object if it has one; otherwise it is a leak.  An object may only be destroyed
\* with all its blocks freed.
\*
\* The good actions accept exactly the disciplined behaviours; each V_* action is the complement of one guard,
\* names one way of breaking the property and parks the behaviour in bad.cls # "" (AllocLifecycleTrace uses them
\* to classify what an implementation trace did).  TolerateFailLeak = TRUE is the reading used for a second pass
\* over traces that show the known structural leak (blocks allocated before a failing allocation are lost):
\* such blocks are written off into `leaked`, everything else is still checked.
EXTENDS Integers, FiniteSets, Sequences, TLC
CONSTANTS Blocks,            \* ids the allocator may hand out (each id is used at most once)
          Objs,              \* object ids
          MaxCalls,          \* bound on the number of calls (model checking only)
          TolerateFailLeak,  \* BOOLEAN
          NAllocs            \* allocations per create call in the callee models at the end of the module

VARIABLES live,     \* blocks handed out and not freed
          gone,     \* blocks freed
          own,      \* live owned block -> object
          objs,     \* existing objects
          call,     \* the call in progress (record), call.active = FALSE between calls
          leaked,   \* blocks written off by the tolerant reading
          born,     \* block -> api of the call that allocated it
          taint,    \* blocks allocated by a call in which an allocation failed
          ncalls,
          ev,       \* last event
          bad       \* [cls, api]: class of the first violation and the API call it is attributed to
vars == <<live, gone, own, objs, call, leaked, born, taint, ncalls, ev, bad>>

NoCall == [active |-> FALSE, api |-> "", owner |-> 0, tg |-> {}, new |-> {}, entry |-> {},
           failed |-> FALSE, errored |-> FALSE, warned |-> FALSE]
NoBad  == [cls |-> "", api |-> ""]

Init == /\ live = {} /\ gone = {} /\ own = << >> /\ objs = {} /\ call = NoCall /\ leaked = {}
        /\ born = << >> /\ taint = {} /\ ncalls = 0 /\ ev = [op |-> "init"] /\ bad = NoBad

Ok             == bad = NoBad
Keep           == call.new \cap live                        \* allocated by this call and still there
BlocksOf(x)    == {p \in DOMAIN own : own[p] = x}
Touchable      == call.tg \cup (IF call.owner = 0 THEN {} ELSE {call.owner})
MayFree(p)     == p \in call.new \/ (p \in DOMAIN own /\ own[p] \in Touchable)
Restrict(f, S) == [x \in (DOMAIN f) \cap S |-> f[x]]
Union(F)       == UNION {F[x] : x \in DOMAIN F}

\* ---- good actions ------------------------------------------------------------------------------
CallOK(owner, tg) == (owner = 0 \/ owner \in objs) /\ tg \subseteq objs

Call(api, owner, tg) ==
  /\ Ok /\ ~call.active /\ CallOK(owner, tg)
  /\ call' = [NoCall EXCEPT !.active = TRUE, !.api = api, !.owner = owner, !.tg = tg, !.entry = live]
  /\ ncalls' = ncalls + 1
  /\ ev' = [op |-> "call", api |-> api]
  /\ UNCHANGED <<live, gone, own, objs, leaked, born, taint, bad>>

InCall == Ok /\ call.active /\ ~call.errored

Alloc(p) ==
  /\ InCall /\ p \in Blocks /\ p \notin live \cup gone
  /\ live' = live \cup {p}
  /\ born' = [x \in DOMAIN born \cup {p} |-> IF x = p THEN call.api ELSE born[x]]
  /\ call' = [call EXCEPT !.new = @ \cup {p}]
  /\ ev' = [op |-> "alloc", p |-> p]
  /\ UNCHANGED <<gone, own, objs, leaked, taint, ncalls, bad>>

AllocFail ==
  /\ InCall
  /\ call' = [call EXCEPT !.failed = TRUE]
  /\ ev' = [op |-> "allocfail"]
  /\ UNCHANGED <<live, gone, own, objs, leaked, born, taint, ncalls, bad>>

Free(p) ==
  /\ InCall /\ p \in live /\ MayFree(p)
  /\ live' = live \ {p} /\ gone' = gone \cup {p}
  /\ own' = Restrict(own, live')
  /\ ev' = [op |-> "free", p |-> p]
  /\ UNCHANGED <<objs, call, leaked, born, taint, ncalls, bad>>

Error ==
  /\ InCall
  /\ call' = [call EXCEPT !.errored = TRUE]
  /\ ev' = [op |-> "error"]
  /\ UNCHANGED <<live, gone, own, objs, leaked, born, taint, ncalls, bad>>

Warn ==
  /\ InCall
  /\ call' = [call EXCEPT !.warned = TRUE]
  /\ ev' = [op |-> "warn"]
  /\ UNCHANGED <<live, gone, own, objs, leaked, born, taint, ncalls, bad>>

\* ---- the end of a call: Ret(res, o, owns, dead) ----------------------------------------------------------
\* the failure of an allocation must be visible to the caller
Surfaced(res)   == call.failed => (call.errored \/ call.warned \/ res = "null")
ResOK(res, o)   == /\ res \in {"obj", "null", "err", "void"}
                   /\ (res = "err") <=> call.errored
                   /\ (res = "obj") <=> (o # 0)
NewOK(o, owns)  == o # 0 => (o \in Objs /\ o \notin objs /\ o \in DOMAIN owns)
\* ground truth must be consistent: only the targets / the new object are re-described, with live blocks that
\* are the call's own or were the object's before, and no block in two objects
OwnsOK(o, owns) == /\ DOMAIN owns \subseteq call.tg \cup (IF o = 0 THEN {} ELSE {o})
                   /\ \A x \in DOMAIN owns : owns[x] \subseteq Keep \cup BlocksOf(x)
                   /\ \A x, y \in DOMAIN owns : x # y => owns[x] \cap owns[y] = {}
\* a re-described object must still contain every block it had that is still live
NoOrphan(owns)  == \A x \in DOMAIN owns \cap objs : BlocksOf(x) \subseteq owns[x]
DeadOK(owns, dead) == dead \subseteq call.tg /\ dead \cap DOMAIN owns = {}
RetShapeOK(res, o, owns, dead) == ResOK(res, o) /\ NewOK(o, owns) /\ OwnsOK(o, owns) /\ DeadOK(owns, dead)
\* what the call allocated, kept and handed to nobody
Rest(owns)      == Keep \ Union(owns)
HasOwner(dead)  == call.owner # 0 /\ call.owner \notin dead
\* blocks left behind: by the call itself (no owner to take them) and by destroyed objects
Left(owns, dead) == (IF HasOwner(dead) THEN {} ELSE Rest(owns)) \cup UNION {BlocksOf(x) \ Union(owns) : x \in dead}
\* ... are tolerated only in the tolerant reading, and only when a failed allocation explains them
Tainted         == taint \cup (IF call.failed THEN Keep ELSE {})
LeftOK(owns, dead) == \/ Left(owns, dead) = {}
                      \/ TolerateFailLeak /\ Left(owns, dead) \subseteq Tainted

Ret(res, o, owns, dead) ==
  /\ Ok /\ call.active /\ RetShapeOK(res, o, owns, dead) /\ Surfaced(res) /\ NoOrphan(owns)
  /\ LeftOK(owns, dead)
  /\ objs' = (objs \cup (IF o = 0 THEN {} ELSE {o})) \ dead
  /\ leaked' = leaked \cup Left(owns, dead)
  /\ taint' = Tainted
  /\ own' = [p \in ((DOMAIN own \cup Keep) \ Left(owns, dead)) |->
               IF \E x \in DOMAIN owns : p \in owns[x] THEN CHOOSE x \in DOMAIN owns : p \in owns[x]
               ELSE IF p \in DOMAIN own THEN own[p] ELSE call.owner]
  /\ call' = NoCall
  /\ ev' = [op |-> "ret", res |-> res, o |-> o, api |-> call.api, failed |-> call.failed,
            plain |-> (call.owner = 0 /\ call.tg = {} /\ o = 0)]
  /\ UNCHANGED <<live, gone, born, ncalls, bad>>

End ==
  /\ Ok /\ ~call.active /\ objs = {} /\ live \subseteq leaked
  /\ ev' = [op |-> "end"]
  /\ UNCHANGED <<live, gone, own, objs, call, leaked, born, taint, ncalls, bad>>

\* ---- violations (one class each) ---------------------------------------------------------------------------
Flag(c, a) == /\ bad' = [cls |-> c, api |-> a]
              /\ UNCHANGED <<live, gone, own, objs, call, leaked, born, taint, ncalls, ev>>
V_DoubleFree(p)     == Ok /\ p \in gone /\ Flag("double-free", call.api)
V_UnknownFree(p)    == Ok /\ p \notin live \cup gone /\ Flag("free-of-unknown-block", call.api)
V_ForeignFree(p)    == Ok /\ call.active /\ p \in live /\ ~MayFree(p) /\ Flag("free-of-foreign-block", call.api)
V_OutsideCall       == Ok /\ ~call.active /\ Flag("allocator-or-log-event-outside-call", "-")
V_AfterError        == Ok /\ call.active /\ call.errored /\ Flag("event-after-error-left-the-call", call.api)
V_ReusedBlock(p)    == Ok /\ InCall /\ p \in live \cup gone /\ Flag("allocator-handed-out-a-used-id", call.api)
V_BadCall(owner, tg) == Ok /\ ~call.active /\ ~CallOK(owner, tg) /\ Flag("call-on-missing-object", "-")
V_BadResult(res, o, owns, dead) ==
  /\ Ok /\ call.active /\ ~RetShapeOK(res, o, owns, dead)
  /\ Flag("result-inconsistent-with-call", call.api)
V_NotSurfaced(res, o, owns, dead) ==
  /\ Ok /\ call.active /\ RetShapeOK(res, o, owns, dead) /\ ~Surfaced(res)
  /\ Flag("failure-not-surfaced", call.api)
V_Orphan(res, o, owns, dead) ==
  /\ Ok /\ call.active /\ RetShapeOK(res, o, owns, dead) /\ Surfaced(res) /\ ~NoOrphan(owns)
  /\ Flag("object-lost-a-live-block", call.api)
\* blocks left behind.  If a failed allocation explains all of them the violation is the known structural
\* leak and is attributed to the call that allocated the block; otherwise it is a leak on a path without failure
V_Left(res, o, owns, dead) ==
  /\ Ok /\ call.active /\ RetShapeOK(res, o, owns, dead) /\ Surfaced(res) /\ NoOrphan(owns)
  /\ ~LeftOK(owns, dead)
  /\ LET L == Left(owns, dead)
         T == L \cap Tainted
         U == L \ Tainted
         bornapi(p) == IF p \in Keep THEN call.api ELSE born[p] IN
       IF U # {}
       THEN Flag(IF U \cap Keep = {} THEN "destroy-leaves-blocks" ELSE "leak-without-failed-allocation",
                 bornapi(CHOOSE p \in U : TRUE))
       ELSE Flag("leak-after-failed-allocation", bornapi(CHOOSE p \in T : TRUE))
V_EndLeak == /\ Ok /\ ~call.active /\ (objs # {} \/ ~(live \subseteq leaked))
             /\ Flag("leak-at-end", IF live \ leaked # {} THEN born[CHOOSE p \in live \ leaked : TRUE] ELSE "-")

\* ---- free exploration (every disciplined behaviour over small constants) -------------------------------
OwnsChoices == {<< >>} \cup {[y \in {x} |-> S] : x \in Objs, S \in SUBSET live}
AnyCall == /\ ncalls < MaxCalls
           /\ \E owner \in objs \cup {0}, tg \in SUBSET objs : Call("f", owner, tg)
AnyRet  == \E res \in {"obj", "null", "err", "void"}, o \in Objs \cup {0}, owns \in OwnsChoices, dead \in SUBSET call.tg :
             Ret(res, o, owns, dead)
Next == \/ AnyCall
        \/ \E p \in Blocks : Alloc(p) \/ Free(p)
        \/ AllocFail \/ Error \/ Warn
        \/ AnyRet
        \/ End
Spec == Init /\ [][Next]_vars

\* ---- the implementation pattern of mj_makeModel / mj_makeRawData / mj_copyData (design-level re-finding):
\* a creating call performs NAllocs allocations in sequence; the allocator itself raises the error when it
\* returns NULL, so the caller's clean-up code after "if (!ptr)" is never reached
Fresh == CHOOSE p \in Blocks : p \notin live \cup gone
NewObj == CHOOSE o \in Objs : o \notin objs
CalleeCommon ==
  \/ /\ ~call.active /\ ncalls < MaxCalls /\ Call("make", 0, {})
  \/ /\ call.active /\ ~call.failed /\ Cardinality(call.new) < NAllocs
     /\ \/ Alloc(Fresh)
        \/ AllocFail
  \/ /\ call.active /\ call.errored
     /\ \/ Ret("err", 0, << >>, {})
        \/ V_Left("err", 0, << >>, {})
  \/ /\ call.active /\ ~call.failed /\ Cardinality(call.new) = NAllocs
     /\ Ret("obj", NewObj, [y \in {NewObj} |-> Keep], {})
AsIsCallee ==
  \/ CalleeCommon
  \/ /\ call.active /\ call.failed /\ ~call.errored /\ Error          \* mju_malloc: mju_error("Could not allocate memory")
AsIsSpec == Init /\ [][AsIsCallee]_vars
\* what the caller's dead clean-up code intends: free what was allocated, then raise
IdealCallee ==
  \/ CalleeCommon
  \/ /\ call.active /\ call.failed /\ ~call.errored
     /\ IF Keep # {} THEN Free(CHOOSE p \in Keep : TRUE) ELSE Error
IdealSpec == Init /\ [][IdealCallee]_vars

\* ---- the property ------------------------------------------------------------------------------------
TypeOK == /\ live \subseteq Blocks /\ gone \subseteq Blocks /\ leaked \subseteq live
          /\ DOMAIN own \subseteq live /\ objs \subseteq Objs /\ taint \subseteq Blocks
          /\ call.new \subseteq Blocks /\ call.tg \subseteq objs
NoViolation    == bad = NoBad
NoDoubleFree   == live \cap gone = {}                                   \* a block is never both
FreedOnce      == [][(bad' = NoBad /\ ev'.op = "free") => (ev'.p \in live /\ ev'.p \notin gone)]_vars
OwnersExist    == \A p \in DOMAIN own : own[p] \in objs
\* between calls every live block belongs to an existing object (or was written off by the tolerant reading)
NoLeak         == ~call.active => (live \ leaked) \subseteq DOMAIN own
StrictNoLeak   == ~TolerateFailLeak => leaked = {}
OnlyTaintedWrittenOff == leaked \subseteq taint
\* a call without owner and targets that creates nothing leaves the heap as it found it (failed creation, stepping)
PlainCallIsNeutral ==
  [][(bad' = NoBad /\ ev'.op = "ret" /\ ev'.plain) => (live' \ leaked') = (call.entry \ leaked)]_vars
\* an allocation failure is never silent
FailureSurfaces == [][(bad' = NoBad /\ ev'.op = "ret" /\ ev'.failed) => (call.errored \/ call.warned \/ ev'.res = "null")]_vars
\* only the call's own blocks and the blocks of its targets / owner are freed
FreesAreLocal  == [][(bad' = NoBad /\ ev'.op = "free") => (ev'.p \in call.new \/ (ev'.p \in DOMAIN own /\ own[ev'.p] \in Touchable))]_vars
\* destroyed objects leave nothing behind
DestroyedAreFreed == [][(bad' = NoBad /\ ev'.op = "ret") => \A x \in objs \ objs' : (BlocksOf(x) \cap live') \subseteq leaked' \cup DOMAIN own']_vars
\* when the program has given back every object nothing is left
QuiescentClean == (ev.op = "end") => (live \subseteq leaked /\ objs = {} /\ own = << >>)

MC_Blocks  == 1..3
MC_Blocks2 == 1..2
MC_Blocks6 == 1..6
MC_Objs    == 1..2
=============================================================================
