SPECIFICATION Spec
CONSTANTS
  Types <- MC_Types2
  Layout = "A"
  Names <- MC_Names3
  MaxAdd = 2
  MaxOps = 4
  HMax = 1
  Load = 2
  CompileEvery = 1
  FaultFrom = 0
  RoundRobin = FALSE
  Bug = "offset"
INVARIANT TypeOK
INVARIANT Unique
INVARIANT Inverse
INVARIANT NullIff
INVARIANT NonNames
INVARIANT NoListAnswers
PROPERTY EditsAreLocal
PROPERTY FaultsRejected
CHECK_DEADLOCK FALSE
