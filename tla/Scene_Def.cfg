SPECIFICATION Spec
CONSTANTS
  Models <- ModelsABCD
  Caps <- CapsAll
  GMasks <- AllGroups
  SMasks <- SiteMasks
  JMasks <- NoSites
  TMasks <- NoSites
  AMasks <- NoSites
  FlagSets <- NoFlags
  Statics <- BothBool
  CatMasks <- ThreeCats
  QPos <- Q02
  Status0 <- St0
  InitMode = "def"
  Ops <- NoOps
  MaxOps = 1
  Bug = "none"
INVARIANT TypeOK
CHECK_DEADLOCK FALSE
