SPECIFICATION Spec
CONSTANTS
  Models <- ModelsBC
  Caps <- CapsAll
  GMasks <- FewGroups
  SMasks <- SiteMasks
  Statics <- OnlyTrue
  CatMasks <- TwoCats
  QPos <- Q0
  Status0 <- St01
  InitMode = "all"
  Ops <- CallOps
  MaxOps = 1
  Bug = "none"
INVARIANT TypeOK
INVARIANT Bounded
INVARIANT StatusIsOverflow
INVARIANT Faithful
INVARIANT MinLaw
INVARIANT OnlyGeoms
INVARIANT WalkDeterministic
PROPERTY NoFalseAlarm
CHECK_DEADLOCK FALSE
