SPECIFICATION Spec
CONSTANTS
  Models <- ModelsABC
  Caps <- CapsAll
  GMasks <- FewGroups
  SMasks <- SiteMasks
  JMasks <- NoSites
  TMasks <- NoSites
  AMasks <- NoSites
  FlagSets <- NoFlags
  Statics <- BothBool
  CatMasks <- AllCats
  QPos <- Q02
  Status0 <- St0
  InitMode = "one"
  Ops <- AllOps
  MaxOps = 14
  Bug = "none"
INVARIANT TypeOK
INVARIANT Bounded
INVARIANT StatusIsOverflow
INVARIANT Faithful
INVARIANT GroupLaw
INVARIANT MinLaw
CHECK_DEADLOCK FALSE
