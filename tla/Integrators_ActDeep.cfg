SPECIFICATION Spec
CONSTANTS
  Hs <- L_H4
  Ms <- L_M2
  Ks <- L_K1
  Bs <- L_B2
  Polys <- L_P0
  Fs <- L_F1
  Q0s <- L_Q3
  V0s <- L_V3
  W0s <- L_W
  T0s <- L_T0
  Us <- L_U
  Integs <- L_AllInt
  EDamps <- L_Bool
  Dampers <- L_Bool
  Springs <- L_Bool
  Actuations <- L_Bool
  GroupOns <- L_Bool
  Acts <- L_ActsA
  MaxSteps = 1
  MaxOff = 2
  Variant = "doc"
  Bound = 1024
  BoundRK = 64
VIEW ViewNoEv
INVARIANT TypeOK
INVARIANT DerivedOK
INVARIANT TimeAdvances
INVARIANT TimeIsSteps
INVARIANT ActInRange
INVARIANT ActLaw
INVARIANT EnclosureOK
INVARIANT FilterExactLaw
INVARIANT ActFrozen
INVARIANT SemiImplicit
INVARIANT UpdateEq
INVARIANT EulerDampEq
INVARIANT ImplicitIsEulerDamp
INVARIANT RK4Taylor
INVARIANT RK4ConstAcc
INVARIANT DamperContracts
INVARIANT PolyDampLaw
CHECK_DEADLOCK FALSE
