SPECIFICATION Spec
CONSTANTS
  Hs <- L_H
  Ms <- L_M2
  Ks <- L_K2
  Bs <- L_B3
  Fs <- L_F2
  Q0s <- L_Q3
  V0s <- L_V3
  W0s <- L_W
  T0s <- L_T0
  Us <- L_U
  Integs <- L_AllInt
  EDamps <- L_Bool
  Dampers <- L_Bool
  Springs <- L_Bool
  Actuations <- L_Bool
  GroupOns <- L_Bool
  Acts <- L_ActsA
  MaxSteps = 2
  Variant = "doc"
  Bound = 4096
  BoundRK = 64
VIEW ViewNoEv
INVARIANT TypeOK
INVARIANT DerivedOK
INVARIANT TimeAdvances
INVARIANT TimeIsSteps
INVARIANT ActInRange
INVARIANT ActLaw
INVARIANT ActFrozen
INVARIANT SemiImplicit
INVARIANT UpdateEq
INVARIANT EulerDampEq
INVARIANT ImplicitIsEulerDamp
INVARIANT RK4Taylor
INVARIANT RK4ConstAcc
INVARIANT DamperContracts
CHECK_DEADLOCK FALSE
