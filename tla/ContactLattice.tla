---------------------------- MODULE ContactLattice ----------------------------
\* Contact geometry of axis-aligned primitive pairs (src/engine/engine_collision_primitive.c,
\* engine_collision_box.c, mj_geomDistance in engine_support.c).
\*
\* Every solid geom on the lattice is a "rounded box": an axis-aligned core box with half sizes h (a point for a
\* sphere, a segment for a capsule lying along a coordinate axis, the box itself for a box) inflated by a
\* radius r (0 for a box).  Axis-parallel cylinders and axis-aligned ellipsoids are admitted where their extent is
\* reached on a line through the centre (see RoundOK).  A plane is the half space z <= z0 with normal +z.  All lengths are integers in
\* quarter units, so the signed distance, the normal (a signed coordinate axis) and the two facing surfaces are
\* exact.  Geom A belongs to the world (a plane is always A), geom B to a body that can be placed anywhere.
\*
\*   per axis k:   gap_k = |cB_k - cA_k| - hA_k - hB_k
\*   separated cores (exactly one gap_k > 0 on the lattice):  dist = gap_k - rA - rB,    normal axis k
\*   overlapping cores (sphere centre inside a box, box in box):  dist = max_k gap_k - rA - rB  (unique maximum)
\*   plane:  dist = (cB_z - z0) - hB_z - rB,  normal +z
\* The contact normal points from the first to the second geom of the contact, the first being the one with the
\* smaller geom type (plane < sphere < capsule < box; A before B for equal types).
\*
\* Kept off the lattice (guard Decidable): two positive gaps (edge/corner configurations with irrational
\* distance), ties between axes, overlapping cores of spheres and capsules, a pair exactly at its margin.
EXTENDS Integers, Sequences, FiniteSets, TLC
CONSTANTS ShapesA, ShapesB,   \* sets of [kind, h, r]: kind in {"plane","sphere","capsule","box"}, h = <<hx,hy,hz>>
          Centers,            \* placements of B's centre (A's centre is the origin, a plane is z = 0)
          Margins,            \* contact margins in quarter units
          MaxOps              \* number of placements per model

VARIABLES A, B, margin, cB, phase, nops, ev
vars == <<A, B, margin, cB, phase, nops, ev>>

IAbs(i) == IF i < 0 THEN 0 - i ELSE i
Sgn(i) == IF i < 0 THEN -1 ELSE IF i > 0 THEN 1 ELSE 0
Rank(s) == CASE s.kind = "plane" -> 0 [] s.kind = "sphere" -> 2 [] s.kind = "capsule" -> 3 [] s.kind = "ellipsoid" -> 4
            [] s.kind = "cylinder" -> 5 [] OTHER -> 6
Axes == {1, 2, 3}

\* ---- geometry of the ordered pair (P at cP, Q at cQ), direction P -> Q -----------------------------
Gap(P, cP, Q, cQ, k) == IAbs(cQ[k] - cP[k]) - P.h[k] - Q.h[k]
PosAxes(P, cP, Q, cQ) == {k \in Axes : Gap(P, cP, Q, cQ, k) > 0}
MaxGap(P, cP, Q, cQ) == CHOOSE g \in {Gap(P, cP, Q, cQ, k) : k \in Axes} : \A k \in Axes : Gap(P, cP, Q, cQ, k) <= g
MaxAxes(P, cP, Q, cQ) == {k \in Axes : Gap(P, cP, Q, cQ, k) = MaxGap(P, cP, Q, cQ)}
Solid(s) == s.kind # "plane"
OverlapOK(P, Q) == \/ (P.kind = "box" /\ Q.kind = "box")
                   \/ (P.kind = "sphere" /\ Q.kind \in {"box", "cylinder"})
                   \/ (Q.kind = "sphere" /\ P.kind \in {"box", "cylinder"})
\* Round geoms.  A cylinder along axis ax with radius rho and half height H has h[ax] = H and h = rho on the two
\* other axes; an ellipsoid has h = its semi-axes.  Their extent along a coordinate axis is reached on the line
\* through the centre only, so the rounded-box formulas hold
\*   * for a sphere against a cylinder when the sphere centre is displaced from the cylinder axis along at most one
\*     coordinate axis (outside facing the cap, outside facing the side, and inside: nearest of cap and side),
\*   * for every other pair with a round geom only when the centres differ along the normal axis alone and the
\*     geoms do not penetrate; an ellipsoid is paired with planes and spheres only (the general convex collider is
\*     iteration-capped for two smooth bodies: that accuracy is not this property's subject).
Round(s) == s.kind \in {"cylinder", "ellipsoid"}
OffAxis(C, cC, cS) == Cardinality({j \in Axes : j # C.ax /\ cS[j] # cC[j]})
RoundOK(P, cP, Q, cQ) ==
  IF ~Round(P) /\ ~Round(Q) THEN TRUE
  ELSE IF P.kind = "cylinder" /\ Q.kind = "sphere" THEN OffAxis(P, cP, cQ) <= 1
  ELSE IF Q.kind = "cylinder" /\ P.kind = "sphere" THEN OffAxis(Q, cQ, cP) <= 1
  ELSE /\ (P.kind = "ellipsoid" => Q.kind = "sphere") /\ (Q.kind = "ellipsoid" => P.kind = "sphere")
       /\ PosAxes(P, cP, Q, cQ) # {}
       /\ \A j \in Axes : j \in PosAxes(P, cP, Q, cQ) \/ cQ[j] = cP[j]
       \* these pairs go through the general convex collider: penetration depth comes from the expanding-polytope
       \* approximation, whose accuracy is not this property's subject; separated configurations only
       /\ \A k \in PosAxes(P, cP, Q, cQ) : Gap(P, cP, Q, cQ, k) - P.r - Q.r > 0
\* the axis of the normal
NAxis(P, cP, Q, cQ) ==
  IF ~Solid(P) \/ ~Solid(Q) THEN 3
  ELSE IF PosAxes(P, cP, Q, cQ) # {} THEN CHOOSE k \in PosAxes(P, cP, Q, cQ) : TRUE
  ELSE CHOOSE k \in MaxAxes(P, cP, Q, cQ) : TRUE
\* signed distance in quarter units
Dist(P, cP, Q, cQ) ==
  IF ~Solid(P) THEN (cQ[3] - cP[3]) - Q.h[3] - Q.r
  ELSE IF ~Solid(Q) THEN (cP[3] - cQ[3]) - P.h[3] - P.r
  ELSE Gap(P, cP, Q, cQ, NAxis(P, cP, Q, cQ)) - P.r - Q.r
\* sign of the normal along NAxis, pointing from P to Q
NSign(P, cP, Q, cQ) ==
  IF ~Solid(P) THEN 1 ELSE IF ~Solid(Q) THEN -1 ELSE Sgn(cQ[NAxis(P, cP, Q, cQ)] - cP[NAxis(P, cP, Q, cQ)])
\* the facing surfaces along the normal axis: <<surface of P, surface of Q>>
Surf(P, cP, Q, cQ) ==
  LET k == NAxis(P, cP, Q, cQ)  s == NSign(P, cP, Q, cQ) IN
  << IF Solid(P) THEN cP[k] + s * (P.h[k] + P.r) ELSE cP[3],
     IF Solid(Q) THEN cQ[k] - s * (Q.h[k] + Q.r) ELSE cQ[3] >>
Decidable(P, cP, Q, cQ, m) ==
  /\ (Solid(P) \/ Solid(Q))
  /\ (IF Solid(P) /\ Solid(Q) THEN RoundOK(P, cP, Q, cQ) ELSE TRUE)
  /\ (IF Solid(P) /\ Solid(Q)
      THEN IF PosAxes(P, cP, Q, cQ) # {}
           THEN Cardinality(PosAxes(P, cP, Q, cQ)) = 1
           ELSE /\ OverlapOK(P, Q) /\ Cardinality(MaxAxes(P, cP, Q, cQ)) = 1
                /\ cQ[NAxis(P, cP, Q, cQ)] # cP[NAxis(P, cP, Q, cQ)]
                /\ MaxGap(P, cP, Q, cQ) < 0
      ELSE TRUE)
  /\ Dist(P, cP, Q, cQ) # m
\* where the nearest points can lie: along the normal axis between the facing surfaces, along the other axes inside
\* the core extents of both geoms; <<lo1, hi1, lo2, hi2, lo3, hi3>>
Lo2(a, b) == IF a < b THEN a ELSE b
Hi2(a, b) == IF a < b THEN b ELSE a
Region(P, cP, Q, cQ) ==
  LET k == NAxis(P, cP, Q, cQ)  sf == Surf(P, cP, Q, cQ)
      lo(j) == IF j = k THEN Lo2(sf[1], sf[2])
               ELSE IF ~Solid(P) THEN cQ[j] - Q.h[j] ELSE IF ~Solid(Q) THEN cP[j] - P.h[j]
               ELSE Hi2(cP[j] - P.h[j], cQ[j] - Q.h[j])
      hi(j) == IF j = k THEN Hi2(sf[1], sf[2])
               ELSE IF ~Solid(P) THEN cQ[j] + Q.h[j] ELSE IF ~Solid(Q) THEN cP[j] + P.h[j]
               ELSE Lo2(cP[j] + P.h[j], cQ[j] + Q.h[j])
  IN <<lo(1), hi(1), lo(2), hi(2), lo(3), hi(3)>>
Origin == <<0, 0, 0>>
FirstIsA == Rank(A) <= Rank(B)

\* ---- actions -----------------------------------------------------------------------------------------
Init == /\ A = [kind |-> "none"] /\ B = [kind |-> "none"] /\ margin = 0 /\ cB = Origin /\ phase = "pickA"
        /\ nops = 0 /\ ev = [op |-> "init"]
PickA(s) == /\ phase = "pickA" /\ A' = s /\ phase' = "pickB" /\ ev' = [op |-> "A"] /\ UNCHANGED <<B, margin, cB, nops>>
PickB(s) == /\ phase = "pickB" /\ B' = s /\ phase' = "pickM" /\ ev' = [op |-> "B"] /\ UNCHANGED <<A, margin, cB, nops>>
PickM(m) == /\ phase = "pickM" /\ margin' = m /\ phase' = "place" /\ ev' = [op |-> "compile"] /\ UNCHANGED <<A, B, cB, nops>>
\* qpos of B's three slide joints, then mj_forward
Place(c) ==
  /\ phase \in {"place", "d2"} /\ nops < MaxOps /\ nops' = nops + 1
  /\ Decidable(A, Origin, B, c, margin) = TRUE
  /\ cB' = c /\ phase' = "ready"
  /\ ev' = [op |-> "forward",
            reported |-> Dist(A, Origin, B, c) < margin,
            dist |-> Dist(A, Origin, B, c),
            axis |-> NAxis(A, Origin, B, c),
            \* from the first geom of the contact to the second
            sign |-> IF Rank(A) <= Rank(B) THEN NSign(A, Origin, B, c) ELSE 0 - NSign(A, Origin, B, c),
            firstA |-> Rank(A) <= Rank(B),
            deep |-> Solid(A) /\ PosAxes(A, Origin, B, c) = {},      \* cores overlap (sphere centre inside, box in box)
            surf |-> Surf(A, Origin, B, c),
            region |-> Region(A, Origin, B, c),
            c |-> c]
  /\ UNCHANGED <<A, B, margin>>
\* mj_geomDistance in both argument orders
GeomDist(ab) ==
  /\ phase = (IF ab THEN "ready" ELSE "d1") /\ phase' = (IF ab THEN "d1" ELSE "d2")
  /\ ev' = [op |-> "gdist", ab |-> ab, c |-> cB, deep |-> Solid(A) /\ PosAxes(A, Origin, B, cB) = {},
            dist |-> IF ab THEN Dist(A, Origin, B, cB) ELSE Dist(B, cB, A, Origin)]
  /\ UNCHANGED <<A, B, margin, cB, nops>>
Next == \/ \E s \in ShapesA : PickA(s)
        \/ \E s \in ShapesB : PickB(s)
        \/ \E m \in Margins : PickM(m)
        \/ \E c \in Centers : Place(c)
        \/ \E ab \in BOOLEAN : GeomDist(ab)
Spec == Init /\ [][Next]_vars

\* ---- properties ----------------------------------------------------------------------------------------
Placed == phase \in {"ready", "d1", "d2"}
\* the distance function is symmetric, the normal antisymmetric
Symmetric == Placed => /\ Dist(A, Origin, B, cB) = Dist(B, cB, A, Origin)
                       /\ NAxis(A, Origin, B, cB) = NAxis(B, cB, A, Origin)
                       /\ NSign(A, Origin, B, cB) = 0 - NSign(B, cB, A, Origin)
                       /\ Decidable(B, cB, A, Origin, margin)
\* a contact is reported exactly below the margin (the margin itself is off the lattice)
ReportIff == ev.op = "forward" => (ev.reported <=> ev.dist < margin) /\ ev.dist # margin
\* the normal is a unit coordinate vector; the distance is the (signed) separation of the facing surfaces, measured
\* along the normal from the first to the second geom
SurfaceGap == ev.op = "forward" =>
                /\ ev.sign \in {-1, 1}
                /\ (IF ev.firstA THEN ev.sign * (ev.surf[2] - ev.surf[1]) ELSE ev.sign * (ev.surf[1] - ev.surf[2])) = ev.dist
\* the region of the nearest points is not empty
RegionNonEmpty == ev.op = "forward" => /\ ev.region[1] <= ev.region[2] /\ ev.region[3] <= ev.region[4]
                                       /\ ev.region[5] <= ev.region[6]
\* mj_geomDistance agrees with the contact distance in both orders
GeomDistAgrees == ev.op = "gdist" => ev.dist = Dist(A, Origin, B, cB)
\* negative control (ContactLattice_Neg.cfg): "geoms that are reported never penetrate" is false
NegNoPenetration == ev.op = "forward" /\ ev.reported => ev.dist >= 0

\* ---- constants for the configurations (quarter units) ----------------------------------------------------
Sphere(r) == [kind |-> "sphere", h |-> <<0, 0, 0>>, r |-> r, ax |-> 0]
Capsule(a, r, l) == [kind |-> "capsule", h |-> [k \in 1..3 |-> IF k = a THEN l ELSE 0], r |-> r, ax |-> a]
Box(x, y, z) == [kind |-> "box", h |-> <<x, y, z>>, r |-> 0, ax |-> 0]
Plane == [kind |-> "plane", h |-> <<0, 0, 0>>, r |-> 0, ax |-> 0]
Cylinder(a, rho, hh) == [kind |-> "cylinder", h |-> [k \in 1..3 |-> IF k = a THEN hh ELSE rho], r |-> 0, ax |-> a]
Ellipsoid(x, y, z) == [kind |-> "ellipsoid", h |-> <<x, y, z>>, r |-> 0, ax |-> 0]
MC_ShapesA == {Plane, Sphere(4), Capsule(3, 2, 4), Capsule(1, 2, 4), Capsule(2, 4, 2), Box(4, 2, 6), Box(2, 2, 2),
               Cylinder(3, 4, 6), Cylinder(1, 2, 4), Ellipsoid(2, 4, 6)}
MC_ShapesB == {Sphere(2), Sphere(6), Capsule(3, 2, 2), Capsule(1, 2, 4), Box(2, 4, 2), Box(6, 2, 4),
               Cylinder(3, 2, 2), Cylinder(2, 4, 2), Ellipsoid(4, 2, 2)}
MC_Centers == {<<x, y, z>> : x \in {-11, -7, -3, 0, 1, 5, 9}, y \in {0, 2}, z \in {-12, -9, -5, -1, 0, 3, 5, 7, 11}}
MC_Margins == {0, 2}
Deep_ShapesA == {Plane, Sphere(2), Sphere(4), Capsule(3, 2, 4), Capsule(1, 2, 4), Capsule(2, 4, 2), Box(4, 2, 6), Box(2, 2, 2),
                 Cylinder(3, 4, 6), Cylinder(1, 2, 4), Cylinder(2, 6, 2), Ellipsoid(2, 4, 6)}
Deep_ShapesB == {Sphere(2), Sphere(6), Capsule(3, 2, 2), Capsule(1, 2, 4), Capsule(2, 2, 6), Box(2, 4, 2), Box(6, 2, 4),
                 Cylinder(3, 2, 2), Cylinder(2, 4, 2), Cylinder(1, 6, 4), Ellipsoid(4, 2, 2)}
Deep_Centers == {<<x, y, z>> : x \in {-14, -11, -3, 0, 1, 2, 9, 13}, y \in {-9, 0, 1, 10}, z \in {-12, -7, -1, 0, 3, 5, 11, 15}}
Deep_Margins == {0, 2, 5}
=============================================================================
