---------------------------- MODULE SmoothFwdInv ----------------------------
\* Forward and inverse dynamics agree (C09), on top of the lattice models of SmoothLattice.tla.
\*   src/engine/engine_forward.c  : mj_forward, mj_Euler, mj_implicit (discrete-time accelerations)
\*   src/engine/engine_inverse.c  : mj_inverse, mj_discreteAcc (invdiscrete), mj_invConstraint
\*   src/engine/engine_core_constraint.c : one-row instances of mj_makeImpedance / mj_referenceConstraint / mj_constraintUpdate
\*
\* After a lattice model is finished (stage = "done") ONE scenario is played, one action per API call:
\*   PickFree / PickRow   choose the scenario
\*   Forward              mj_forward : acceleration, constraint force
\*   Step                 mj_step    : discrete acceleration (qvel' - qvel) / h of the chosen integrator
\*   Inverse              mj_inverse : at the forward (or, with invdiscrete, the discrete) acceleration
\*   Publish              ev-like record `fi` for the replay
\*
\* FREE scenarios (any tree, no constraint row).  The acceleration a (integers, B[b].a) is chosen first and the
\* generalized force that produces it is defined from it:   total = (M + h K) a + bias - passive ,
\*   K = 0                                  continuous time ("cont"), and Euler when its implicit damping is off
\*   K = diag(joint damping)                Euler with eulerdamp and damper enabled and some joint damping > 0
\*   K = D                                  implicitfast : D = - d passive / d v  (0 when the damper flag is disabled)
\*   K = D + d bias / d v                   implicit     : the bias is quadratic in v, so the central difference of the
\*                                          lattice (biasP - biasM) / 2 is its exact derivative
\* total is split into qfrc_applied + J' xfrc_applied + qfrc_actuator (a motor; zero when actuation is disabled).
\* Forward dynamics must return a (cont) / the integrator must produce the discrete acceleration a (disc), and inverse
\* dynamics at that acceleration must return `total`.
\*
\* ROW scenarios (one body, one dof, exactly one constraint row: joint limit, friction loss, joint equality,
\* frictionless sphere-plane contact).  Rational arithmetic <<num, den>>.  With impedance d (flat solimp), A = 1/M,
\* R = (1-d)/d A, aref = -B J v - K d r,  the documented optimum is  f = proj((aref - J a0) / (R + A)),  proj = identity
\* (equality), max(0, .) (limit, contact), clip to [-floss, floss] (friction loss);  qacc = a0 + J f / M.
\* Inverse: f_inv = proj(-(J a - aref) / R) and qfrc_inverse = M a + bias - passive - J f_inv.
EXTENDS SmoothLattice

CONSTANTS Modes,        \* subset of {"cont", "euler", "implicit", "implicitfast"}; all but "cont" use invdiscrete
          XDis,         \* sets of further disabled flags, subsets of {"eulerdamp", "actuation", "island"}
          HDens,        \* timestep = 1 / HDen
          Motors,       \* <<gear, ctrl>> of a motor on the first dof (<<0, 0>> : no actuator)
          XFrcs,        \* <<force, torque>> applied to the last body (xfrc_applied)
          RowKinds,     \* subset of {"none", "limit", "friction", "equality", "contact"}
          Taus,         \* qfrc_applied of row scenarios
          SolRefs,      \* <<"direct", k0, b0>> (solref = -k0 -b0)  |  <<"standard", tcNum, tcDen, dampratio>>
          Imps,         \* impedance d = <<num, den>> (solimp = d d ...)
          Gaps,         \* limit / contact: signed distance r (row active iff r < 0); equality: position error
          Flosses,      \* friction loss
          Solvers,      \* implementation options the result must not depend on: 0 PGS, 1 CG, 2 Newton
          Cones,        \* 0 pyramidal, 1 elliptic
          Jacobians,    \* 0 dense, 1 sparse
          DiagExact     \* subset of BOOLEAN: mjENBL_DIAGEXACT

VARIABLES st2,  \* "idle" | "fwd" | "step" | "inv" | "pub" | "end"
          fi    \* the scenario and its results
allvars == <<vars, st2, fi>>

\* ------------------------------------------------------------------------------------------------
\* exact rationals: <<num, den>>, den > 0, lowest terms
\* ------------------------------------------------------------------------------------------------
RECURSIVE GCD(_, _)
GCD(a, b) == IF b = 0 THEN a ELSE GCD(b, a % b)
Rt(p, q)  == LET g == GCD(IAbs(p), IAbs(q)) IN
             IF q < 0 THEN <<(0 - p) \div g, (0 - q) \div g>> ELSE <<p \div g, q \div g>>
RI(i)     == <<i, 1>>
RAdd(x, y) == Rt(x[1] * y[2] + y[1] * x[2], x[2] * y[2])
RSub(x, y) == Rt(x[1] * y[2] - y[1] * x[2], x[2] * y[2])
RMul(x, y) == Rt(x[1] * y[1], x[2] * y[2])
RDiv(x, y) == Rt(x[1] * y[2], x[2] * y[1])                       \* y # 0
RNeg(x)    == <<0 - x[1], x[2]>>
RLess(x, y) == x[1] * y[2] < y[1] * x[2]
RMax(x, y) == IF RLess(x, y) THEN y ELSE x
RMin(x, y) == IF RLess(x, y) THEN x ELSE y
RZero == <<0, 1>>

\* ------------------------------------------------------------------------------------------------
FInit == Init /\ st2 = "idle" /\ fi = [op |-> "none"]
BaseNext == Next /\ UNCHANGED <<st2, fi>>

XD(x) == x \in fi.xdis
DamperEnabled == ~Dis("damper")
\* joint damping only (what Euler integrates implicitly) and the full damping matrix D = - d passive / d v
JointDamp == [i \in 1..n |-> [j \in 1..n |-> IF i = j /\ HasJ(i) THEN B[i].damp ELSE 0]]
FullDamp  == [i \in 1..n |-> [j \in 1..n |-> (IF i = j /\ HasJ(i) THEN B[i].damp ELSE 0) + glob.tdamp * B[i].tc * B[j].tc]]
ZeroNN    == [i \in 1..n |-> [j \in 1..n |-> 0]]
EulerImplicit == ~XD("eulerdamp") /\ DamperEnabled /\ \E i \in 1..n : HasJ(i) /\ B[i].damp > 0
\* twice the damping part of K, and twice d bias / d v  (kept doubled: the central difference is an even number)
K2damp(mode) == LET D == IF mode = "euler" THEN (IF EulerImplicit THEN JointDamp ELSE ZeroNN)
                         ELSE IF mode = "cont" THEN ZeroNN
                         ELSE (IF DamperEnabled THEN FullDamp ELSE ZeroNN)
                IN [i \in 1..n |-> [j \in 1..n |-> 2 * D[i][j]]]
K2bias(mode) == [i \in 1..n |-> [j \in 1..n |-> IF mode = "implicit" /\ HasJ(i) /\ HasJ(j)
                                                THEN dyn.biasP[j][i] - dyn.biasM[j][i] ELSE 0]]
K2(mode) == [i \in 1..n |-> [j \in 1..n |-> K2damp(mode)[i][j] + K2bias(mode)[i][j]]]

\* ------------------------------------------------------------------------------------------------
\* FREE scenario
\* ------------------------------------------------------------------------------------------------
LastBody == n
FirstDof == Dofs[1]
PickFree(mode, xdis, hden, motor, xf, solver, cone, jac) ==
  /\ st2 = "idle" /\ nv >= 1
  /\ fi' = [op |-> "free", mode |-> mode, xdis |-> xdis, hden |-> hden, motor |-> motor, xf |-> xf,
            solver |-> solver, cone |-> cone, jac |-> jac, kind |-> "none"]
  /\ st2' = "fwd"
  /\ UNCHANGED vars

\* numerators over Den = 2 * hden of the A part; the B part (unit u = quarter turn, hinge springs) separately
Den == 2 * fi.hden
ActForce(i) == IF i = FirstDof /\ ~XD("actuation") THEN fi.motor[1] * fi.motor[2] ELSE 0
XfForce(i)  == Dot(JP(LastBody, kin[LastBody].c, i), fi.xf[1]) + Dot(JR(LastBody, i), fi.xf[2])
FreeTotalNum == LET K == K2(fi.mode)  Ma == MatVecN(mass.M, AOf)  Ka == MatVecN(K, AOf) IN
  [i \in 1..n |-> IF HasJ(i) THEN Den * (Ma[i] + dyn.bias[i] - pas.totA[i]) + Ka[i] ELSE 0]
ForwardFree ==
  /\ st2 = "fwd" /\ fi.op = "free"
  /\ LET tot == FreeTotalNum IN
     fi' = fi @@ [den |-> Den, totalNum |-> tot, totalB |-> [i \in 1..n |-> 0 - pas.totB[i]],
                  appliedNum |-> [i \in 1..n |-> IF HasJ(i) THEN tot[i] - Den * (ActForce(i) + XfForce(i)) ELSE 0],
                  act |-> [i \in 1..n |-> ActForce(i)], xfq |-> [i \in 1..n |-> XfForce(i)],
                  qacc |-> AOf]                                  \* the acceleration the force was built for
  /\ st2' = "step"
  /\ UNCHANGED vars
StepFree ==
  /\ st2 = "step" /\ fi.op = "free"
  /\ fi' = fi @@ [adisc |-> AOf, k2m |-> K2(fi.mode)]
  /\ st2' = "inv"
  /\ UNCHANGED vars
\* inverse dynamics by definition: the force that makes the (discrete) integrator produce this acceleration
InverseFree ==
  /\ st2 = "inv" /\ fi.op = "free"
  /\ LET Ma == MatVecN(mass.M, fi.adisc)  Ka == MatVecN(fi.k2m, fi.adisc) IN
     fi' = fi @@ [invNum |-> [i \in 1..n |-> IF HasJ(i) THEN Den * (Ma[i] + dyn.bias[i] - pas.totA[i]) + Ka[i] ELSE 0],
                  invB |-> [i \in 1..n |-> 0 - pas.totB[i]]]
  /\ st2' = "pub"
  /\ UNCHANGED vars

\* ------------------------------------------------------------------------------------------------
\* ROW scenario: one body with one dof
\* ------------------------------------------------------------------------------------------------
RowOK(kind) == /\ n = 1 /\ nv = 1 /\ pas.totB[1] = 0
               /\ (kind \in {"limit", "equality"} => IsS(1))
               /\ (kind = "contact" => IsS(1) /\ IAbs(B[1].ax) = 3 /\ B[1].rot[2] % 4 = 0)
RefSafe(solref, hden) == solref[1] = "standard" => 2 * solref[3] <= solref[2] * hden       \* refsafe: timeconst >= 2 h
PickRow(kind0, mode, xdis, hden, tau, solref0, imp, gap, floss, solver, cone, jac, dx0) ==
  \* random mode: a choice that does not apply is replaced by one that does (friction loss, direct solref)
  LET kind   == IF Rand /\ ~RowOK(kind0) THEN "friction" ELSE kind0
      solref == IF Rand /\ ~RefSafe(solref0, hden) THEN <<"direct", 4, 2>> ELSE solref0
      dx     == IF Rand /\ kind = "contact" THEN TRUE ELSE dx0 IN
  /\ st2 = "idle" /\ RowOK(kind)
  /\ (kind = "contact" => dx)                                   \* the contact row needs the exact diagonal (see header)
  /\ RefSafe(solref, hden)
  /\ (~Rand /\ kind = "friction") => gap = CHOOSE g \in Gaps : TRUE        \* unused choices are not enumerated twice
  /\ (~Rand /\ kind # "friction") => floss = CHOOSE g \in Flosses : TRUE
  /\ fi' = [op |-> "row", kind |-> kind, mode |-> mode, xdis |-> xdis, hden |-> hden, tau |-> tau, solref |-> solref,
            imp |-> imp, gap |-> IF kind = "friction" THEN 0 ELSE gap, floss |-> IF kind = "friction" THEN floss ELSE 0,
            solver |-> solver, cone |-> cone, jac |-> jac, diagexact |-> dx, motor |-> <<0, 0>>]
  /\ st2' = "fwd"
  /\ UNCHANGED vars

Mm == mass.M[1][1]
\* row Jacobian: limit rows are instantiated for the lower limit (J = +1); contact normal is +z
RowJ == IF fi.kind = "contact" THEN (IF B[1].ax > 0 THEN 1 ELSE -1) ELSE 1
RowActive == fi.kind \in {"friction", "equality"} \/ fi.gap < 0
KofRef(sr, d) == IF sr[1] = "direct" THEN RDiv(RI(sr[2]), RMul(d, d))
                 ELSE RDiv(RI(1), RMul(RMul(d, d), RMul(RMul(Rt(sr[2], sr[3]), Rt(sr[2], sr[3])), RI(sr[4] * sr[4]))))
BofRef(sr, d) == IF sr[1] = "direct" THEN RDiv(RI(sr[3]), d)
                 ELSE RDiv(RI(2), RMul(d, Rt(sr[2], sr[3])))
RowA    == Rt(1, Mm)
RowR    == RMul(RDiv(RSub(RI(1), fi.imp), fi.imp), RowA)
RowKc   == IF fi.kind = "friction" THEN RZero ELSE KofRef(fi.solref, fi.imp)
RowAref == RSub(RNeg(RMul(BofRef(fi.solref, fi.imp), RI(RowJ * B[1].v))), RMul(RMul(RowKc, fi.imp), RI(fi.gap)))
Proj(x) == IF fi.kind = "equality" THEN x
           ELSE IF fi.kind = "friction" THEN RMax(RI(0 - fi.floss), RMin(RI(fi.floss), x))
           ELSE RMax(RZero, x)
RowSmooth == fi.tau + pas.totA[1] - dyn.bias[1]                    \* qfrc_smooth (integer)
ForwardRow ==
  /\ st2 = "fwd" /\ fi.op = "row"
  /\ LET a0 == Rt(RowSmooth, Mm)
         f  == IF RowActive THEN Proj(RDiv(RSub(RowAref, RMul(RI(RowJ), a0)), RAdd(RowR, RowA))) ELSE RZero
     IN fi' = fi @@ [active |-> RowActive, J |-> RowJ, a0 |-> a0, aref |-> RowAref, R |-> RowR, force |-> f,
                     qacc |-> RAdd(a0, RMul(RI(RowJ), RDiv(f, RI(Mm))))]
  /\ st2' = "step"
  /\ UNCHANGED vars
\* discrete acceleration: (M + h K) a_disc = qfrc_smooth + J f
RowK2 == K2(fi.mode)[1][1]
RowMh == RAdd(RI(Mm), Rt(RowK2, 2 * fi.hden))
StepRow ==
  /\ st2 = "step" /\ fi.op = "row"
  /\ fi' = fi @@ [adisc |-> IF fi.mode = "cont" THEN fi.qacc
                            ELSE RDiv(RAdd(RI(RowSmooth), RMul(RI(fi.J), fi.force)), RowMh)]
  /\ st2' = "inv"
  /\ UNCHANGED vars
InverseRow ==
  /\ st2 = "inv" /\ fi.op = "row"
  /\ LET ac   == RDiv(RMul(RowMh, fi.adisc), RI(Mm))               \* continuous acceleration the integrator maps to adisc
         jar  == RSub(RMul(RI(fi.J), ac), fi.aref)
         finv == IF fi.active THEN Proj(RNeg(RDiv(jar, fi.R))) ELSE RZero
     IN fi' = fi @@ [finv |-> finv,
                     inv  |-> RSub(RAdd(RMul(RI(Mm), ac), RI(dyn.bias[1] - pas.totA[1])), RMul(RI(fi.J), finv))]
  /\ st2' = "pub"
  /\ UNCHANGED vars

Publish ==
  /\ st2 = "pub"
  /\ fi' = fi @@ [pub |-> TRUE]
  /\ st2' = "end"
  /\ UNCHANGED vars

DoPickFree == stage = "done" /\ "none" \in RowKinds /\
              \E mode \in Pick(Modes), xdis \in Pick(XDis), hden \in Pick(HDens), motor \in Pick(Motors), xf \in Pick(XFrcs),
                 solver \in Pick(Solvers), cone \in Pick(Cones), jac \in Pick(Jacobians) :
                 PickFree(mode, xdis, hden, motor, xf, solver, cone, jac)
DoPickRow  == stage = "done" /\
              \E kind \in Pick(RowKinds \ {"none"}), mode \in Pick(Modes), xdis \in Pick(XDis), hden \in Pick(HDens), tau \in Pick(Taus),
                 solref \in Pick(SolRefs), imp \in Pick(Imps), gap \in Pick(Gaps), floss \in Pick(Flosses),
                 solver \in Pick(Solvers), cone \in Pick(Cones), jac \in Pick(Jacobians), dx \in Pick(DiagExact) :
                 PickRow(kind, mode, xdis, hden, tau, solref, imp, gap, floss, solver, cone, jac, dx)
FNext == \/ BaseNext
         \/ (RowKinds # {"none"} /\ DoPickRow) \/ DoPickFree
         \/ ForwardFree \/ StepFree \/ InverseFree
         \/ ForwardRow \/ StepRow \/ InverseRow
         \/ Publish
FSpec == FInit /\ [][FNext]_allvars

\* ================================================================================================
\* PROPERTIES
\* ================================================================================================
Ended == st2 = "end"
FTypeOK == st2 \in {"idle", "fwd", "step", "inv", "pub", "end"} /\ (st2 # "idle" => stage = "done")
\* inverse dynamics at the forward (discrete) acceleration returns the applied force
InverseRecoversApplied ==
  Ended => IF fi.op = "free" THEN fi.invNum = fi.totalNum /\ fi.invB = fi.totalB
           ELSE fi.inv = RI(fi.tau)
\* ... and the forward constraint force
InverseRecoversForce == (Ended /\ fi.op = "row") => fi.finv = fi.force
\* the split of the total force: qfrc_applied + J'xfrc + qfrc_actuator = total
SplitAddsUp == (Ended /\ fi.op = "free") =>
                 \A i \in 1..n : fi.appliedNum[i] + fi.den * (fi.act[i] + fi.xfq[i]) = fi.totalNum[i]
\* the constraint force is admissible and the acceleration satisfies the equation of motion
RowAdmissible == (Ended /\ fi.op = "row") =>
                   /\ (fi.kind \in {"limit", "contact"} => ~RLess(fi.force, RZero))
                   /\ (fi.kind = "friction" => ~RLess(RI(fi.floss), fi.force) /\ ~RLess(fi.force, RI(0 - fi.floss)))
                   /\ (~fi.active => fi.force = RZero)
                   /\ RMul(RI(Mm), fi.qacc) = RAdd(RI(RowSmooth), RMul(RI(fi.J), fi.force))
\* discrete time collapses to continuous time exactly when nothing is integrated implicitly
DiscreteIsContinuousWithoutImplicitTerms ==
  Ended => ((fi.op = "free" /\ \A i, j \in 1..n : fi.k2m[i][j] = 0)
               => fi.totalNum = [i \in 1..n |-> IF HasJ(i) THEN fi.den * (MatVecN(mass.M, AOf)[i] + dyn.bias[i] - pas.totA[i]) ELSE 0])
\* the disable flags remove the implicit damping: damper disabled => no damping in K (any integrator);
\* eulerdamp disabled => Euler is explicit
FlagsRemoveImplicitDamping ==
  (Ended /\ fi.op = "free") =>
     /\ (Dis("damper") => \A i, j \in 1..n : K2damp(fi.mode)[i][j] = 0)
     /\ ((fi.mode = "euler" /\ "eulerdamp" \in fi.xdis) => \A i, j \in 1..n : fi.k2m[i][j] = 0)
     /\ (fi.mode = "cont" => \A i, j \in 1..n : fi.k2m[i][j] = 0)
\* implicit and implicitfast differ only by the velocity derivative of the bias force, which vanishes for slide-only trees
ImplicitFastDropsBiasDerivativeOnly ==
  (Ended /\ fi.op = "free" /\ fi.mode = "implicit") =>
     ((\A b \in 1..n : ~IsH(b)) => fi.k2m = K2damp("implicitfast"))

\* deliberately FALSE claim (negative control of the model checking): "discrete time never differs from continuous time"
NegDiscreteIsContinuous ==
  (Ended /\ fi.op = "free") =>
     fi.totalNum = [i \in 1..n |-> IF HasJ(i) THEN fi.den * (MatVecN(mass.M, AOf)[i] + dyn.bias[i] - pas.totA[i]) ELSE 0]

\* ---- constants of the configurations ----
F_ModesAll == {"cont", "euler", "implicit", "implicitfast"}
F_ModesCont == {"cont"}
F_XDis == {{}, {"eulerdamp"}}
F_XDisAll == {{}, {"eulerdamp"}, {"actuation"}, {"eulerdamp", "actuation"}, {"island"}, {"eulerdamp", "island"}}
F_XDisRow == {{}, {"eulerdamp"}, {"island"}, {"eulerdamp", "island"}}
F_Jac0 == {0}
F_Jacs == {0, 1}
F_H4 == {4}
F_H == {4, 2, 8}
F_Motor0 == {<<0, 0>>}
F_Motors == {<<0, 0>>, <<2, 3>>, <<-1, 2>>}
F_XF0 == {<<<<0, 0, 0>>, <<0, 0, 0>>>>}
F_XFs == {<<<<0, 0, 0>>, <<0, 0, 0>>>>, <<<<1, -2, 3>>, <<0, 0, 0>>>>, <<<<0, 2, 0>>, <<1, 0, -1>>>>}
F_None == {"none"}
F_Rows == {"limit", "friction", "equality", "contact"}
F_RowsAll == {"none", "limit", "friction", "equality", "contact"}
F_Tau0 == {0}
F_Taus1 == {3}
F_Taus == {-5, 0, 3, 12}
F_SolRef1 == {<<"direct", 4, 2>>}
F_SolRefs == {<<"direct", 4, 2>>, <<"direct", 9, 0>>, <<"standard", 1, 1, 1>>, <<"standard", 1, 2, 2>>}
F_Imp1 == {<<1, 2>>}
F_Imps == {<<1, 2>>, <<3, 4>>, <<9, 10>>}
F_Gaps2 == {-1, 1}
F_Gaps == {-2, -1, 1, 3}
F_Floss1 == {2}
F_Flosses == {1, 2, 20}
F_Newton == {2}
F_Solvers == {0, 1, 2}
F_Cone0 == {0}
F_Cones == {0, 1}
F_DxT == {TRUE}
F_Dx == {TRUE, FALSE}
F_Ax3 == {3, -3}
F_Off5 == {<<0, 0, 5>>}
F_Dis3 == {{}, {"damper"}, {"spring"}}
F_Dis == {{}, {"damper"}, {"spring"}, {"gravity"}, {"damper", "gravity"}}
F_Damp == {0, 1, 2}
F_Damp1 == {1}
F_K == {0, 2}
F_Q == {-1, 0, 1}
F_V == {-2, 0, 1}
F_V1 == {-2}
F_A == {-1, 1, 2}
F_A1 == {1}
=============================================================================
