---------------------------- MODULE ConstraintRows ----------------------------
\* Admissibility of constraint forces after forward dynamics (doc/computation/index.rst, "Dual problem":
\* the constraint set Omega; "Contact": the friction cones K) as a MONITOR over the rows of mjData.efc_*:
\*
\*   Begin      header of one mj_forward result: ne, nf, nl, ncon, nefc, cone type
\*   Row...     one action per constraint row, in efc order; the guard of the action is the admissible set:
\*                equality            no restriction
\*                friction loss       -floss <= f <= floss                                  (AdmFric)
\*                limit, frictionless, pyramid edge     f >= 0                              (AdmUni)
\*                elliptic contact    f_n >= 0  and  f_n^2 >= || f_t / mu ||^2  (within eps) (AdmCone), friction rows free
\*   ContactForce  one per contact: mj_contactForce agrees with the rows it decodes; its normal component is >= 0
\*   End        qfrc_constraint = J' efc_force
\* plus the layout the rows must have (ne equality rows, then nf friction-loss rows, then nl limit rows, then
\* contact blocks of 1 / 2(dim-1) / dim contiguous rows starting at contact.efc_address).
\*
\* Forces enter only through ORDER CLASSES (sign of a force; position of a force relative to +-floss; sign of
\* the cone slack).  Here they are chosen nondeterministically (model checking of the monitor itself: it is
\* well-formed and can always run to End on admissible rows); ConstraintTrace.tla computes them from the order
\* keys of the doubles recorded from the implementation.
EXTENDS Integers, Sequences, FiniteSets, TLC
CONSTANTS MaxEq, MaxFr, MaxLim, MaxCon, Dims      \* bounds for model checking (the trace spec does not use them)

Signs  == {"neg", "zero", "pos"}
Bounds == {"below", "in", "above"}
Slacks == {"in", "out"}
\* ---- the admissible sets, on order classes
AdmFric(b)     == b = "in"
AdmUni(s)      == s # "neg"
AdmCone(s, sl) == s # "neg" /\ sl = "in"

VARIABLES st,        \* "idle" | "rows" | "done"
          hdr,       \* [ne, nf, nl, ncon, nefc, cone]  (cone: 0 pyramidal, 1 elliptic)
          pos,       \* rows consumed
          cur,       \* contact block in progress: [id, left, kind]
          started,   \* contacts whose rows were seen: set of <<id, address, dim>>
          ncdone,    \* contacts whose mj_contactForce was checked
          ev,
          plan       \* model checking only: the contact blocks still to come, <<dim, id>> each (the actions below
                     \* never read it; the trace specification keeps it empty)
mvars == <<st, hdr, pos, cur, started, ncdone, ev>>
vars == <<mvars, plan>>
NoCur == [id |-> -1, left |-> 0, kind |-> "none"]
NoHdr == [ne |-> 0, nf |-> 0, nl |-> 0, ncon |-> 0, nefc |-> 0, cone |-> 0]

MInit == /\ st = "idle" /\ hdr = NoHdr /\ pos = 0 /\ cur = NoCur /\ started = {} /\ ncdone = 0 /\ ev = [op |-> "init"]
Init == MInit /\ plan = << >>

Begin(ne, nf, nl, ncon, nefc, cone) ==
  /\ st = "idle"
  /\ ne >= 0 /\ nf >= 0 /\ nl >= 0 /\ ncon >= 0 /\ cone \in {0, 1}
  /\ nefc >= ne + nf + nl
  /\ (ncon = 0 => nefc = ne + nf + nl)
  /\ hdr' = [ne |-> ne, nf |-> nf, nl |-> nl, ncon |-> ncon, nefc |-> nefc, cone |-> cone]
  /\ st' = "rows" /\ pos' = 0 /\ cur' = NoCur /\ started' = {} /\ ncdone' = 0
  /\ ev' = [op |-> "begin"]

Base == hdr.ne + hdr.nf + hdr.nl
Advance(what) == pos' = pos + 1 /\ ev' = [op |-> what, i |-> pos] /\ UNCHANGED <<st, hdr, ncdone>>
InRows == st = "rows" /\ pos < hdr.nefc
FreshId(id) == id >= 0 /\ id < hdr.ncon /\ \A c \in started : c[1] < id          \* contact ids ascend

RowEq(ty, s) ==
  /\ InRows /\ pos < hdr.ne /\ ty = 0 /\ s \in Signs
  /\ Advance("eq") /\ UNCHANGED <<cur, started>>
RowFric(ty, b) ==
  /\ InRows /\ pos >= hdr.ne /\ pos < hdr.ne + hdr.nf /\ ty \in {1, 2}
  /\ AdmFric(b)
  /\ Advance("fric") /\ UNCHANGED <<cur, started>>
RowLimit(ty, s) ==
  /\ InRows /\ pos >= hdr.ne + hdr.nf /\ pos < Base /\ ty \in {3, 4}
  /\ AdmUni(s)
  /\ Advance("limit") /\ UNCHANGED <<cur, started>>
RowFrictionless(ty, id, dim, adr, s) ==
  /\ InRows /\ pos >= Base /\ cur.left = 0 /\ ty = 5 /\ dim = 1 /\ adr = pos /\ FreshId(id)
  /\ AdmUni(s)
  /\ started' = started \cup {<<id, pos, dim>>}
  /\ Advance("frictionless") /\ UNCHANGED cur
RowPyrFirst(ty, id, dim, adr, s) ==
  /\ InRows /\ pos >= Base /\ cur.left = 0 /\ ty = 6 /\ hdr.cone = 0 /\ dim \in {3, 4, 6} /\ adr = pos /\ FreshId(id)
  /\ pos + 2 * (dim - 1) <= hdr.nefc
  /\ AdmUni(s)
  /\ cur' = [id |-> id, left |-> 2 * (dim - 1) - 1, kind |-> "pyr"]
  /\ started' = started \cup {<<id, pos, dim>>}
  /\ Advance("pyramid")
RowPyrNext(ty, id, s) ==
  /\ InRows /\ cur.left > 0 /\ cur.kind = "pyr" /\ ty = 6 /\ id = cur.id
  /\ AdmUni(s)
  /\ cur' = [cur EXCEPT !.left = @ - 1]
  /\ Advance("pyramid") /\ UNCHANGED started
RowEllFirst(ty, id, dim, adr, s, sl) ==
  /\ InRows /\ pos >= Base /\ cur.left = 0 /\ ty = 7 /\ hdr.cone = 1 /\ dim \in {3, 4, 6} /\ adr = pos /\ FreshId(id)
  /\ pos + dim <= hdr.nefc
  /\ AdmCone(s, sl)
  /\ cur' = [id |-> id, left |-> dim - 1, kind |-> "ell"]
  /\ started' = started \cup {<<id, pos, dim>>}
  /\ Advance("elliptic")
RowEllNext(ty, id, s) ==
  /\ InRows /\ cur.left > 0 /\ cur.kind = "ell" /\ ty = 7 /\ id = cur.id /\ s \in Signs
  /\ cur' = [cur EXCEPT !.left = @ - 1]
  /\ Advance("elliptic-friction") /\ UNCHANGED started

RowsComplete == st = "rows" /\ pos = hdr.nefc /\ cur.left = 0
\* mj_contactForce of contact id: cf = 1 iff it equals the decoding of the contact's rows; ns = sign class of its normal
ContactForce(id, dim, adr, cf, ns, adh) ==
  /\ RowsComplete /\ id = ncdone /\ id < hdr.ncon
  /\ IF adr >= 0 THEN <<id, adr, dim>> \in started ELSE \A c \in started : c[1] # id
  /\ cf = 1
  /\ (adr >= 0 /\ adh = 0) => AdmUni(ns)
  /\ ncdone' = ncdone + 1
  /\ ev' = [op |-> "contact", id |-> id]
  /\ UNCHANGED <<st, hdr, pos, cur, started>>
End(resid) ==
  /\ RowsComplete /\ ncdone = hdr.ncon
  /\ resid = 1                                           \* qfrc_constraint = J' efc_force
  /\ st' = "done" /\ ev' = [op |-> "end"]
  /\ UNCHANGED <<hdr, pos, cur, started, ncdone>>
Done == st = "done" /\ UNCHANGED mvars                    \* (terminal stuttering: no deadlock report at the end)

\* ---- nondeterministic environment for model checking the monitor
RowsOfDim(d, cone) == IF d = 1 THEN 1 ELSE IF cone = 0 THEN 2 * (d - 1) ELSE d
RECURSIVE SumRows(_, _)
SumRows(ds, cone) == IF ds = << >> THEN 0 ELSE RowsOfDim(Head(ds), cone) + SumRows(Tail(ds), cone)
DimSeqs == UNION {[1..n -> Dims] : n \in 0..MaxCon}
\* the model checker also varies how many of the ncon detected contacts are excluded (address -1): `skip` ids
\* before the first included contact and `extra` after the last one
MCBegin == st = "idle" /\
           \E ne \in 0..MaxEq, nf \in 0..MaxFr, nl \in 0..MaxLim, cone \in {0, 1}, ds \in DimSeqs, skip \in 0..1, extra \in 0..1 :
             /\ Begin(ne, nf, nl, Len(ds) + skip + extra, ne + nf + nl + SumRows(ds, cone), cone)
             /\ plan' = [k \in 1..Len(ds) |-> <<ds[k], skip + k - 1>>]
NextDim == Head(plan)[1]
NextId  == Head(plan)[2]
MCEq    == (\E s \in Signs : RowEq(0, s)) /\ UNCHANGED plan
MCFric  == (\E ty \in {1, 2}, b \in Bounds : RowFric(ty, b)) /\ UNCHANGED plan
MCLimit == (\E ty \in {3, 4}, s \in Signs : RowLimit(ty, s)) /\ UNCHANGED plan
MCFrictionless == plan # << >> /\ plan' = Tail(plan) /\ \E s \in Signs : RowFrictionless(5, NextId, NextDim, pos, s)
MCPyrFirst == plan # << >> /\ plan' = Tail(plan) /\ \E s \in Signs : RowPyrFirst(6, NextId, NextDim, pos, s)
MCEllFirst == plan # << >> /\ plan' = Tail(plan) /\ \E s \in Signs, sl \in Slacks : RowEllFirst(7, NextId, NextDim, pos, s, sl)
MCPyrNext  == (\E s \in Signs : RowPyrNext(6, cur.id, s)) /\ UNCHANGED plan
MCEllNext  == (\E s \in Signs : RowEllNext(7, cur.id, s)) /\ UNCHANGED plan
MCContactIncluded == (\E c \in started, ns \in Signs : ContactForce(c[1], c[3], c[2], 1, ns, 0)) /\ UNCHANGED plan
MCContactExcluded == (\E dim \in Dims : ContactForce(ncdone, dim, -1, 1, "zero", 0)) /\ UNCHANGED plan
MCEnd  == End(1) /\ UNCHANGED plan
MCDone == Done /\ UNCHANGED plan
MCNext == \/ MCBegin \/ MCEq \/ MCFric \/ MCLimit \/ MCFrictionless \/ MCPyrFirst \/ MCEllFirst \/ MCPyrNext \/ MCEllNext
          \/ MCContactIncluded \/ MCContactExcluded \/ MCEnd \/ MCDone
Spec == Init /\ [][MCNext]_vars

\* ---- properties of the monitor
TypeOK == /\ st \in {"idle", "rows", "done"}
          /\ pos \in 0..hdr.nefc
          /\ cur.left >= 0 /\ cur.left <= 10
          /\ ncdone \in 0..hdr.ncon
          /\ Cardinality(started) <= hdr.ncon
\* contact blocks are contiguous, inside the contact region, and never overlap
BlocksOK ==
  /\ \A c \in started : c[2] >= Base /\ c[2] + RowsOfDim(c[3], hdr.cone) <= hdr.nefc
  /\ \A c \in started, e \in started :
        (c # e) => (c[1] # e[1] /\ (c[2] + RowsOfDim(c[3], hdr.cone) <= e[2] \/ e[2] + RowsOfDim(e[3], hdr.cone) <= c[2]))
  /\ (cur.left > 0 => \E c \in started : c[1] = cur.id /\ pos + cur.left = c[2] + RowsOfDim(c[3], hdr.cone))
\* the region a consumed row belongs to is determined by its index
RegionOK == [][(st = "rows" /\ pos' = pos + 1) =>
                 /\ (ev'.op = "eq" <=> pos < hdr.ne)
                 /\ (ev'.op = "fric" <=> (pos >= hdr.ne /\ pos < hdr.ne + hdr.nf))
                 /\ (ev'.op = "limit" <=> (pos >= hdr.ne + hdr.nf /\ pos < Base))]_vars
\* an accepted result has consumed every row and every contact
DoneOK == st = "done" => (pos = hdr.nefc /\ cur.left = 0 /\ ncdone = hdr.ncon)
\* The monitor never gets stuck on admissible rows: TLC's deadlock check (on by default in the cfg files) - every
\* reachable state has a successor, pos / ncdone only grow, "done" stutters, so every started result completes.
\* negative control: claims that no elliptic block is ever accepted (must be violated)
NoEllipticEver == \A c \in started : hdr.cone = 0
MC_Dims == {1, 3, 4}
MC_Dims6 == {1, 3, 6}
=============================================================================
