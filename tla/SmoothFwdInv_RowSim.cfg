SPECIFICATION FSpec
CONSTANTS
  MinBodies = 1
  MaxBodies = 1
  JTypes <- MovJ
  Axes <- F_Ax3
  Offsets <- F_Off5
  Rots <- R0
  Anchors <- V000
  SitePos <- K_Site1
  SiteRots <- R0
  Masses <- K_Mass
  Inertias <- K_Inr1
  IPoss <- K_IPos1
  Arms <- D_Arm
  Stiffs <- F_K
  Refs <- P_Ref
  Damps <- F_Damp
  GCs <- One0
  TCoefs <- One0
  Qs <- F_Q
  Vs <- F_V
  As <- F_A1
  QScales <- QS1
  Gravs <- K_G
  DisSets <- F_Dis
  TenK <- One0
  TenRanges <- Rng0
  TenDamps <- One0
  TenArms <- One0
  TenZero <- NoTz
  SpPairs <- NoSpS
  SpArms <- One0
  Sleeps <- NoTz
  StiffPolys <- P00
  DampPolys <- P00
  TenKPolys <- P00
  TenDPolys <- P00
  SpStiffs <- T000
  SpRanges <- Rng0
  SpDamps <- T000
  Level = 3
  Tie = FALSE
  Rand = TRUE
  Modes <- F_ModesAll
  XDis <- F_XDisRow
  HDens <- F_H
  Motors <- F_Motor0
  XFrcs <- F_XF0
  RowKinds <- F_Rows
  Taus <- F_Taus
  SolRefs <- F_SolRefs
  Imps <- F_Imps
  Gaps <- F_Gaps
  Flosses <- F_Flosses
  Solvers <- F_Solvers
  Cones <- F_Cones
  Jacobians <- F_Jacs
  DiagExact <- F_Dx
INVARIANT TypeOK
INVARIANT FTypeOK
INVARIANT InverseRecoversApplied
INVARIANT InverseRecoversForce
INVARIANT SplitAddsUp
INVARIANT RowAdmissible
INVARIANT DiscreteIsContinuousWithoutImplicitTerms
INVARIANT FlagsRemoveImplicitDamping
INVARIANT ImplicitFastDropsBiasDerivativeOnly
INVARIANT KaneIsRecursive
INVARIANT MPositiveDefinite
CHECK_DEADLOCK FALSE
