------------------------------- MODULE Scene -------------------------------
\* Abstract-scene construction of MuJoCo's visualizer (src/engine/engine_vis_visualize.c: mjv_updateScene,
\* mjv_addGeoms, acquireGeom / releaseGeom; engine_vis_init.c: mjv_makeScene).
\*
\* A scene is a buffer of `cap` slots (maxgeom), its fill level (ngeom = Len(scene)) and a sticky `status` flag.
\* mjv_addGeoms walks the geom SOURCES of the model in a fixed order (here: the model's geoms, then its sites;
\* every other source is switched off through the visualization flags) and tries to acquire one slot per visible
\* element; the first failed acquisition of a scene sets status (and raises one warning); a source stops at its
\* first failed acquisition, the sources after it are still visited.  mjv_updateScene = clear + mjv_addGeoms.
\* The walk is modelled element by element (one action per visited element) so that "never more than cap slots
\* written" is an invariant of EVERY intermediate state; the result of the walk is compared with the declarative
\* definition  Take(Visible(options), room)  by the invariant Faithful.
\*
\* Visible: element of an enabled group (group index clamped into 0..5), of a category selected by the category
\* mask (static = welded to the world, dynamic = everything else; the static category is dropped when the STATIC
\* flag is off), in model order.
\* Deliberate, named deviation following the code: AlphaSkip - an element whose alpha is 0 takes part in the
\* capacity test (a slot is acquired for it: it can trigger the overflow status) but is not kept in the scene.
\*
\* ev of the action that ends a walk carries what the implementation must report: ngeom, status, whether a warning
\* was raised and the scene content as a sequence of <<kind, id, category>>; world poses and sizes of the
\* elements are given by Poses (a function of the model and the joint position), emitted by the "def" event.
EXTENDS Integers, Sequences, FiniteSets, TLC
CONSTANTS Models,     \* model names explored
          Caps,       \* scene capacities
          GMasks,     \* sets of enabled geom groups
          SMasks,     \* sets of enabled site groups
          Statics,    \* values of the STATIC visualization flag
          CatMasks,   \* category masks (bit 1 static, bit 2 dynamic, bit 4 decor)
          QPos,       \* positions of the slide joint
          Status0,    \* initial values of the status flag (InitMode "all")
          InitMode,   \* "all": any scene/option/state combination is initial;  "one": fresh scene, default options;
                      \* "def": emit the model definitions only
          Ops,        \* enabled environment actions
          MaxOps,
          Bug         \* "none" | "gt": the capacity test is > instead of >= (negative control)

\* ---- small integer linear algebra (row-major 9-tuples) ----------------------------------------------------
I3 == <<1, 0, 0, 0, 1, 0, 0, 0, 1>>
E(M, i, j) == M[3 * (i - 1) + j]
MMul(A, B) == [x \in 1..9 |-> LET i == ((x - 1) \div 3) + 1  j == ((x - 1) % 3) + 1 IN
                 E(A, i, 1) * E(B, 1, j) + E(A, i, 2) * E(B, 2, j) + E(A, i, 3) * E(B, 3, j)]
MV(A, v)   == [i \in 1..3 |-> E(A, i, 1) * v[1] + E(A, i, 2) * v[2] + E(A, i, 3) * v[3]]
VAdd(u, v) == [i \in 1..3 |-> u[i] + v[i]]
VScl(s, v) == [i \in 1..3 |-> s * v[i]]
Skew(a) == <<0, -a[3], a[2],  a[3], 0, -a[1],  -a[2], a[1], 0>>
Cos4(k) == CASE k % 4 = 0 -> 1 [] k % 4 = 1 -> 0 [] k % 4 = 2 -> -1 [] OTHER -> 0
Sin4(k) == CASE k % 4 = 0 -> 0 [] k % 4 = 1 -> 1 [] k % 4 = 2 -> 0 [] OTHER -> -1
\* rotation by k quarter turns about the unit axis a (Rodrigues)
Rot(r) == LET a == r.ax  c == Cos4(r.k)  s == Sin4(r.k) IN
  [x \in 1..9 |-> LET i == ((x - 1) \div 3) + 1  j == ((x - 1) % 3) + 1 IN
      c * I3[x] + s * Skew(a)[x] + (1 - c) * a[i] * a[j]]
NoRot == [ax |-> <<0, 0, 1>>, k |-> 0]
RZ    == [ax |-> <<0, 0, 1>>, k |-> 1]
RX    == [ax |-> <<1, 0, 0>>, k |-> 1]
RY2   == [ax |-> <<0, 1, 0>>, k |-> 2]

\* ---- the models (lengths in quarter units: 4 = 1.0) ----------------------------------------------------------
\* body: parent, position, orientation, joint ("none" | "slide" along the body's z axis), mocap
\* geom / site: body, group, alpha (0 | 1), type, size (the type's own parameters), position, orientation
Body(p, pos, r, j, mc) == [parent |-> p, pos |-> pos, rot |-> r, joint |-> j, mocap |-> mc]
Elem(b, g, a, ty, sz, pos, r) == [body |-> b, group |-> g, alpha |-> a, type |-> ty, size |-> sz, pos |-> pos, rot |-> r]
ModelA == [
  bodies |-> [b1 |-> Body("world", <<4, 0, 8>>, RZ, "slide", FALSE),
              b2 |-> Body("b1", <<0, 4, 0>>, RX, "none", FALSE),
              b3 |-> Body("world", <<-4, 0, 0>>, NoRot, "none", FALSE),
              b4 |-> Body("world", <<0, 12, 0>>, RY2, "none", TRUE)],
  order  |-> <<"b1", "b2", "b3", "b4">>,
  geoms  |-> << Elem("world", 0, 1, "plane", <<8, 8, 1>>, <<0, 0, 0>>, NoRot),
                Elem("world", 1, 1, "box", <<1, 2, 3>>, <<12, 0, 0>>, RX),
                Elem("b1", 0, 1, "sphere", <<2>>, <<0, 0, 4>>, NoRot),
                Elem("b1", 2, 1, "capsule", <<1, 2>>, <<4, 0, 0>>, RX),
                Elem("b2", 1, 0, "cylinder", <<1, 2>>, <<0, 0, 0>>, NoRot),
                Elem("b2", 5, 1, "ellipsoid", <<1, 2, 3>>, <<4, 4, 0>>, RZ),
                Elem("b3", 2, 1, "box", <<2, 2, 2>>, <<0, 0, 4>>, NoRot),
                Elem("b4", 3, 1, "sphere", <<1>>, <<0, 0, 0>>, NoRot) >>,
  sites  |-> << Elem("world", 0, 1, "sphere", <<1>>, <<0, 0, 8>>, NoRot),
                Elem("b1", 3, 1, "box", <<1, 1, 2>>, <<0, 4, 0>>, RZ),
                Elem("b2", 0, 1, "sphere", <<1>>, <<0, 0, 0>>, NoRot) >> ]
\* nothing to draw
ModelB == [bodies |-> [b1 |-> Body("world", <<0, 0, 4>>, NoRot, "slide", FALSE)], order |-> <<"b1">>,
           geoms |-> << Elem("b1", 4, 0, "sphere", <<1>>, <<0, 0, 0>>, NoRot) >>, sites |-> << >>]
\* one dynamic body carrying six geoms of one group, two static sites
ModelC == [bodies |-> [b1 |-> Body("world", <<0, 0, 4>>, RX, "slide", FALSE)], order |-> <<"b1">>,
           geoms |-> [i \in 1..6 |-> Elem("b1", 1, 1, "sphere", <<i>>, <<4 * i, 0, 0>>, NoRot)],
           sites |-> << Elem("world", 1, 1, "sphere", <<1>>, <<0, 0, 0>>, NoRot),
                        Elem("world", 1, 1, "sphere", <<1>>, <<4, 0, 0>>, NoRot) >>]
Def(m) == CASE m = "A" -> ModelA [] m = "B" -> ModelB [] OTHER -> ModelC
NG(m) == Len(Def(m).geoms)
NS(m) == Len(Def(m).sites)

\* a body is static iff it is welded to the world: no joint and no mocap on the way up
RECURSIVE IsStatic(_, _)
IsStatic(m, b) == IF b = "world" THEN TRUE
                  ELSE LET d == Def(m).bodies[b] IN d.joint = "none" /\ ~d.mocap /\ IsStatic(m, d.parent)
\* world frames: child frame = parent frame * (pos, rot); a slide joint then moves the body along its own z axis
RECURSIVE WRot(_, _), WPos(_, _, _)
WRot(m, b) == IF b = "world" THEN I3 ELSE MMul(WRot(m, Def(m).bodies[b].parent), Rot(Def(m).bodies[b].rot))
WPos(m, b, qp) == IF b = "world" THEN <<0, 0, 0>>
                  ELSE LET d == Def(m).bodies[b]
                           base == VAdd(WPos(m, d.parent, qp), MV(WRot(m, d.parent), d.pos))
                       IN IF d.joint = "slide" THEN VAdd(base, VScl(4 * qp, MV(WRot(m, b), <<0, 0, 1>>))) ELSE base
\* what mjv_initGeom writes into the size field
VisSize(e) == CASE e.type = "sphere" -> <<e.size[1], e.size[1], e.size[1]>>
                [] e.type \in {"capsule", "cylinder"} -> <<e.size[1], e.size[1], e.size[2]>>
                [] OTHER -> e.size
ElemPose(m, e, qp) == [pos |-> VAdd(WPos(m, e.body, qp), MV(WRot(m, e.body), e.pos)),
                       mat |-> MMul(WRot(m, e.body), Rot(e.rot)), size |-> VisSize(e), type |-> e.type]
Poses(m, qp) == [geom |-> [i \in 1..NG(m) |-> ElemPose(m, Def(m).geoms[i], qp)],
                 site |-> [i \in 1..NS(m) |-> ElemPose(m, Def(m).sites[i], qp)]]

\* ---- visibility ------------------------------------------------------------------------------------------------
Clamp(g) == IF g < 0 THEN 0 ELSE IF g > 5 THEN 5 ELSE g
Cat(m, e) == IF IsStatic(m, e.body) THEN 1 ELSE 2
\* the category mask after mjv_addGeoms has dropped the static bit when the STATIC flag is off
EffMask(o) == IF o.static THEN o.cat ELSE {c \in o.cat : c # 1}
Seen(m, e, mask, o) == Cat(m, e) \in EffMask(o) /\ Clamp(e.group) \in mask
Source(m, kind) == IF kind = "geom" THEN Def(m).geoms ELSE Def(m).sites
Mask(o, kind) == IF kind = "geom" THEN o.gmask ELSE o.smask
\* declarative definitions: the candidates of one source, in model order
Cands(m, kind, o) == SelectSeq([i \in 1..Len(Source(m, kind)) |-> <<kind, i - 1, Cat(m, Source(m, kind)[i]), Source(m, kind)[i].alpha>>],
                               LAMBDA c : Seen(m, Source(m, kind)[c[2] + 1], Mask(o, kind), o))
\* filling `room` free slots from a candidate list: a slot is needed for every candidate that is looked at, the
\* alpha-0 ones give theirs back; the walk stops at the first candidate that finds no slot
RECURSIVE Fill(_, _)
Fill(cs, room) == IF cs = << >> THEN [kept |-> << >>, over |-> FALSE]
                  ELSE IF room <= 0 THEN [kept |-> << >>, over |-> TRUE]
                  ELSE LET c == Head(cs) IN
                       IF c[4] = 0 THEN Fill(Tail(cs), room)
                       ELSE LET r == Fill(Tail(cs), room - 1) IN [kept |-> <<c>> \o r.kept, over |-> r.over]
Strip(cs) == [i \in 1..Len(cs) |-> <<cs[i][1], cs[i][2], cs[i][3]>>]
\* the result of mjv_addGeoms on a scene that already holds n0 elements
Expect(m, o, cp, n0) ==
  LET g == Fill(Cands(m, "geom", o), cp - n0)
      s == Fill(Cands(m, "site", o), cp - n0 - Len(g.kept))
  IN [items |-> Strip(g.kept) \o Strip(s.kept), over |-> g.over \/ s.over]

Opts == [gmask : GMasks, smask : SMasks, static : Statics, cat : CatMasks]
DefaultOpt == [gmask |-> {0, 1, 2}, smask |-> {0, 1, 2}, static |-> TRUE, cat |-> {1, 2, 4}]

VARIABLES model,     \* name of the loaded model
          cap,       \* scene capacity (maxgeom)
          scene,     \* the filled slots: sequence of <<kind, id, category>>
          status,    \* 0 | 1, sticky
          over,      \* ghost: some acquisition failed since the scene was made
          opt,       \* visualization options
          qp,        \* position of the slide joint
          pc,        \* "idle" | "geom" | "site" | "end"
          idx,       \* next element of the current source (1-based)
          call,      \* the API call in progress: [op, n0 (fill level at its start), warned]
          ev, nops
vars == <<model, cap, scene, status, over, opt, qp, pc, idx, call, ev, nops>>

In == [model |-> model, cap |-> cap, status |-> status, opt |-> opt, qp |-> qp, scene |-> scene]
Idle(name) == pc = "idle" /\ name \in Ops /\ nops < MaxOps

Init ==
  /\ model \in Models
  /\ IF InitMode = "all" THEN cap \in {c \in Caps : c <= NG(model) + NS(model) + 2} /\ opt \in Opts /\ status \in Status0 /\ qp \in QPos
     ELSE cap = NG(model) + NS(model) /\ opt = DefaultOpt /\ status = 0 /\ qp \in QPos
  /\ scene = << >> /\ over = (status = 1) /\ pc = "idle" /\ idx = 0
  /\ call = [op |-> "none", n0 |-> 0, warned |-> FALSE] /\ nops = 0
  /\ ev = IF InitMode = "def"
          THEN [op |-> "def", model |-> model, def |-> Def(model), qp |-> qp, poses |-> Poses(model, qp),
                ng |-> NG(model), ns |-> NS(model),
                cats |-> [geom |-> [i \in 1..NG(model) |-> Cat(model, Def(model).geoms[i])],
                          site |-> [i \in 1..NS(model) |-> Cat(model, Def(model).sites[i])]]]
          ELSE [op |-> "init", in |-> [model |-> model, cap |-> cap, status |-> status, opt |-> opt, qp |-> qp, scene |-> << >>]]

\* ---- environment actions (scene idle) ------------------------------------------------------------------------------
\* mjv_makeScene(m, scn, c): new buffer, status cleared
MakeScene(c) == /\ Idle("MakeScene") /\ c <= NG(model) + NS(model) + 2
                /\ cap' = c /\ scene' = << >> /\ status' = 0 /\ over' = FALSE
                /\ ev' = [op |-> "makescene", cap |-> c, in |-> In] /\ nops' = nops + 1
                /\ UNCHANGED <<model, opt, qp, pc, idx, call>>
SetOpt(o) == /\ Idle("SetOpt") /\ o # opt
             /\ opt' = o /\ ev' = [op |-> "setopt", opt |-> o, in |-> In] /\ nops' = nops + 1
             /\ UNCHANGED <<model, cap, scene, status, over, qp, pc, idx, call>>
\* move the slide joint and run the kinematics
Move(x) == /\ Idle("Move") /\ x # qp
           /\ qp' = x /\ ev' = [op |-> "move", qp |-> x, in |-> In] /\ nops' = nops + 1
           /\ UNCHANGED <<model, cap, scene, status, over, opt, pc, idx, call>>
\* mjv_updateScene: clear the scene, then walk the sources
BeginUpdate == /\ Idle("Update")
               /\ scene' = << >> /\ pc' = "geom" /\ idx' = 1
               /\ call' = [op |-> "update", n0 |-> 0, warned |-> FALSE, in |-> In]
               /\ UNCHANGED <<model, cap, status, over, opt, qp, ev, nops>>
\* mjv_addGeoms: walk the sources, appending to what the scene holds
BeginAdd == /\ Idle("Add")
            /\ pc' = "geom" /\ idx' = 1
            /\ call' = [op |-> "add", n0 |-> Len(scene), warned |-> FALSE, in |-> In]
            /\ UNCHANGED <<model, cap, scene, status, over, opt, qp, ev, nops>>

\* ---- the walk: one action per visited element ----------------------------------------------------------------
NextSource == IF pc = "geom" THEN "site" ELSE "end"
Full == IF Bug = "gt" THEN Len(scene) > cap ELSE Len(scene) >= cap
Walking == pc \in {"geom", "site"}
\* the source is exhausted
SourceDone == /\ Walking /\ idx > Len(Source(model, pc))
              /\ pc' = NextSource /\ idx' = 1
              /\ UNCHANGED <<model, cap, scene, status, over, opt, qp, call, ev, nops>>
\* category masked or group disabled: next element
Skip == /\ Walking /\ idx <= Len(Source(model, pc))
        /\ ~Seen(model, Source(model, pc)[idx], Mask(opt, pc), opt)
        /\ idx' = idx + 1
        /\ UNCHANGED <<model, cap, scene, status, over, opt, qp, pc, call, ev, nops>>
\* acquireGeom fails: status (and one warning per scene), the source is abandoned
Overflow == /\ Walking /\ idx <= Len(Source(model, pc))
            /\ Seen(model, Source(model, pc)[idx], Mask(opt, pc), opt)
            /\ Full
            /\ status' = 1 /\ over' = TRUE
            /\ call' = [call EXCEPT !.warned = call.warned \/ status = 0]
            /\ pc' = NextSource /\ idx' = 1
            /\ UNCHANGED <<model, cap, scene, opt, qp, ev, nops>>
\* acquireGeom succeeds; an invisible element (alpha 0) gives the slot back, any other is released into the scene
Acquire == /\ Walking /\ idx <= Len(Source(model, pc))
           /\ Seen(model, Source(model, pc)[idx], Mask(opt, pc), opt)
           /\ ~Full
           /\ LET e == Source(model, pc)[idx] IN
              scene' = IF e.alpha = 0 THEN scene ELSE Append(scene, <<pc, idx - 1, Cat(model, e)>>)
           /\ idx' = idx + 1
           /\ UNCHANGED <<model, cap, status, over, opt, qp, pc, call, ev, nops>>
\* the call returns
EndCall == /\ pc = "end"
           /\ pc' = "idle" /\ nops' = nops + 1
           /\ ev' = [op |-> call.op, in |-> call.in,
                     ret |-> [ngeom |-> Len(scene), status |-> status, warned |-> call.warned, items |-> scene]]
           /\ UNCHANGED <<model, cap, scene, status, over, opt, qp, idx, call>>

DoMakeScene == \E c \in Caps : MakeScene(c)
DoSetOpt    == \E o \in Opts : SetOpt(o)
DoMove      == \E x \in QPos : Move(x)
Next == DoMakeScene \/ DoSetOpt \/ DoMove \/ BeginUpdate \/ BeginAdd
        \/ SourceDone \/ Skip \/ Overflow \/ Acquire \/ EndCall
Spec == Init /\ [][Next]_vars

\* ---- properties ------------------------------------------------------------------------------------------------------
TypeOK == /\ status \in {0, 1} /\ pc \in {"idle", "geom", "site", "end"}
          /\ \A i \in 1..Len(scene) : scene[i][1] \in {"geom", "site"}
\* never more elements than the capacity, in every intermediate state of every call
Bounded == Len(scene) <= cap
\* overflow is reported: the status flag is set exactly if some acquisition has failed since the scene was made
StatusIsOverflow == (status = 1) <=> over
\* a finished call leaves the declaratively defined content: the visible elements in order, cut at the capacity
Faithful == (pc = "idle" /\ ev.op \in {"update", "add"}) =>
               LET x == Expect(model, ev.in.opt, cap, IF ev.op = "add" THEN Len(ev.in.scene) ELSE 0) IN
               /\ ev.ret.items = (IF ev.op = "add" THEN ev.in.scene ELSE << >>) \o x.items
               /\ ev.ret.ngeom = Len(ev.ret.items)
               /\ ev.ret.status = (IF x.over THEN 1 ELSE ev.in.status)
               /\ ev.ret.warned = (x.over /\ ev.in.status = 0)
\* ngeom = min(number of visible, non-transparent elements, capacity) for a whole-scene update
VisibleKept(m, o) == SelectSeq(Cands(m, "geom", o) \o Cands(m, "site", o), LAMBDA c : c[4] = 1)
Min(a, b) == IF a < b THEN a ELSE b
MinLaw == (pc = "idle" /\ ev.op = "update") =>
             /\ ev.ret.ngeom = Min(Len(VisibleKept(model, ev.in.opt)), cap)
             /\ ev.ret.status = 0 => ev.ret.items = Strip(VisibleKept(model, ev.in.opt))
\* with only geom visualization enabled the scene holds exactly the geoms whose group is enabled (AlphaSkip aside)
OnlyGeoms == (pc = "idle" /\ ev.op = "update" /\ ev.in.opt.smask = {} /\ ev.ret.status = 0 /\ ev.in.opt.static
              /\ {1, 2} \subseteq ev.in.opt.cat) =>
               {ev.ret.items[i][2] : i \in 1..Len(ev.ret.items)} =
                 {i - 1 : i \in {j \in 1..NG(model) : Clamp(Def(model).geoms[j].group) \in ev.in.opt.gmask
                                                      /\ Def(model).geoms[j].alpha = 1}}
\* without overflow in its history a scene never reports one
NoFalseAlarm == [][(status = 0 /\ status' = 1) => (Walking /\ Len(scene) >= cap)]_vars
\* the walk has no choice: exactly one walk action is enabled in every walking state, so the result is a function
\* of model, options and capacity
WalkDeterministic == Walking => Cardinality({a \in {"done", "skip", "over", "acq"} :
                         CASE a = "done" -> ENABLED SourceDone [] a = "skip" -> ENABLED Skip
                           [] a = "over" -> ENABLED Overflow [] OTHER -> ENABLED Acquire}) = 1

\* ---- constants for the configurations -------------------------------------------------------------------------------
AllGroups == SUBSET {0, 1, 2, 3, 5}
FewGroups == {{0, 1, 2, 3, 4, 5}, {0, 1, 2}, {1}, {2, 5}, {}}
SiteMasks == {{}, {0, 1, 2}, {0, 3}}
NoSites   == {{}}
BothBool  == BOOLEAN
OnlyTrue  == {TRUE}
AllCats   == {{1, 2, 4}, {1, 2}, {2}, {1, 4}, {4}}
FullCat   == {{1, 2, 4}}
TwoCats   == {{1, 2, 4}, {2}}
ThreeCats == {{1, 2, 4}, {2}, {1, 4}}
TwoSites  == {{}, {0, 1, 2}}
CapsAll   == 0..13
Q0        == {0}
Q02       == {0, 2, -1}
St0       == {0}
St01      == {0, 1}
ModelsABC == {"A", "B", "C"}
ModelsA   == {"A"}
ModelsBC  == {"B", "C"}
CallOps   == {"Update", "Add"}
UpdateOnly == {"Update"}
AllOps    == {"MakeScene", "SetOpt", "Move", "Update", "Add"}
NoOps     == {}
=============================================================================
