------------------------------- MODULE Scene -------------------------------
\* Abstract-scene construction of MuJoCo's visualizer (src/engine/engine_vis_visualize.c: mjv_updateScene,
\* mjv_addGeoms, acquireGeom / releaseGeom; engine_vis_init.c: mjv_makeScene).
\*
\* A scene is a buffer of `cap` slots (maxgeom), its fill level (ngeom = Len(scene)) and a sticky `status` flag.
\* mjv_addGeoms walks the geom SOURCES of the model in a fixed order (here: the model's geoms, sites, spatial tendons,
\* joints and actuators - the last three only when their visualization flag is on, joints and actuators only with the
\* decor category; every other source is switched off) and tries to acquire one slot per visible
\* element; the first failed acquisition of a scene sets status (and raises one warning); a source stops at its
\* first failed acquisition, the sources after it are still visited.  mjv_updateScene = clear + mjv_addGeoms.
\* The walk is modelled element by element (one action per visited element) so that "never more than cap slots
\* written" is an invariant of EVERY intermediate state; the result of the walk is compared with the declarative
\* definition  Take(Visible(options), room)  by the invariant Faithful.
\*
\* Visible: element of an enabled group - the group of an element is ANY integer and is clamped into 0..5 before the
\* lookup in the group vector of ITS OWN kind (negative -> 0, 6 and above -> 5; the vectors of the other kinds, which
\* are adjacent in mjvOption, must not matter) -, of a category selected by the category
\* mask (static = welded to the world, dynamic = everything else; the static category is dropped when the STATIC
\* flag is off), in model order.
\* Deliberate, named deviation following the code: AlphaSkip - an element whose alpha is 0 takes part in the
\* capacity test (a slot is acquired for it: it can trigger the overflow status) but is not kept in the scene.
\*
\* ev of the action that ends a walk carries what the implementation must report: ngeom, status, whether a warning
\* was raised and the scene content as a sequence of <<kind, id, category>>; world poses and sizes of the
\* elements are given by Poses (a function of the model and the joint position), emitted by the "def" event.
EXTENDS Integers, Sequences, FiniteSets, TLC
CONSTANTS Models,     \* model names explored
          Caps,       \* scene capacities
          GMasks,     \* sets of enabled geom groups
          SMasks,     \* sets of enabled site groups
          JMasks, TMasks, AMasks,   \* sets of enabled joint / tendon / actuator groups
          FlagSets,   \* sets of switched-on sources among {"joint", "tendon", "actuator"}
          Statics,    \* values of the STATIC visualization flag
          CatMasks,   \* category masks (bit 1 static, bit 2 dynamic, bit 4 decor)
          QPos,       \* positions of the slide joint
          Status0,    \* initial values of the status flag (InitMode "all")
          InitMode,   \* "all": any scene/option/state combination is initial;  "one": fresh scene, default options;
                      \* "def": emit the model definitions only
          Ops,        \* enabled environment actions
          MaxOps,
          Bug         \* "none" | "gt": the capacity test is > instead of >= (negative control)

\* ---- small integer linear algebra (row-major 9-tuples) ----------------------------------------------------
I3 == <<1, 0, 0, 0, 1, 0, 0, 0, 1>>
E(M, i, j) == M[3 * (i - 1) + j]
MMul(A, B) == [x \in 1..9 |-> LET i == ((x - 1) \div 3) + 1  j == ((x - 1) % 3) + 1 IN
                 E(A, i, 1) * E(B, 1, j) + E(A, i, 2) * E(B, 2, j) + E(A, i, 3) * E(B, 3, j)]
MV(A, v)   == [i \in 1..3 |-> E(A, i, 1) * v[1] + E(A, i, 2) * v[2] + E(A, i, 3) * v[3]]
VAdd(u, v) == [i \in 1..3 |-> u[i] + v[i]]
VScl(s, v) == [i \in 1..3 |-> s * v[i]]
Skew(a) == <<0, -a[3], a[2],  a[3], 0, -a[1],  -a[2], a[1], 0>>
Cos4(k) == CASE k % 4 = 0 -> 1 [] k % 4 = 1 -> 0 [] k % 4 = 2 -> -1 [] OTHER -> 0
Sin4(k) == CASE k % 4 = 0 -> 0 [] k % 4 = 1 -> 1 [] k % 4 = 2 -> 0 [] OTHER -> -1
\* rotation by k quarter turns about the unit axis a (Rodrigues)
Rot(r) == LET a == r.ax  c == Cos4(r.k)  s == Sin4(r.k) IN
  [x \in 1..9 |-> LET i == ((x - 1) \div 3) + 1  j == ((x - 1) % 3) + 1 IN
      c * I3[x] + s * Skew(a)[x] + (1 - c) * a[i] * a[j]]
NoRot == [ax |-> <<0, 0, 1>>, k |-> 0]
RZ    == [ax |-> <<0, 0, 1>>, k |-> 1]
RX    == [ax |-> <<1, 0, 0>>, k |-> 1]
RY2   == [ax |-> <<0, 1, 0>>, k |-> 2]

\* ---- the models (lengths in quarter units: 4 = 1.0) ----------------------------------------------------------
\* body: parent, position, orientation, joint ("none" | "slide" along the body's z axis), mocap
\* geom / site: body, group, alpha (0 | 1), type, size (the type's own parameters), position, orientation
Body(p, pos, r, j, mc) == [parent |-> p, pos |-> pos, rot |-> r, joint |-> j, mocap |-> mc]
Elem(b, g, a, ty, sz, pos, r) == [body |-> b, group |-> g, alpha |-> a, type |-> ty, size |-> sz, pos |-> pos, rot |-> r]
ModelA == [
  bodies |-> [b1 |-> Body("world", <<4, 0, 8>>, RZ, "slide", FALSE),
              b2 |-> Body("b1", <<0, 4, 0>>, RX, "none", FALSE),
              b3 |-> Body("world", <<-4, 0, 0>>, NoRot, "none", FALSE),
              b4 |-> Body("world", <<0, 12, 0>>, RY2, "none", TRUE)],
  order  |-> <<"b1", "b2", "b3", "b4">>,
  geoms  |-> << Elem("world", 0, 1, "plane", <<8, 8, 1>>, <<0, 0, 0>>, NoRot),
                Elem("world", 1, 1, "box", <<1, 2, 3>>, <<12, 0, 0>>, RX),
                Elem("b1", 0, 1, "sphere", <<2>>, <<0, 0, 4>>, NoRot),
                Elem("b1", 2, 1, "capsule", <<1, 2>>, <<4, 0, 0>>, RX),
                Elem("b2", 1, 0, "cylinder", <<1, 2>>, <<0, 0, 0>>, NoRot),
                Elem("b2", 5, 1, "ellipsoid", <<1, 2, 3>>, <<4, 4, 0>>, RZ),
                Elem("b3", 2, 1, "box", <<2, 2, 2>>, <<0, 0, 4>>, NoRot),
                Elem("b4", 3, 1, "sphere", <<1>>, <<0, 0, 0>>, NoRot) >>,
  sites  |-> << Elem("world", 0, 1, "sphere", <<1>>, <<0, 0, 8>>, NoRot),
                Elem("b1", 3, 1, "box", <<1, 1, 2>>, <<0, 4, 0>>, RZ),
                Elem("b2", 0, 1, "sphere", <<1>>, <<0, 0, 0>>, NoRot) >>,
  jgroups |-> <<0>>, tendons |-> << >>, acts |-> << >> ]
\* nothing to draw
ModelB == [bodies |-> [b1 |-> Body("world", <<0, 0, 4>>, NoRot, "slide", FALSE)], order |-> <<"b1">>,
           geoms |-> << Elem("b1", 4, 0, "sphere", <<1>>, <<0, 0, 0>>, NoRot) >>, sites |-> << >>,
           jgroups |-> <<0>>, tendons |-> << >>, acts |-> << >>]
\* one dynamic body carrying six geoms of one group, two static sites
ModelC == [bodies |-> [b1 |-> Body("world", <<0, 0, 4>>, RX, "slide", FALSE)], order |-> <<"b1">>,
           geoms |-> [i \in 1..6 |-> Elem("b1", 1, 1, "sphere", <<i>>, <<4 * i, 0, 0>>, NoRot)],
           sites |-> << Elem("world", 1, 1, "sphere", <<1>>, <<0, 0, 0>>, NoRot),
                        Elem("world", 1, 1, "sphere", <<1>>, <<4, 0, 0>>, NoRot) >>,
           jgroups |-> <<0>>, tendons |-> << >>, acts |-> << >>]
\* groups outside 0..5 in every kind of element: four sliding bodies; jgroups = groups of their joints, a tendon is
\* [group, first site, second site] (one straight segment), an actuator [group, joint] (joint transmission)
ModelD == [
  bodies |-> [b1 |-> Body("world", <<4, 0, 4>>, NoRot, "slide", FALSE),
              b2 |-> Body("world", <<8, 0, 4>>, NoRot, "slide", FALSE),
              b3 |-> Body("world", <<12, 0, 4>>, RX, "slide", FALSE),
              b4 |-> Body("world", <<16, 0, 4>>, NoRot, "slide", FALSE)],
  order  |-> <<"b1", "b2", "b3", "b4">>,
  geoms  |-> << Elem("world", 7, 1, "box", <<1, 1, 1>>, <<0, 8, 0>>, NoRot),
                Elem("world", 0, 1, "sphere", <<1>>, <<0, 12, 0>>, NoRot),
                Elem("b1", -3, 1, "sphere", <<2>>, <<0, 0, 0>>, NoRot),
                Elem("b2", 6, 1, "capsule", <<1, 2>>, <<0, 0, 0>>, NoRot),
                Elem("b3", 100, 1, "box", <<1, 2, 1>>, <<0, 0, 0>>, NoRot),
                Elem("b4", 5, 1, "sphere", <<1>>, <<0, 0, 0>>, NoRot) >>,
  sites  |-> << Elem("world", -1, 1, "sphere", <<1>>, <<0, 0, 8>>, NoRot),
                Elem("b1", 6, 1, "sphere", <<1>>, <<0, 4, 0>>, NoRot),
                Elem("b2", 5, 1, "box", <<1, 1, 1>>, <<0, 4, 0>>, NoRot),
                Elem("b3", 0, 1, "sphere", <<1>>, <<0, 4, 0>>, NoRot),
                Elem("b4", 9, 1, "sphere", <<1>>, <<0, 4, 0>>, NoRot) >>,
  jgroups |-> <<-2, 6, 5, 0>>,
  tendons |-> << [group |-> 7, s1 |-> 1, s2 |-> 2], [group |-> -4, s1 |-> 3, s2 |-> 4],
                 [group |-> 5, s1 |-> 0, s2 |-> 1], [group |-> 0, s1 |-> 2, s2 |-> 3] >>,
  acts    |-> << [group |-> 6, joint |-> 0], [group |-> -1, joint |-> 1], [group |-> 5, joint |-> 2], [group |-> 0, joint |-> 3] >> ]
Def(m) == CASE m = "A" -> ModelA [] m = "B" -> ModelB [] m = "C" -> ModelC [] OTHER -> ModelD
NG(m) == Len(Def(m).geoms)
NS(m) == Len(Def(m).sites)
\* number of elements that can ever be drawn (joints, tendons, actuators only in the model that has tendons / actuators)
NVis(m) == NG(m) + NS(m) + (IF Def(m).tendons = << >> /\ Def(m).acts = << >> THEN 0
                            ELSE Len(Def(m).tendons) + Len(Def(m).jgroups) + Len(Def(m).acts))

\* a body is static iff it is welded to the world: no joint and no mocap on the way up
RECURSIVE IsStatic(_, _)
IsStatic(m, b) == IF b = "world" THEN TRUE
                  ELSE LET d == Def(m).bodies[b] IN d.joint = "none" /\ ~d.mocap /\ IsStatic(m, d.parent)
\* world frames: child frame = parent frame * (pos, rot); a slide joint then moves the body along its own z axis
RECURSIVE WRot(_, _), WPos(_, _, _)
WRot(m, b) == IF b = "world" THEN I3 ELSE MMul(WRot(m, Def(m).bodies[b].parent), Rot(Def(m).bodies[b].rot))
WPos(m, b, qp) == IF b = "world" THEN <<0, 0, 0>>
                  ELSE LET d == Def(m).bodies[b]
                           base == VAdd(WPos(m, d.parent, qp), MV(WRot(m, d.parent), d.pos))
                       IN IF d.joint = "slide" THEN VAdd(base, VScl(4 * qp, MV(WRot(m, b), <<0, 0, 1>>))) ELSE base
\* what mjv_initGeom writes into the size field
VisSize(e) == CASE e.type = "sphere" -> <<e.size[1], e.size[1], e.size[1]>>
                [] e.type \in {"capsule", "cylinder"} -> <<e.size[1], e.size[1], e.size[2]>>
                [] OTHER -> e.size
ElemPose(m, e, qp) == [pos |-> VAdd(WPos(m, e.body, qp), MV(WRot(m, e.body), e.pos)),
                       mat |-> MMul(WRot(m, e.body), Rot(e.rot)), size |-> VisSize(e), type |-> e.type]
Poses(m, qp) == [geom |-> [i \in 1..NG(m) |-> ElemPose(m, Def(m).geoms[i], qp)],
                 site |-> [i \in 1..NS(m) |-> ElemPose(m, Def(m).sites[i], qp)]]

\* ---- visibility ------------------------------------------------------------------------------------------------
Clamp(g) == IF g < 0 THEN 0 ELSE IF g > 5 THEN 5 ELSE g
Cat(m, e) == IF IsStatic(m, e.body) THEN 1 ELSE 2
\* the category mask after mjv_addGeoms has dropped the static bit when the STATIC flag is off
EffMask(o) == IF o.static THEN o.cat ELSE {c \in o.cat : c # 1}
\* the sources in the order of mjv_addGeoms; every element as [group, alpha, cat]
Kinds == <<"geom", "site", "tendon", "joint", "actuator">>
KindSet == {Kinds[i] : i \in 1..5}
SourceRaw(m, kind) ==
  CASE kind = "geom"   -> [i \in 1..NG(m) |-> [group |-> Def(m).geoms[i].group, alpha |-> Def(m).geoms[i].alpha, cat |-> Cat(m, Def(m).geoms[i])]]
    [] kind = "site"   -> [i \in 1..NS(m) |-> [group |-> Def(m).sites[i].group, alpha |-> Def(m).sites[i].alpha, cat |-> Cat(m, Def(m).sites[i])]]
    [] kind = "tendon" -> [i \in 1..Len(Def(m).tendons) |-> [group |-> Def(m).tendons[i].group, alpha |-> 1, cat |-> 2]]
    [] kind = "joint"  -> [i \in 1..Len(Def(m).jgroups) |-> [group |-> Def(m).jgroups[i], alpha |-> 1, cat |-> 4]]
    [] OTHER           -> [i \in 1..Len(Def(m).acts) |-> [group |-> Def(m).acts[i].group, alpha |-> 1, cat |-> 4]]
\* (a constant table: TLC evaluates it once)
SourceTab == [m \in {"A", "B", "C", "D"} |-> [k \in KindSet |-> SourceRaw(m, k)]]
Source(m, kind) == SourceTab[m][kind]
\* the group vector of a kind, and the vectors stored before / after it in mjvOption (geom, site, joint, tendon, actuator,
\* flex, skin; flex groups are all off here, what precedes the geom vector is not a group vector)
Mask(o, kind) == CASE kind = "geom" -> o.gmask [] kind = "site" -> o.smask [] kind = "tendon" -> o.tmask
                   [] kind = "joint" -> o.jmask [] OTHER -> o.amask
MaskAfter(o, kind)  == CASE kind = "geom" -> o.smask [] kind = "site" -> o.jmask [] kind = "joint" -> o.tmask
                         [] kind = "tendon" -> o.amask [] OTHER -> {}
MaskBefore(o, kind) == CASE kind = "geom" -> {} [] kind = "site" -> o.gmask [] kind = "joint" -> o.smask
                         [] kind = "tendon" -> o.jmask [] OTHER -> o.tmask
\* a source is walked at all: tendons, joints, actuators need their flag; joints and actuators are decor
Gate(kind, o) == CASE kind \in {"geom", "site"} -> TRUE
                   [] kind = "tendon" -> "tendon" \in o.flags
                   [] OTHER -> kind \in o.flags /\ 4 \in o.cat
Seen(m, kind, e, o) == /\ Gate(kind, o)
                       /\ (kind \in {"joint", "actuator"} \/ e.cat \in EffMask(o))
                       /\ Clamp(e.group) \in Mask(o, kind)
\* declarative definitions: the candidates of one source, in model order
Cands(m, kind, o) == SelectSeq([i \in 1..Len(Source(m, kind)) |-> <<kind, i - 1, Source(m, kind)[i].cat, Source(m, kind)[i].alpha>>],
                               LAMBDA c : Seen(m, kind, Source(m, kind)[c[2] + 1], o))
\* vacuity witnesses of an option: <<kind, "hi">> if a walked element of that kind has a group above 5 and the flag it must
\* follow (its own vector, index 5) differs from the flag next to it in memory (the following vector, index 0);
\* <<kind, "lo">> likewise for a negative group (own index 0 against index 5 of the preceding vector)
Witnesses(m, o) ==
  {<<k, "hi">> : k \in {kk \in KindSet : Gate(kk, o) /\ (\E i \in 1..Len(Source(m, kk)) : Source(m, kk)[i].group > 5
                                            /\ (kk \in {"joint", "actuator"} \/ Source(m, kk)[i].cat \in EffMask(o)))
                                         /\ ((5 \in Mask(o, kk)) # (0 \in MaskAfter(o, kk)))}}
  \cup
  {<<k, "lo">> : k \in {kk \in KindSet : Gate(kk, o) /\ (\E i \in 1..Len(Source(m, kk)) : Source(m, kk)[i].group < 0
                                            /\ (kk \in {"joint", "actuator"} \/ Source(m, kk)[i].cat \in EffMask(o)))
                                         /\ ((0 \in Mask(o, kk)) # (5 \in MaskBefore(o, kk)))}}
\* filling `room` free slots from a candidate list: a slot is needed for every candidate that is looked at, the
\* alpha-0 ones give theirs back; the walk stops at the first candidate that finds no slot
RECURSIVE Fill(_, _)
Fill(cs, room) == IF cs = << >> THEN [kept |-> << >>, over |-> FALSE]
                  ELSE IF room <= 0 THEN [kept |-> << >>, over |-> TRUE]
                  ELSE LET c == Head(cs) IN
                       IF c[4] = 0 THEN Fill(Tail(cs), room)
                       ELSE LET r == Fill(Tail(cs), room - 1) IN [kept |-> <<c>> \o r.kept, over |-> r.over]
Strip(cs) == [i \in 1..Len(cs) |-> <<cs[i][1], cs[i][2], cs[i][3]>>]
\* the result of mjv_addGeoms on a scene that already holds n0 elements: the sources one after the other
RECURSIVE ExpectFrom(_, _, _, _)
ExpectFrom(m, o, room, k) ==
  IF k > 5 THEN [items |-> << >>, over |-> FALSE]
  ELSE LET f == Fill(Cands(m, Kinds[k], o), room)
           r == ExpectFrom(m, o, room - Len(f.kept), k + 1)
       IN [items |-> Strip(f.kept) \o r.items, over |-> f.over \/ r.over]
Expect(m, o, cp, n0) == ExpectFrom(m, o, cp - n0, 1)

Opts == [gmask : GMasks, smask : SMasks, jmask : JMasks, tmask : TMasks, amask : AMasks, flags : FlagSets,
         static : Statics, cat : CatMasks]
DefaultOpt == [gmask |-> {0, 1, 2}, smask |-> {0, 1, 2}, jmask |-> {0, 1, 2}, tmask |-> {0, 1, 2}, amask |-> {0, 1, 2},
               flags |-> {}, static |-> TRUE, cat |-> {1, 2, 4}]

VARIABLES model,     \* name of the loaded model
          cap,       \* scene capacity (maxgeom)
          scene,     \* the filled slots: sequence of <<kind, id, category>>
          status,    \* 0 | 1, sticky
          over,      \* ghost: some acquisition failed since the scene was made
          opt,       \* visualization options
          qp,        \* position of the slide joint
          pc,        \* "idle" | the kind of the source being walked | "end"
          idx,       \* next element of the current source (1-based)
          call,      \* the API call in progress: [op, n0 (fill level at its start), warned]
          ev, nops
vars == <<model, cap, scene, status, over, opt, qp, pc, idx, call, ev, nops>>

In == [model |-> model, cap |-> cap, status |-> status, opt |-> opt, qp |-> qp, scene |-> scene]
Idle(name) == pc = "idle" /\ name \in Ops /\ nops < MaxOps

Init ==
  /\ model \in Models
  /\ IF InitMode = "all" THEN cap \in {c \in Caps : c <= NVis(model) + 2} /\ opt \in Opts /\ status \in Status0 /\ qp \in QPos
     ELSE cap = NVis(model) /\ opt = DefaultOpt /\ status = 0 /\ qp \in QPos
  /\ scene = << >> /\ over = (status = 1) /\ pc = "idle" /\ idx = 0
  /\ call = [op |-> "none", n0 |-> 0, warned |-> FALSE] /\ nops = 0
  /\ ev = IF InitMode = "def"
          THEN [op |-> "def", model |-> model, def |-> Def(model), qp |-> qp, poses |-> Poses(model, qp),
                ng |-> NG(model), ns |-> NS(model),
                cats |-> [geom |-> [i \in 1..NG(model) |-> Cat(model, Def(model).geoms[i])],
                          site |-> [i \in 1..NS(model) |-> Cat(model, Def(model).sites[i])]]]
          ELSE [op |-> "init", in |-> [model |-> model, cap |-> cap, status |-> status, opt |-> opt, qp |-> qp, scene |-> << >>]]

\* ---- environment actions (scene idle) ------------------------------------------------------------------------------
\* mjv_makeScene(m, scn, c): new buffer, status cleared
MakeScene(c) == /\ Idle("MakeScene") /\ c <= NVis(model) + 2
                /\ cap' = c /\ scene' = << >> /\ status' = 0 /\ over' = FALSE
                /\ ev' = [op |-> "makescene", cap |-> c, in |-> In] /\ nops' = nops + 1
                /\ UNCHANGED <<model, opt, qp, pc, idx, call>>
SetOpt(o) == /\ Idle("SetOpt") /\ o # opt
             /\ opt' = o /\ ev' = [op |-> "setopt", opt |-> o, in |-> In] /\ nops' = nops + 1
             /\ UNCHANGED <<model, cap, scene, status, over, qp, pc, idx, call>>
\* move the slide joint and run the kinematics
Move(x) == /\ Idle("Move") /\ x # qp
           /\ qp' = x /\ ev' = [op |-> "move", qp |-> x, in |-> In] /\ nops' = nops + 1
           /\ UNCHANGED <<model, cap, scene, status, over, opt, pc, idx, call>>
\* mjv_updateScene: clear the scene, then walk the sources
BeginUpdate == /\ Idle("Update")
               /\ scene' = << >> /\ pc' = "geom" /\ idx' = 1
               /\ call' = [op |-> "update", n0 |-> 0, warned |-> FALSE, in |-> In]
               /\ UNCHANGED <<model, cap, status, over, opt, qp, ev, nops>>
\* mjv_addGeoms: walk the sources, appending to what the scene holds
BeginAdd == /\ Idle("Add")
            /\ pc' = "geom" /\ idx' = 1
            /\ call' = [op |-> "add", n0 |-> Len(scene), warned |-> FALSE, in |-> In]
            /\ UNCHANGED <<model, cap, scene, status, over, opt, qp, ev, nops>>

\* ---- the walk: one action per visited element ----------------------------------------------------------------
NextSource == CASE pc = "geom" -> "site" [] pc = "site" -> "tendon" [] pc = "tendon" -> "joint" [] pc = "joint" -> "actuator"
                [] OTHER -> "end"
Full == IF Bug = "gt" THEN Len(scene) > cap ELSE Len(scene) >= cap
Walking == pc \in KindSet
\* the source is exhausted
SourceDone == /\ Walking /\ idx > Len(Source(model, pc))
              /\ pc' = NextSource /\ idx' = 1
              /\ UNCHANGED <<model, cap, scene, status, over, opt, qp, call, ev, nops>>
\* category masked or group disabled: next element
Skip == /\ Walking /\ idx <= Len(Source(model, pc))
        /\ ~Seen(model, pc, Source(model, pc)[idx], opt)
        /\ idx' = idx + 1
        /\ UNCHANGED <<model, cap, scene, status, over, opt, qp, pc, call, ev, nops>>
\* acquireGeom fails: status (and one warning per scene), the source is abandoned
Overflow == /\ Walking /\ idx <= Len(Source(model, pc))
            /\ Seen(model, pc, Source(model, pc)[idx], opt)
            /\ Full
            /\ status' = 1 /\ over' = TRUE
            /\ call' = [call EXCEPT !.warned = call.warned \/ status = 0]
            /\ pc' = NextSource /\ idx' = 1
            /\ UNCHANGED <<model, cap, scene, opt, qp, ev, nops>>
\* acquireGeom succeeds; an invisible element (alpha 0) gives the slot back, any other is released into the scene
Acquire == /\ Walking /\ idx <= Len(Source(model, pc))
           /\ Seen(model, pc, Source(model, pc)[idx], opt)
           /\ ~Full
           /\ LET e == Source(model, pc)[idx] IN
              scene' = IF e.alpha = 0 THEN scene ELSE Append(scene, <<pc, idx - 1, e.cat>>)
           /\ idx' = idx + 1
           /\ UNCHANGED <<model, cap, status, over, opt, qp, pc, call, ev, nops>>
\* the call returns
EndCall == /\ pc = "end"
           /\ pc' = "idle" /\ nops' = nops + 1
           /\ ev' = [op |-> call.op, in |-> call.in, wit |-> Witnesses(model, call.in.opt),
                     ret |-> [ngeom |-> Len(scene), status |-> status, warned |-> call.warned, items |-> scene]]
           /\ UNCHANGED <<model, cap, scene, status, over, opt, qp, idx, call>>

DoMakeScene == \E c \in Caps : MakeScene(c)
DoSetOpt    == \E o \in Opts : SetOpt(o)
DoMove      == \E x \in QPos : Move(x)
Next == DoMakeScene \/ DoSetOpt \/ DoMove \/ BeginUpdate \/ BeginAdd
        \/ SourceDone \/ Skip \/ Overflow \/ Acquire \/ EndCall
Spec == Init /\ [][Next]_vars

\* ---- properties ------------------------------------------------------------------------------------------------------
TypeOK == /\ status \in {0, 1} /\ pc \in {"idle", "end"} \cup KindSet
          /\ \A i \in 1..Len(scene) : scene[i][1] \in KindSet
\* never more elements than the capacity, in every intermediate state of every call
Bounded == Len(scene) <= cap
\* overflow is reported: the status flag is set exactly if some acquisition has failed since the scene was made
StatusIsOverflow == (status = 1) <=> over
\* a finished call leaves the declaratively defined content: the visible elements in order, cut at the capacity
Faithful == (pc = "idle" /\ ev.op \in {"update", "add"}) =>
               LET x == Expect(model, ev.in.opt, cap, IF ev.op = "add" THEN Len(ev.in.scene) ELSE 0) IN
               /\ ev.ret.items = (IF ev.op = "add" THEN ev.in.scene ELSE << >>) \o x.items
               /\ ev.ret.ngeom = Len(ev.ret.items)
               /\ ev.ret.status = (IF x.over THEN 1 ELSE ev.in.status)
               /\ ev.ret.warned = (x.over /\ ev.in.status = 0)
\* ngeom = min(number of visible, non-transparent elements, capacity) for a whole-scene update
VisibleKept(m, o) == SelectSeq(Cands(m, "geom", o) \o Cands(m, "site", o) \o Cands(m, "tendon", o) \o Cands(m, "joint", o)
                                \o Cands(m, "actuator", o), LAMBDA c : c[4] = 1)
Min(a, b) == IF a < b THEN a ELSE b
MinLaw == (pc = "idle" /\ ev.op = "update") =>
             /\ ev.ret.ngeom = Min(Len(VisibleKept(model, ev.in.opt)), cap)
             /\ ev.ret.status = 0 => ev.ret.items = Strip(VisibleKept(model, ev.in.opt))
\* with only geom visualization enabled the scene holds exactly the geoms whose group is enabled (AlphaSkip aside)
OnlyGeoms == (pc = "idle" /\ ev.op = "update" /\ ev.in.opt.smask = {} /\ ev.in.opt.flags = {} /\ ev.ret.status = 0 /\ ev.in.opt.static
              /\ {1, 2} \subseteq ev.in.opt.cat) =>
               {ev.ret.items[i][2] : i \in 1..Len(ev.ret.items)} =
                 {i - 1 : i \in {j \in 1..NG(model) : Clamp(Def(model).geoms[j].group) \in ev.in.opt.gmask
                                                      /\ Def(model).geoms[j].alpha = 1}}
\* group law, element by element: without overflow an element is in the scene iff its source is walked, its category is
\* selected, it is not transparent and the flag of its OWN group vector at clamp(group, 0, 5) is set
GroupLaw == (pc = "idle" /\ ev.op = "update" /\ ev.ret.status = 0) =>
              \A k \in KindSet : \A i \in 1..Len(Source(model, k)) :
                 LET e == Source(model, k)[i] IN
                 (\E x \in 1..Len(ev.ret.items) : ev.ret.items[x][1] = k /\ ev.ret.items[x][2] = i - 1) <=>
                   (/\ Gate(k, ev.in.opt) /\ (k \in {"joint", "actuator"} \/ e.cat \in EffMask(ev.in.opt)) /\ e.alpha = 1
                    /\ (IF e.group < 0 THEN 0 ELSE IF e.group > 5 THEN 5 ELSE e.group) \in Mask(ev.in.opt, k))
\* the model with out-of-range groups has one above 5 and one below 0 in every kind
ASSUME \A k \in KindSet : (\E i \in 1..Len(Source("D", k)) : Source("D", k)[i].group > 5)
                          /\ (\E i \in 1..Len(Source("D", k)) : Source("D", k)[i].group < 0)
\* without overflow in its history a scene never reports one
NoFalseAlarm == [][(status = 0 /\ status' = 1) => (Walking /\ Len(scene) >= cap)]_vars
\* the walk has no choice: exactly one walk action is enabled in every walking state, so the result is a function
\* of model, options and capacity
WalkDeterministic == Walking => Cardinality({a \in {"done", "skip", "over", "acq"} :
                         CASE a = "done" -> ENABLED SourceDone [] a = "skip" -> ENABLED Skip
                           [] a = "over" -> ENABLED Overflow [] OTHER -> ENABLED Acquire}) = 1

\* ---- constants for the configurations -------------------------------------------------------------------------------
AllGroups == SUBSET {0, 1, 2, 3, 5}
FewGroups == {{0, 1, 2, 3, 4, 5}, {0, 1, 2}, {1}, {2, 5}, {}}
SiteMasks == {{}, {0, 1, 2}, {0, 3}}
NoSites   == {{}}
NoFlags   == {{}}
AllFlags  == {{"joint", "tendon", "actuator"}}
EdgeMasks == {{0}, {5}}
EdgeMasks3 == {{0}, {5}, {0, 1, 2, 3, 4, 5}}
CapsD     == {4, 25}
ModelsD   == {"D"}
BothBool  == BOOLEAN
OnlyTrue  == {TRUE}
AllCats   == {{1, 2, 4}, {1, 2}, {2}, {1, 4}, {4}}
FullCat   == {{1, 2, 4}}
TwoCats   == {{1, 2, 4}, {2}}
ThreeCats == {{1, 2, 4}, {2}, {1, 4}}
TwoSites  == {{}, {0, 1, 2}}
CapsAll   == 0..13
Q0        == {0}
Q02       == {0, 2, -1}
St0       == {0}
St01      == {0, 1}
ModelsABC == {"A", "B", "C"}
ModelsABCD == {"A", "B", "C", "D"}
ModelsA   == {"A"}
ModelsBC  == {"B", "C"}
CallOps   == {"Update", "Add"}
UpdateOnly == {"Update"}
AllOps    == {"MakeScene", "SetOpt", "Move", "Update", "Add"}
NoOps     == {}
=============================================================================
