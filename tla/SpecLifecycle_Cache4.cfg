SPECIFICATION Spec
CONSTANTS
  NS = 1
  NM = 2
  MaxOps = 4
  Bases <- PlainOnly
  Edits <- AllEdits
  MaxEdits = 2
  InitThr <- BOOLEAN
  Ops <- CacheOps
INVARIANT TypeOK
INVARIANT ClassesAreContents
INVARIANT LastIsOwn
INVARIANT DataMatchesModel
INVARIANT CacheStateIrrelevant
PROPERTY CacheOpsArePure
PROPERTY CopyKeepsContent
PROPERTY ThreadsKeepContent
PROPERTY CopyModelSameClass
PROPERTY StatePreserved
PROPERTY DataOnlyByDataOps
CHECK_DEADLOCK FALSE
