SPECIFICATION Spec
CONSTANTS
  MaxGeoms = 1
  HalfSizes <- H_Two
  Offsets <- O_One
  Rots <- R_Three
  Densities <- D_Two
  Kinds <- K_Mesh
  MeshOffs <- MO_Few
  Tess <- T_All
  MeshModes <- MM_Both
  ChildModes <- C_None
  ChildPoss <- CP_Few
  ChildRots <- R_Rz
  TotalMasses <- TM_Some
  Groups <- G_Zero
  Ranges <- RG_All
  MaxCompiles = 1
  MaxEdits = 0
  EditKinds <- E_None
  Hows <- HW_Both
  Design = "group"
  Rand = FALSE
INVARIANT TypeOK
INVARIANT GeomTensorProper
INVARIANT MeshIsBox
INVARIANT MeshInertiaIsBox
INVARIANT ParallelAxis
INVARIANT TensorProper
INVARIANT TriangleOnDirections
INVARIANT SingleGeom
INVARIANT Published
INVARIANT HistoryIndependent
INVARIANT UnselectedCountsNothing

CHECK_DEADLOCK FALSE
