SPECIFICATION Spec
CONSTANTS
  W = 16
  Base = 64
  Configs <- C_pad
  Sizes <- S_0_20
  Aligns <- A_1_8
  MaxOps = 2
  MaxFrames = 2
  Threads <- NoThreads
  CodeSites <- Contract
INVARIANT TypeOK
INVARIANT InArena
INVARIANT Aligned
INVARIANT Disjoint
INVARIANT RedZoneGap
INVARIANT Apart
INVARIANT Sides
INVARIANT FramesOK
INVARIANT ReservationsDisjoint
PROPERTY FreeRestores
PROPERTY MarkFreeId
PROPERTY ErrorIsClean
PROPERTY NoSpuriousNull
PROPERTY NoSpuriousErr
PROPERTY FinishAgrees
CHECK_DEADLOCK FALSE
