SPECIFICATION Spec
CONSTANTS
  NC = 14
  Dims <- MC_Dims
  MaxOps = 14
  Mode = "free"
  Sigs <- MC_SigsSim
  ChainSigs <- MC_SigsSim
  Masks <- MC_Masks2
  Bug = "none"
  NKey = 2
  NPat = 3
INVARIANT TypeOK
INVARIANT SizeIsLength
INVARIANT GetIsDecl
INVARIANT ExtractLen
PROPERTY SetRestores
PROPERTY SetFrame
PROPERTY ExtractIsGet
PROPERTY CopyIsGetSet
PROPERTY ResetIsFresh
PROPERTY KeyLoads
PROPERTY QueriesPure
CHECK_DEADLOCK FALSE
