SPECIFICATION Spec
CONSTANTS
  Ns <- L_N23
  Words <- L_W3
  Flats <- L_Bool
  Stiff <- L_S1
VIEW ViewNoEv
INVARIANT TypeOK
INVARIANT GroupOK
INVARIANT XmlIsEquilibrium
INVARIANT StraightIsEquilibrium
INVARIANT AnchorFree
INVARIANT FlatBentStressed
INVARIANT QuarterTurns
CHECK_DEADLOCK FALSE
