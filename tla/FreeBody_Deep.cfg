SPECIFICATION Spec
CONSTANTS
  JTs <- L_JT
  Hs <- L_H
  Ms <- L_M
  Bs <- L_B
  Inertias <- L_I
  Ws <- L_WD
  Lins <- L_Lin
  Fs <- L_F
  Integs <- L_AllInt
  MaxSteps = 6
VIEW ViewNoEv
INVARIANT TypeOK
INVARIANT Uniform
INVARIANT Contracts
INVARIANT UnitAlways
CHECK_DEADLOCK FALSE
