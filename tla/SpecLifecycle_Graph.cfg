SPECIFICATION Spec
CONSTANTS
  NS = 2
  NM = 2
  MaxOps = 2
  Bases <- MultiOnly
  Edits <- TwoEdits
  MaxEdits = 2
  InitThr <- BOOLEAN
  Ops <- AllOps
INVARIANT TypeOK
INVARIANT ClassesAreContents
INVARIANT LastIsOwn
INVARIANT DataMatchesModel
INVARIANT CacheStateIrrelevant
PROPERTY CacheOpsArePure
PROPERTY CopyKeepsContent
PROPERTY ThreadsKeepContent
PROPERTY CopyModelSameClass
PROPERTY StatePreserved
PROPERTY DataOnlyByDataOps
CHECK_DEADLOCK FALSE
