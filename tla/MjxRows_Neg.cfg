SPECIFICATION Spec
CONSTANTS
  EqDims <- MC_EqDims
  NFric = 1
  NLim = 2
  NConSlots = 3
  Cons <- MC_Cons
  CRows = 4
  Bug = "srcoffset"
INVARIANT TypeOK
INVARIANT KindMatchesSlot
INVARIANT BlockCompact
INVARIANT NoRowLost
INVARIANT RoundTrip
INVARIANT Fits
CHECK_DEADLOCK FALSE
