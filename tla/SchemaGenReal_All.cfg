SPECIFICATION RSpec
CONSTANTS
  MaxGrow = 0
  SeedIds <- AllSeeds
  GrowT <- NoT
  GrowNames <- NoNames
  DeclNames <- NoNames
  Mutate = FALSE
  MutFrom = 0
  Focused = FALSE
  PumpSizes <- NoPump
  NoisePos <- NoPos
  RealElems <- AllReal
  RealTs <- AllRT
  RealVerbs <- Verbs
INVARIANT EditValid
INVARIANT ProjRule
INVARIANT ReadRule
INVARIANT ConRule
INVARIANT DeltaMatchesEdit
CHECK_DEADLOCK FALSE
