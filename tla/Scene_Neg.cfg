SPECIFICATION Spec
CONSTANTS
  Models <- ModelsA
  Caps <- CapsAll
  GMasks <- FewGroups
  SMasks <- NoSites
  Statics <- OnlyTrue
  CatMasks <- FullCat
  QPos <- Q0
  Status0 <- St0
  InitMode = "all"
  Ops <- UpdateOnly
  MaxOps = 1
  Bug = "gt"
INVARIANT Bounded
CHECK_DEADLOCK FALSE
