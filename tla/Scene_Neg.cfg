SPECIFICATION Spec
CONSTANTS
  Models <- ModelsA
  Caps <- CapsAll
  GMasks <- FewGroups
  SMasks <- NoSites
  JMasks <- NoSites
  TMasks <- NoSites
  AMasks <- NoSites
  FlagSets <- NoFlags
  Statics <- OnlyTrue
  CatMasks <- FullCat
  QPos <- Q0
  Status0 <- St0
  InitMode = "all"
  Ops <- UpdateOnly
  MaxOps = 1
  Bug = "gt"
INVARIANT Bounded
CHECK_DEADLOCK FALSE
