SPECIFICATION Spec
CONSTANTS
  MaxGeoms = 3
  HalfSizes <- H_Many
  Offsets <- O_Cube
  Rots <- R_All
  Densities <- D_Three
  Kinds <- K_All
  MeshOffs <- MO_Cube
  Tess <- T_All
  MeshModes <- MM_Both
  ChildModes <- C_All
  ChildPoss <- CP_Cube
  ChildRots <- R_All
  TotalMasses <- TM_Many
  Groups <- G_All
  Ranges <- RG_Many
  MaxCompiles = 3
  MaxEdits = 2
  EditKinds <- E_All
  Hows <- HW_Both
  Design = "group"
  Rand = TRUE
INVARIANT TypeOK
INVARIANT GeomTensorProper
INVARIANT MeshIsBox
INVARIANT MeshInertiaIsBox
INVARIANT ParallelAxis
INVARIANT TensorProper
INVARIANT TriangleOnDirections
INVARIANT SingleGeom
INVARIANT Published
INVARIANT HistoryIndependent
INVARIANT UnselectedCountsNothing

CHECK_DEADLOCK FALSE
