SPECIFICATION Spec
CONSTANTS
  MaxNodes = 6
  MaxAttrs = 2
INVARIANT CodeNeverStricter
INVARIANT DiffOnlyUnderAlias
INVARIANT BogusInvalid
INVARIANT VerdictIsVerdict
CHECK_DEADLOCK FALSE
