SPECIFICATION Spec
CONSTANTS
  MaxNodes = 5
  MaxAttrs = 2
INVARIANT CodeNeverStricter
INVARIANT DiffOnlyUnderAlias
INVARIANT BogusInvalid
INVARIANT VerdictIsVerdict
CHECK_DEADLOCK FALSE
