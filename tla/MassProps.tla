------------------------------- MODULE MassProps -------------------------------
\* Mass properties that MuJoCo's model compiler infers from geoms (src/user/user_objects.cc: mjCGeom::GetVolume /
\* SetInertia, mjCBody::InertiaFromGeom / AccumulateInertia; src/user/user_mesh.cc: mjCMesh::Process / ComputeVolume /
\* ComputeInertia; src/user/user_model.cc: fusestatic, settotalmass) on an EXACT INTEGER LATTICE.
\*
\* A model is one moving body b1 with 1..MaxGeoms geoms and, optionally, a static child body b2 that carries some of
\* the geoms and is either fused into b1 by the compiler (fusestatic) or kept separate.  A geom is a box with integer
\* half sizes, an integer offset and one of the 24 axis-aligned orientations; its mass comes from an integer density
\* (volume or shell/surface inertia), from an explicit mass, or it is given as a TRIANGLE MESH of the same box (12
\* triangles, one of 64 tessellations, vertices shifted by an integer mesh offset).  Every quantity is an integer over a
\* fixed denominator, so the results are exact rationals.
\*
\* Everything is derived BY DEFINITION, twice where the property speaks of a theorem:
\*   Geom     mass = density * volume (or * area for shells); box inertia m (b^2 + c^2) / 3; shell inertia as the sum of six
\*            rectangular plates
\*   Mesh     volume, first and second moment by summing signed tetrahedra (origin, triangle) - resp. triangles for the
\*            surface - over the 12 triangles.  TLC decides that this equals the closed form of the box for every
\*            tessellation (the "mesh that tessellates a primitive has the primitive's mass properties" clause, which is
\*            exact for a box).
\*   Body     centre of mass S / M; inertia about the centre of mass
\*              A: sum of the rotated geom tensors + the PAIRWISE form of the parallel-axis terms
\*                 (1/M) sum_{i<j} m_i m_j (|d|^2 1 - d d'),  d = c_i - c_j      (Lagrange identity)
\*              B: tensors about the body origin, then ONE parallel-axis shift to the centre of mass
\*            TLC decides A = B on the whole lattice (the parallel-axis theorem), symmetry, the triangle inequality of the
\*            diagonal and 2 x'Ix <= tr(I) |x|^2 on lattice directions (necessary for the triangle inequality of the
\*            principal moments).
\* Behaviour = build phase (Child, AddGeom*, Close) followed by one action per derivation stage (Geom, Mesh, Total, InA,
\* InB, Finish).  Finish publishes `ev`, the oracle of the replay (checks/c35.py compiles the described model with the
\* real compiler and compares body_mass, body_ipos and the tensor rebuilt from body_iquat / body_inertia).
\*
\* The model description is an mjSpec that LIVES ON: after a compile the specification may EDIT it (EditGroup, EditRange,
\* EditDensity / EditMass, EditSize, EditPos) and compile it again (Recompile: mj_recompile, or mj_compile a second time on
\* the same spec).  A geom counts towards the body's inertia iff its group lies in compiler.inertiagrouprange.  The
\* derived per-geom record `gp` models what the compiler object keeps between compiles: the Geom stage recomputes it
\* only for the geoms selected now (the others keep what an earlier compile left there).  The property
\*   HistoryIndependent : after ANY history of edits and recompiles the compiled mass / centre of mass / inertia of every
\*                        body equal those of a FRESH spec with the same current content
\* holds because Total / InA / InB count a geom by its group (Design = "group"); with Design = "massonly" (count whatever
\* carries mass) TLC refutes it - the specification-level negative control for stale compile state.
\* Rand = FALSE enumerates every choice; Rand = TRUE draws each choice with RandomElement (TLC -simulate, large lattice).
EXTENDS Integers, Sequences, FiniteSets, TLC

CONSTANTS MaxGeoms,
          HalfSizes,    \* set of <<a, b, c>>
          Offsets,      \* geom positions
          Rots,         \* subset of Rot24 (3x3 signed permutation matrices, det 1)
          Densities,    \* integer densities (for kind "boxmass": the explicit mass)
          Kinds,        \* subset of {"box", "boxmass", "shell", "mesh", "meshshell"}
          MeshOffs,     \* integer shift of the mesh vertices in the mesh frame
          Tess,         \* subset of 0..63: bit f chooses the diagonal of face f
          MeshModes,    \* subset of {"exact", "legacy"} (mesh inertia mode for volume meshes)
          ChildModes,   \* subset of {"none", "fused", "separate"}
          ChildPoss, ChildRots,
          TotalMasses,  \* 0: no settotalmass; T > 0: compiler settotalmass = T
          Groups,       \* geom groups
          Ranges,       \* values of compiler.inertiagrouprange <<lo, hi>>
          MaxCompiles,  \* compiles per behaviour (1: no edit-and-recompile histories)
          MaxEdits,     \* edits between two compiles
          EditKinds,    \* subset of {"group", "range", "density", "size", "pos"}
          Hows,         \* subset of {"recompile", "compile2"}: mj_recompile | mj_compile again on the same spec
          Design,       \* "group": a geom counts iff its group is in range (the documented rule); "massonly": it counts iff
                        \* its kept mass is positive (deliberately wrong: negative control)
          Rand

\* ------------------------------------------------------------------------------------------------
\* integer vectors and 3x3 matrices
\* ------------------------------------------------------------------------------------------------
IAbs(i) == IF i < 0 THEN 0 - i ELSE i
Z3 == <<0, 0, 0>>
Z33 == <<Z3, Z3, Z3>>
VAdd(a, b) == <<a[1] + b[1], a[2] + b[2], a[3] + b[3]>>
VSub(a, b) == <<a[1] - b[1], a[2] - b[2], a[3] - b[3]>>
VScl(k, a) == <<k * a[1], k * a[2], k * a[3]>>
Dot(a, b)  == a[1] * b[1] + a[2] * b[2] + a[3] * b[3]
Cross(a, b) == <<a[2] * b[3] - a[3] * b[2], a[3] * b[1] - a[1] * b[3], a[1] * b[2] - a[2] * b[1]>>
MV(R, x)   == <<Dot(R[1], x), Dot(R[2], x), Dot(R[3], x)>>
Col(R, j)  == <<R[1][j], R[2][j], R[3][j]>>
Tr(R)      == <<Col(R, 1), Col(R, 2), Col(R, 3)>>
MM(A, B)   == LET c1 == Col(B, 1)  c2 == Col(B, 2)  c3 == Col(B, 3) IN
              <<<<Dot(A[1], c1), Dot(A[1], c2), Dot(A[1], c3)>>,
                <<Dot(A[2], c1), Dot(A[2], c2), Dot(A[2], c3)>>,
                <<Dot(A[3], c1), Dot(A[3], c2), Dot(A[3], c3)>>>>
MAdd(A, B) == <<VAdd(A[1], B[1]), VAdd(A[2], B[2]), VAdd(A[3], B[3])>>
MSub(A, B) == <<VSub(A[1], B[1]), VSub(A[2], B[2]), VSub(A[3], B[3])>>
MScl(k, A) == <<VScl(k, A[1]), VScl(k, A[2]), VScl(k, A[3])>>
Diag(d)    == <<<<d[1], 0, 0>>, <<0, d[2], 0>>, <<0, 0, d[3]>>>>
Outer(a, b) == <<VScl(a[1], b), VScl(a[2], b), VScl(a[3], b)>>
Trace(A)   == A[1][1] + A[2][2] + A[3][3]
Det3(R)    == Dot(R[1], Cross(R[2], R[3]))
I3 == Diag(<<1, 1, 1>>)
\* the inertia-like tensor of a point mass direction:  |d|^2 1 - d d'
PAx(d) == MSub(MScl(Dot(d, d), I3), Outer(d, d))
\* tr(C) 1 - C : second-moment (covariance) matrix -> inertia tensor
CovToInertia(C) == MSub(MScl(Trace(C), I3), C)
Sym(A) == A[1][2] = A[2][1] /\ A[1][3] = A[3][1] /\ A[2][3] = A[3][2]
RECURSIVE MSumN(_, _)
MSumN(f, k) == IF k = 0 THEN Z33 ELSE MAdd(f[k], MSumN(f, k - 1))
RECURSIVE VSumN(_, _)
VSumN(f, k) == IF k = 0 THEN Z3 ELSE VAdd(f[k], VSumN(f, k - 1))
RECURSIVE SumN(_, _)
SumN(f, k)  == IF k = 0 THEN 0 ELSE f[k] + SumN(f, k - 1)

\* the 24 proper rotations that map coordinate axes to coordinate axes
Perms3 == {<<1, 2, 3>>, <<1, 3, 2>>, <<2, 1, 3>>, <<2, 3, 1>>, <<3, 1, 2>>, <<3, 2, 1>>}
SignedPerm(p, s) == [i \in 1..3 |-> [j \in 1..3 |-> IF p[i] = j THEN s[i] ELSE 0]]
Rot24 == {R \in {SignedPerm(p, s) : p \in Perms3, s \in {-1, 1} \X {-1, 1} \X {-1, 1}} : Det3(R) = 1}

\* ------------------------------------------------------------------------------------------------
\* the 12-triangle mesh of a box: corners 1..8 (bit 0: +x, bit 1: +y, bit 2: +z), faces counter-clockwise seen from
\* outside, bit f of the tessellation number chooses the diagonal of face f
\* ------------------------------------------------------------------------------------------------
Corner(k, hs) == <<IF ((k - 1) % 2) = 1 THEN hs[1] ELSE 0 - hs[1],
                   IF (((k - 1) \div 2) % 2) = 1 THEN hs[2] ELSE 0 - hs[2],
                   IF (((k - 1) \div 4) % 2) = 1 THEN hs[3] ELSE 0 - hs[3]>>
Faces == <<<<2, 4, 8, 6>>, <<1, 5, 7, 3>>, <<3, 7, 8, 4>>, <<1, 2, 6, 5>>, <<5, 6, 8, 7>>, <<1, 3, 4, 2>>>>
Bit(n, f) == (n \div (2 ^ (f - 1))) % 2
FaceTris(f, t) == LET q == Faces[f] IN
                  IF Bit(t, f) = 0 THEN <<<<q[1], q[2], q[3]>>, <<q[1], q[3], q[4]>>>>
                                   ELSE <<<<q[1], q[2], q[4]>>, <<q[2], q[3], q[4]>>>>
Tris(t) == FaceTris(1, t) \o FaceTris(2, t) \o FaceTris(3, t) \o FaceTris(4, t) \o FaceTris(5, t) \o FaceTris(6, t)
MeshVerts(hs, off) == [k \in 1..8 |-> VAdd(off, Corner(k, hs))]

\* ------------------------------------------------------------------------------------------------
VARIABLES stage,  \* "child" | "build" | "geom" | "mesh" | "total" | "inA" | "inB" | "fin" | "done"
          G,      \* sequence of geoms
          child,  \* [mode, pos, R]
          tmass,  \* settotalmass (0: off)
          gp,     \* per geom: [m, c, I12, rb]  mass, centre and 12 x inertia tensor about the centre in the frame of the
                  \*           reporting body rb
          mp,     \* per mesh geom: integrals over the triangles (<< >> for the other kinds)
          tot,    \* per reporting body: [M, S]
          inA, inB,   \* per reporting body: 12 M x inertia tensor about the centre of mass (two derivations)
          range,  \* compiler.inertiagrouprange
          ncomp,  \* compiles finished so far
          edits,  \* edits applied since the last compile
          how,    \* how the running compile was started: "compile" | "recompile" | "compile2"
          hist,   \* one record per finished compile: [how, edits, geoms, range, bodies]
          ev
vars == <<stage, G, child, tmass, gp, mp, tot, inA, inB, range, ncomp, edits, how, hist, ev>>
life == <<range, ncomp, edits, how, hist>>

ng == Len(G)
IsMesh(g)  == g.kind \in {"mesh", "meshshell"}
IsShell(g) == g.kind \in {"shell", "meshshell"}
Pick(S) == IF Rand THEN {RandomElement(S)} ELSE S
OneOf(S)  == CHOOSE x \in S : TRUE

Init == /\ stage = "child" /\ G = << >> /\ child = << >> /\ tmass = 0 /\ gp = << >> /\ mp = << >> /\ tot = << >>
        /\ inA = << >> /\ inB = << >> /\ ev = [op |-> "init"]
        /\ range = <<0, 5>> /\ ncomp = 0 /\ edits = << >> /\ how = "compile" /\ hist = << >>

\* a geom is selected for inertia inference iff its group lies in the range; the moving body b1 must keep a selected geom
InRange(g, rg) == rg[1] <= g.group /\ g.group <= rg[2]
Selected(g) == InRange(g, range)
ValidContent(gs, rg) == \E i \in 1..Len(gs) : gs[i].own = 1 /\ InRange(gs[i], rg)

Child(mode, cp, cr, tm, rg) ==
  /\ stage = "child"
  /\ (~Rand /\ mode = "none") => (cp = OneOf(ChildPoss) /\ cr = OneOf(ChildRots))     \* unused choices: one representative
  /\ child' = [mode |-> mode, pos |-> IF mode = "none" THEN Z3 ELSE cp, R |-> IF mode = "none" THEN I3 ELSE cr]
  /\ tmass' = tm
  /\ range' = rg
  /\ stage' = "build"
  /\ UNCHANGED <<G, gp, mp, tot, inA, inB, ev, ncomp, edits, how, hist>>

\* geoms of the child body come after at least one geom of b1 (b1 must have mass: it carries the joint)
AddGeom(kind, hs, pos, R, dens, moff, tess, mmode, own, grp) ==
  /\ stage = "build" /\ ng < MaxGeoms
  /\ (ng = 0) => (range[1] <= grp /\ grp <= range[2])
  /\ own = 2 => (child.mode # "none" /\ ng >= 1)
  /\ (ng = 0) => own = 1
  /\ (~Rand /\ kind \notin {"mesh", "meshshell"}) => (moff = OneOf(MeshOffs) /\ tess = OneOf(Tess))
  /\ (~Rand /\ kind # "mesh") => mmode = OneOf(MeshModes)
  /\ G' = Append(G, [kind |-> kind, hs |-> hs, pos |-> pos, R |-> R, dens |-> dens,
                     moff |-> IF kind \in {"mesh", "meshshell"} THEN moff ELSE Z3,
                     tess |-> IF kind \in {"mesh", "meshshell"} THEN tess ELSE 0,
                     mmode |-> IF kind = "mesh" THEN mmode ELSE "exact", own |-> own, group |-> grp])
  /\ UNCHANGED <<stage, child, tmass, gp, mp, tot, inA, inB, ev, life>>

Close == /\ stage = "build" /\ ng >= 1
         /\ stage' = "geom"
         /\ UNCHANGED <<G, child, tmass, gp, mp, tot, inA, inB, ev, life>>

\* ------------------------------------------------------------------------------------------------
\* Geom: mass, centre and inertia of every geom from the closed forms, expressed in the reporting body's frame
\* ------------------------------------------------------------------------------------------------
Vol(hs)  == 8 * hs[1] * hs[2] * hs[3]
Area(hs) == 8 * (hs[1] * hs[2] + hs[2] * hs[3] + hs[3] * hs[1])
GMass(g) == IF g.kind = "boxmass" THEN g.dens ELSE IF IsShell(g) THEN g.dens * Area(g.hs) ELSE g.dens * Vol(g.hs)
\* 12 x principal inertia in the geom frame
BoxI12(m, hs) == LET a2 == hs[1] * hs[1]  b2 == hs[2] * hs[2]  c2 == hs[3] * hs[3] IN
                 <<4 * m * (b2 + c2), 4 * m * (a2 + c2), 4 * m * (a2 + b2)>>
\* six plates: faces x = +-a carry mx each, and so on; a plate of mass m and sides u, v has m u^2 / 12 about the in-plane
\* axis parallel to v, m (u^2 + v^2) / 12 about its normal, plus m h^2 for an axis at distance h
ShellI12(s, hs) == LET a == hs[1]  b == hs[2]  c == hs[3]
                       mx == s * 4 * b * c  my == s * 4 * a * c  mz == s * 4 * a * b IN
                   <<2 * (mz * (4 * b * b + 12 * c * c) + my * (4 * c * c + 12 * b * b) + mx * (4 * b * b + 4 * c * c)),
                     2 * (mz * (4 * a * a + 12 * c * c) + mx * (4 * c * c + 12 * a * a) + my * (4 * a * a + 4 * c * c)),
                     2 * (mx * (4 * b * b + 12 * a * a) + my * (4 * a * a + 12 * b * b) + mz * (4 * a * a + 4 * b * b))>>
LocalI12(g) == IF IsShell(g) THEN ShellI12(g.dens, g.hs) ELSE BoxI12(GMass(g), g.hs)
\* R diag(d) R' entry by entry
RDRt(R, d) == [i \in 1..3 |-> [j \in 1..3 |-> R[i][1] * d[1] * R[j][1] + R[i][2] * d[2] * R[j][2] + R[i][3] * d[3] * R[j][3]]]
\* frame of the geom's owner in the reporting body's frame
Fused(g)  == g.own = 2 /\ child.mode = "fused"
RepBody(g) == IF g.own = 2 /\ child.mode = "separate" THEN 2 ELSE 1
OwnR(g)   == IF Fused(g) THEN child.R ELSE I3
OwnP(g)   == IF Fused(g) THEN child.pos ELSE Z3
GeomProps(g) ==
  LET Rw == MM(OwnR(g), g.R)
      cl == VAdd(g.pos, MV(g.R, g.moff))               \* centre in the owner's frame (the mesh offset moves the box)
  IN [m |-> GMass(g), c |-> VAdd(OwnP(g), MV(OwnR(g), cl)),
      I12 |-> RDRt(Rw, LocalI12(g)), rb |-> RepBody(g)]

\* what a fresh compiler object holds for a geom it never compiled with inertia inference: no mass
NoProps(g) == [m |-> 0, c |-> Z3, I12 |-> Z33, rb |-> RepBody(g)]
\* only the geoms selected NOW are recomputed; the others keep the record of the last compile that selected them
Geom == /\ stage = "geom"
        /\ gp' = [i \in 1..ng |-> IF Selected(G[i]) THEN GeomProps(G[i])
                                   ELSE IF i <= Len(gp) THEN [gp[i] EXCEPT !.rb = RepBody(G[i])] ELSE NoProps(G[i])]
        /\ stage' = "mesh"
        /\ UNCHANGED <<G, child, tmass, mp, tot, inA, inB, ev, life>>
\* the same for a fresh spec of the current content (no history)
FreshGp == [i \in 1..ng |-> IF Selected(G[i]) THEN GeomProps(G[i]) ELSE NoProps(G[i])]
\* which geoms a body sums over
Counted(p, i) == p[i].m > 0 /\ (Design = "group" => Selected(G[i]))

\* ------------------------------------------------------------------------------------------------
\* Mesh: integrals over the triangle soup (mesh frame)
\*   volume mesh:  6 V = sum det,  24 int x = sum det (p+q+r),  120 int x x' = sum det (pp' + qq' + rr' + ss'), s = p+q+r
\*   shell mesh:   2 A = sum |n|,   6 int x = sum |n| s,         24 int x x' = sum |n| (pp' + qq' + rr' + ss')
\*   (n = (q - p) x (r - p) is parallel to a coordinate axis, so |n| = |n1| + |n2| + |n3|)
\* ------------------------------------------------------------------------------------------------
TriW(g, p, q, r) == IF IsShell(g) THEN LET n == Cross(VSub(q, p), VSub(r, p)) IN IAbs(n[1]) + IAbs(n[2]) + IAbs(n[3])
                    ELSE Dot(p, Cross(q, r))
TriSecond(p, q, r) == LET s == VAdd(p, VAdd(q, r)) IN
                      MAdd(MAdd(Outer(p, p), Outer(q, q)), MAdd(Outer(r, r), Outer(s, s)))
MeshInt(g) ==
  LET V == MeshVerts(g.hs, g.moff)
      T == Tris(g.tess)
      w == [k \in 1..12 |-> TriW(g, V[T[k][1]], V[T[k][2]], V[T[k][3]])]
  IN [w0 |-> SumN(w, 12),
      w1 |-> VSumN([k \in 1..12 |-> VScl(w[k], VAdd(V[T[k][1]], VAdd(V[T[k][2]], V[T[k][3]])))], 12),
      w2 |-> MSumN([k \in 1..12 |-> MScl(w[k], TriSecond(V[T[k][1]], V[T[k][2]], V[T[k][3]]))], 12),
      minw |-> CHOOSE x \in {w[k] : k \in 1..12} : \A k \in 1..12 : x <= w[k]]

Mesh == /\ stage = "mesh"
        /\ mp' = [i \in 1..ng |-> IF IsMesh(G[i]) THEN MeshInt(G[i]) ELSE << >>]
        /\ stage' = "total"
        /\ UNCHANGED <<G, child, tmass, gp, tot, inA, inB, ev, life>>

\* ------------------------------------------------------------------------------------------------
\* Total, InA, InB per reporting body
\* ------------------------------------------------------------------------------------------------
RBs == IF child.mode = "separate" THEN {1, 2} ELSE {1}
\* the derivations, as operators of the per-geom records p (gp after a history, FreshGp for a fresh spec)
CntOf(p, r) == {i \in 1..ng : Counted(p, i) /\ p[i].rb = r}
TotOf(p, r) == [M |-> SumN([i \in 1..ng |-> IF i \in CntOf(p, r) THEN p[i].m ELSE 0], ng),
                S |-> VSumN([i \in 1..ng |-> IF i \in CntOf(p, r) THEN VScl(p[i].m, p[i].c) ELSE Z3], ng)]
\* A: rotated geom tensors + pairwise parallel-axis terms; everything times 12 M
PairTerm(p, i, j) == MScl(12 * p[i].m * p[j].m, PAx(VSub(p[i].c, p[j].c)))
RECURSIVE PairSum(_, _, _, _)
PairSum(p, r, i, j) == IF i > ng THEN Z33
                       ELSE IF j > ng THEN PairSum(p, r, i + 1, i + 2)
                       ELSE MAdd(IF i \in CntOf(p, r) /\ j \in CntOf(p, r) THEN PairTerm(p, i, j) ELSE Z33, PairSum(p, r, i, j + 1))
InAOf(p, r) == MAdd(MScl(TotOf(p, r).M, MSumN([i \in 1..ng |-> IF i \in CntOf(p, r) THEN p[i].I12 ELSE Z33], ng)),
                    PairSum(p, r, 1, 2))
\* B: tensors about the body origin, then one shift by the centre of mass c = S / M:  M (|c|^2 1 - c c') = PAx(S) / M
AboutOrigin(p, i) == MAdd(p[i].I12, MScl(12 * p[i].m, PAx(p[i].c)))
InBOf(p, r) == MSub(MScl(TotOf(p, r).M, MSumN([i \in 1..ng |-> IF i \in CntOf(p, r) THEN AboutOrigin(p, i) ELSE Z33], ng)),
                    MScl(12, PAx(TotOf(p, r).S)))
Of(r) == CntOf(gp, r)

Total == /\ stage = "total"
         /\ tot' = [r \in RBs |-> TotOf(gp, r)]
         /\ stage' = "inA"
         /\ UNCHANGED <<G, child, tmass, gp, mp, inA, inB, ev, life>>
InertiaA == /\ stage = "inA"
            /\ inA' = [r \in RBs |-> InAOf(gp, r)]
            /\ stage' = "inB"
            /\ UNCHANGED <<G, child, tmass, gp, mp, tot, inB, ev, life>>
InertiaB == /\ stage = "inB"
            /\ inB' = [r \in RBs |-> InBOf(gp, r)]
            /\ stage' = "fin"
            /\ UNCHANGED <<G, child, tmass, gp, mp, tot, inA, ev, life>>

\* ------------------------------------------------------------------------------------------------
\* Finish: publish.  settotalmass T scales every mass and inertia by T / (total mass of the model)
\*   mass = mnum / mden, com = S / M, inertia tensor = I / iden  (xx, yy, zz, xy, xz, yz)
\* ------------------------------------------------------------------------------------------------
MTot == SumN([i \in 1..ng |-> IF \E r \in RBs : i \in Of(r) THEN gp[i].m ELSE 0], ng)
Pub(r) == LET M == tot[r].M  A == inA[r]  k == IF tmass > 0 THEN tmass ELSE 1  d == IF tmass > 0 THEN MTot ELSE 1 IN
          IF M = 0 THEN [id |-> r, zero |-> TRUE, mnum |-> 0, mden |-> 1, S |-> Z3, M |-> 1, I |-> <<0, 0, 0, 0, 0, 0>>,
                         inum |-> 1, iden |-> 1, ngeom |-> 0]
          ELSE [id |-> r, zero |-> FALSE, mnum |-> k * M, mden |-> d, S |-> tot[r].S, M |-> M,
                I |-> <<A[1][1], A[2][2], A[3][3], A[1][2], A[1][3], A[2][3]>>, inum |-> k, iden |-> 12 * M * d,
                ngeom |-> Cardinality(Of(r))]
Bodies == IF child.mode = "separate" THEN <<Pub(1), Pub(2)>> ELSE <<Pub(1)>>
Finish == /\ stage = "fin"
          /\ hist' = Append(hist, [how |-> how, edits |-> edits, geoms |-> G, range |-> range, bodies |-> Bodies])
          /\ ev' = [op |-> "model", geoms |-> G, child |-> child, tmass |-> tmass, range |-> range,
                    verts |-> [i \in 1..ng |-> IF IsMesh(G[i]) THEN MeshVerts(G[i].hs, G[i].moff) ELSE << >>],
                    faces |-> [i \in 1..ng |-> IF IsMesh(G[i]) THEN Tris(G[i].tess) ELSE << >>],
                    bodies |-> Bodies, hist |-> hist',
                    final |-> (ncomp + 1 >= MaxCompiles \/ child.mode = "fused")]
          /\ ncomp' = ncomp + 1 /\ edits' = << >>
          /\ stage' = "done"
          /\ UNCHANGED <<G, child, tmass, gp, mp, tot, inA, inB, range, how>>

\* ------------------------------------------------------------------------------------------------
\* the spec lives on: edits of the compiled spec, then a second compile of the SAME spec object.
\* (a fused static child is deleted from the spec by the first compile, so such a spec is not edited further here)
\* ------------------------------------------------------------------------------------------------
CanEdit == stage = "done" /\ ncomp < MaxCompiles /\ child.mode # "fused" /\ Len(edits) < MaxEdits
EditGeom(op, i, field, val) ==
  /\ CanEdit /\ op \in EditKinds /\ i \in 1..ng /\ G[i][field] # val
  /\ ValidContent([G EXCEPT ![i][field] = val], range)
  /\ G' = [G EXCEPT ![i][field] = val]
  /\ edits' = Append(edits, [op |-> op, i |-> i, val |-> val])
  /\ UNCHANGED <<stage, child, tmass, gp, mp, tot, inA, inB, ev, range, ncomp, how, hist>>
EditGroup(i, grp)  == EditGeom("group", i, "group", grp)
EditDensity(i, d)  == EditGeom("density", i, "dens", d)            \* the explicit mass for kind "boxmass" (EditMass)
EditSize(i, hs)    == ~IsMesh(G[i]) /\ EditGeom("size", i, "hs", hs)
EditPos(i, pos)    == EditGeom("pos", i, "pos", pos)
EditRange(rg) ==
  /\ CanEdit /\ "range" \in EditKinds /\ rg # range /\ ValidContent(G, rg)
  /\ range' = rg
  /\ edits' = Append(edits, [op |-> "range", i |-> 0, val |-> rg])
  /\ UNCHANGED <<stage, G, child, tmass, gp, mp, tot, inA, inB, ev, ncomp, how, hist>>
Recompile(h) ==
  /\ stage = "done" /\ ncomp < MaxCompiles /\ child.mode # "fused"
  /\ how' = h
  /\ stage' = "geom"
  /\ UNCHANGED <<G, child, tmass, gp, mp, tot, inA, inB, ev, range, ncomp, edits, hist>>

Next == \/ \E mode \in Pick(ChildModes), cp \in Pick(ChildPoss), cr \in Pick(ChildRots), tm \in Pick(TotalMasses),
              rg \in Pick(Ranges) : Child(mode, cp, cr, tm, rg)
        \/ \E kind \in Pick(Kinds), hs \in Pick(HalfSizes), pos \in Pick(Offsets), R \in Pick(Rots), dens \in Pick(Densities),
              moff \in Pick(MeshOffs), tess \in Pick(Tess), mmode \in Pick(MeshModes),
              own \in Pick(IF stage = "build" /\ ng >= 1 /\ child.mode # "none" THEN {1, 2} ELSE {1}),
              grp \in Pick(IF stage = "build" /\ ng = 0 /\ {x \in Groups : range[1] <= x /\ x <= range[2]} # {}
                           THEN {x \in Groups : range[1] <= x /\ x <= range[2]} ELSE Groups) : AddGeom(kind, hs, pos, R, dens, moff, tess, mmode, own, grp)
        \/ Close \/ Geom \/ Mesh \/ Total \/ InertiaA \/ InertiaB \/ Finish
        \/ (stage = "done" /\ ncomp < MaxCompiles /\
              \/ \E i \in Pick(1..ng), grp \in Pick(Groups) : EditGroup(i, grp)
              \/ \E i \in Pick(1..ng), d \in Pick(Densities) : EditDensity(i, d)
              \/ \E i \in Pick(1..ng), hs \in Pick(HalfSizes) : EditSize(i, hs)
              \/ \E i \in Pick(1..ng), pos \in Pick(Offsets) : EditPos(i, pos)
              \/ \E rg \in Pick(Ranges) : EditRange(rg)
              \/ \E h \in Pick(Hows) : Recompile(h))
Spec == Init /\ [][Next]_vars

\* ------------------------------------------------------------------------------------------------
\* properties.  A derived variable never changes once its stage has run, so every property is evaluated in the one stage
\* that follows the stage which completes the variables it speaks about.
\* ------------------------------------------------------------------------------------------------
TypeOK == /\ stage \in {"child", "build", "geom", "mesh", "total", "inA", "inB", "fin", "done"}
          /\ ng <= MaxGeoms
          /\ \A i \in 1..ng : G[i].R \in Rot24 /\ G[i].own \in {1, 2}
          /\ stage = "mesh" => \A i \in 1..ng : Selected(G[i]) => gp[i].m > 0
          /\ ncomp <= MaxCompiles /\ Len(hist) = ncomp /\ Len(edits) <= MaxEdits
          /\ (stage \notin {"child", "build"}) => ValidContent(G, range)

\* the rotated geom tensor stays diagonal (axis-aligned boxes) and keeps its trace and its set of principal moments
GeomTensorProper == stage = "mesh" => \A i \in 1..ng : Selected(G[i]) =>
    /\ Sym(gp[i].I12)
    /\ gp[i].I12[1][2] = 0 /\ gp[i].I12[1][3] = 0 /\ gp[i].I12[2][3] = 0
    /\ LET d == LocalI12(G[i]) IN
       /\ Trace(gp[i].I12) = d[1] + d[2] + d[3]
       /\ {gp[i].I12[1][1], gp[i].I12[2][2], gp[i].I12[3][3]} = {d[1], d[2], d[3]}
       /\ d[1] + d[2] >= d[3] /\ d[1] + d[3] >= d[2] /\ d[2] + d[3] >= d[1]

\* the 12-triangle mesh has the box's volume / area, centre and second moments, for every tessellation and offset
MeshIsBox == stage = "total" => \A i \in 1..ng : IsMesh(G[i]) =>
    LET g == G[i]  a == g.hs[1]  b == g.hs[2]  c == g.hs[3]  o == g.moff  m == mp[i] IN
    IF IsShell(g)
    THEN /\ m.w0 = 2 * Area(g.hs)
         /\ m.w1 = VScl(3 * m.w0, o)
         /\ m.w2 = MAdd(MScl(24 * Area(g.hs), Outer(o, o)),
                        Diag(<<64 * a * a * (a * b + a * c + 3 * b * c), 64 * b * b * (a * b + b * c + 3 * a * c),
                               64 * c * c * (a * c + b * c + 3 * a * b)>>))
         /\ m.minw > 0
    ELSE /\ m.w0 = 6 * Vol(g.hs)
         /\ m.w1 = VScl(4 * m.w0, o)
         /\ m.w2 = MAdd(MScl(120 * Vol(g.hs), Outer(o, o)), MScl(40 * Vol(g.hs), Diag(<<a * a, b * b, c * c>>)))
\* ... and therefore the box's inertia: density x (tr Q 1 - Q) with Q the second moment about the mesh's own centre
MeshInertiaIsBox == stage = "total" => \A i \in 1..ng : IsMesh(G[i]) =>
    LET g == G[i]  o == g.moff  m == mp[i] IN
    IF IsShell(g)
    THEN MScl(g.dens, CovToInertia(MSub(m.w2, MScl(24 * Area(g.hs), Outer(o, o))))) = MScl(2, Diag(LocalI12(g)))
    ELSE MScl(g.dens, CovToInertia(MSub(m.w2, MScl(120 * Vol(g.hs), Outer(o, o))))) = MScl(10, Diag(LocalI12(g)))

\* the parallel-axis theorem: both derivations of the body tensor agree
ParallelAxis == stage = "fin" => \A r \in RBs : inA[r] = inB[r]
TensorProper == stage = "fin" => \A r \in RBs : Of(r) # {} =>
    LET A == inA[r] IN
    /\ Sym(A)
    /\ A[1][1] > 0 /\ A[2][2] > 0 /\ A[3][3] > 0
    /\ A[1][1] + A[2][2] >= A[3][3] /\ A[1][1] + A[3][3] >= A[2][2] /\ A[2][2] + A[3][3] >= A[1][1]
\* 0 < 2 x'Ix <= tr(I) |x|^2 on the lattice directions (a necessary condition for positive principal moments obeying
\* the triangle inequality; a sufficient one would need all directions)
Dirs == {x \in {-1, 0, 1} \X {-1, 0, 1} \X {-1, 0, 1} : x # Z3}
\* (decided where the entries are below 10^8, so that the quadratic forms stay inside TLC's 32-bit integers)
MaxAbs(A) == LET S == {IAbs(A[i][j]) : i \in 1..3, j \in 1..3} IN CHOOSE x \in S : \A y \in S : y <= x
TriangleOnDirections == stage = "fin" => \A r \in RBs : (Of(r) # {} /\ MaxAbs(inA[r]) <= 100000000) =>
    \A x \in Dirs : LET q == Dot(x, MV(inA[r], x)) IN q > 0 /\ 2 * q <= Trace(inA[r]) * Dot(x, x)
\* a single geom: centre of mass = geom centre, tensor = geom tensor
SingleGeom == stage = "fin" => \A r \in RBs : Cardinality(Of(r)) = 1 =>
    LET i == CHOOSE k \in Of(r) : TRUE IN tot[r].S = VScl(tot[r].M, gp[i].c) /\ inA[r] = MScl(tot[r].M, gp[i].I12)
\* the published record is the derived one
Published == stage = "done" => /\ ev.op = "model" /\ ev.hist = hist /\ hist[Len(hist)].bodies = ev.bodies
                               /\ \A k \in 1..Len(ev.bodies) : LET b == ev.bodies[k] IN
                                     ~b.zero => (b.M = tot[b.id].M /\ b.S = tot[b.id].S /\ b.mnum > 0 /\ b.iden > 0)
\* after any history of edits and recompiles the compiled properties are those of a fresh spec with the current content
HistoryIndependent == stage = "fin" => \A r \in RBs : tot[r] = TotOf(FreshGp, r) /\ inA[r] = InAOf(FreshGp, r)
\* ... in particular a geom outside the range contributes nothing, whatever it contributed before
UnselectedCountsNothing == stage = "fin" => \A r \in RBs :
    tot[r].M = SumN([i \in 1..ng |-> IF Selected(G[i]) /\ RepBody(G[i]) = r THEN GMass(G[i]) ELSE 0], ng)

\* deliberately false claims (negative controls of the specification itself)
NegNoProducts == stage = "fin" => \A r \in RBs : inA[r][1][2] = 0 /\ inA[r][1][3] = 0 /\ inA[r][2][3] = 0
NegComAtFirstGeom == stage = "fin" => tot[1].S = VScl(tot[1].M, gp[1].c)
\* (the third negative control is HistoryIndependent itself under Design = "massonly")

\* ------------------------------------------------------------------------------------------------
\* constants of the configurations (cfg files cannot hold tuples)
\* ------------------------------------------------------------------------------------------------
Rx == <<<<1, 0, 0>>, <<0, 0, -1>>, <<0, 1, 0>>>>     \* quarter turn about x
Ry == <<<<0, 0, 1>>, <<0, 1, 0>>, <<-1, 0, 0>>>>
Rz == <<<<0, -1, 0>>, <<1, 0, 0>>, <<0, 0, 1>>>>
R_One == {I3}
R_Rz == {Rz}
R_Two == {I3, MM(Rx, Rz)}
R_Three == {I3, Rz, MM(Rx, Rz)}
R_All == Rot24
H_One == {<<1, 2, 3>>}
H_Two == {<<1, 1, 1>>, <<1, 2, 3>>}
H_Many == {<<1, 1, 1>>, <<1, 2, 3>>, <<2, 1, 1>>, <<3, 1, 2>>, <<2, 2, 1>>, <<1, 3, 1>>, <<2, 3, 2>>}
O_Zero == {Z3}
O_One == {<<1, -2, 1>>}
O_Two == {<<1, 0, 0>>, <<1, -2, 1>>}
O_Few == {Z3, <<1, 0, 0>>, <<1, -2, 1>>}
O_Mid == {Z3, <<1, 0, 0>>, <<0, -1, 0>>, <<1, -2, 1>>, <<-2, 0, 1>>}
O_Cube == {-2, -1, 0, 1, 2} \X {-2, -1, 0, 1, 2} \X {-2, -1, 0, 1, 2}
MO_Zero == {Z3}
MO_Few == {Z3, <<1, -1, 2>>}
MO_Cube == {-1, 0, 1, 2} \X {-1, 0, 1, 2} \X {-1, 0, 1, 2}
D_One == {1}
D_Two == {1, 2}
D_Three == {1, 2, 3}
K_Box == {"box"}
K_BoxShell == {"box", "shell"}
K_NoMesh == {"box", "boxmass", "shell"}
K_Mesh == {"mesh", "meshshell"}
K_All == {"box", "boxmass", "shell", "mesh", "meshshell"}
T_Zero == {0}
T_Few == {0, 21, 63}
T_All == 0..63
MM_Exact == {"exact"}
MM_Both == {"exact", "legacy"}
C_None == {"none"}
C_All == {"none", "fused", "separate"}
CP_Few == {<<1, 0, -1>>}
CP_Cube == {-1, 0, 1} \X {-1, 0, 1} \X {-1, 0, 1}
TM_Off == {0}
TM_Some == {0, 7}
TM_Many == {0, 1, 7, 12}
G_Zero == {0}
G_Two == {0, 3}
G_All == 0..5
RG_All == {<<0, 5>>}
RG_Two == {<<0, 5>>, <<0, 2>>}
RG_Many == {<<0, 5>>, <<0, 2>>, <<3, 5>>, <<1, 4>>, <<0, 0>>}
E_None == {}
E_All == {"group", "range", "density", "size", "pos"}
E_Sel == {"group", "range", "density"}
E_Quick == {"group", "range", "density", "size"}
E_GR == {"group", "range"}
HW_Both == {"recompile", "compile2"}
C_NoFuse == {"none", "separate"}
=============================================================================
