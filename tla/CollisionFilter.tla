--------------------------- MODULE CollisionFilter ---------------------------
\* Which geom pairs receive contacts (src/engine/engine_collision_driver.c: mj_collision, mj_broadphase,
\* filterBodyPair, filterBitmask, filterCollisionPair, mj_collideTree).
\*
\* A model is a forest of bodies under the world (0): "dyn" = slide joint along z, "weld" = no joint (welded to
\* its parent), "mocap" = mocap child of the world.  Geoms are spheres at integer (x, z) with integer radius
\* and planes z = const (normal +z) on bodies without degrees of freedom; each geom has contype / conaffinity,
\* a margin in quarter units and an integer gap.  Explicit geom pairs carry their own margin and gap; exclude
\* elements name two bodies.  Run-time operations move dyn / mocap bodies along z and toggle the disable flags
\* filterparent, midphase, contact and constraint; every mj_forward is modelled in three phases
\* (Broad, Merge, Narrow) and must end with the contact set of the brute-force rule Expected.
\*
\* All distances are compared in quarter units, squared for sphere pairs, so every comparison is an exact
\* integer comparison; configurations in which a pair sits exactly on a margin threshold are excluded (guard
\* OffThreshold): the property does not fix < against <= there.
EXTENDS Integers, Sequences, FiniteSets, TLC
CONSTANTS MaxBodies, MaxGeoms, PerBody, MaxPairs, MaxExcl, MaxOps,
          BodyKinds,    \* subset of {"dyn", "weld", "mocap"}
          Radii,        \* sphere radii; 0 stands for a plane
          Xs, Zs,       \* geom coordinates
          Masks,        \* set of <<contype, conaffinity>>, values in 0..3
          Margins,      \* set of <<margin in quarter units, gap>> for geoms
          PairMargins,  \* the same for explicit pairs
          Moves,        \* z offsets of dyn / mocap bodies
          Toggles       \* subset of {"fp", "mid", "con", "cns"}

VARIABLES bodies,    \* sequence of [parent, kind, off]
          geoms,     \* sequence of [body, r (0 = plane), x, z, ct, ca, m4, gap]
          pairs,     \* sequence of [g1, g2, m4, gap], g1 < g2
          excl,      \* set of <<b1, b2>>, b1 < b2
          flags,     \* [fp, mid, con, cns]: TRUE = feature enabled
          phase, cur, bp, cand, nops, ev
vars == <<bodies, geoms, pairs, excl, flags, phase, cur, bp, cand, nops, ev>>

NB == Len(bodies)
NG == Len(geoms)
Lo(a, b) == IF a < b THEN a ELSE b
Hi(a, b) == IF a < b THEN b ELSE a
IAbs(i) == IF i < 0 THEN 0 - i ELSE i
\* bitwise and on 0..3
And2(a, b) == (a % 2) * (b % 2) + 2 * ((a \div 2) * (b \div 2))

\* ---- kinematic tree ------------------------------------------------------------------------------
RECURSIVE Weld(_, _), ZOff(_, _)
Weld(bs, b) == IF b = 0 THEN 0 ELSE IF bs[b].kind = "weld" THEN Weld(bs, bs[b].parent) ELSE b
ZOff(bs, b) == IF b = 0 THEN 0 ELSE bs[b].off + ZOff(bs, bs[b].parent)
W(b)  == Weld(bodies, b)                                        \* body_weldid
WP(b) == IF W(b) = 0 THEN 0 ELSE Weld(bodies, bodies[W(b)].parent)    \* weld id of the weld root's parent
Dofs(w) == IF w = 0 THEN 0 ELSE IF bodies[w].kind = "dyn" THEN 1 ELSE 0
GZ(g) == g.z + ZOff(bodies, g.body)                             \* world height of a geom

\* ---- the documented rules -------------------------------------------------------------------------
\* bodies that may collide at all: different weld groups, not both without degrees of freedom, not parent and
\* child weld groups unless the parent group is the world's or the parent filter is disabled
BodyPairOK(b1, b2) ==
  LET w1 == W(b1)  w2 == W(b2) IN
  IF w1 = w2 THEN FALSE
  ELSE IF Dofs(w1) = 0 /\ Dofs(w2) = 0 THEN FALSE
  ELSE IF flags.fp /\ w1 # 0 /\ w2 # 0 /\ (w1 = WP(b2) \/ w2 = WP(b1)) THEN FALSE
  ELSE TRUE
MaskOK(g1, g2) == And2(g1.ct, g2.ca) # 0 \/ And2(g2.ct, g1.ca) # 0
HasFunc(g1, g2) == g1.r > 0 \/ g2.r > 0                         \* no plane : plane collision function
\* signed comparison "distance < m/4" for a margin m in quarter units
Closer(g1, g2, m) ==
  IF g1.r > 0 /\ g2.r > 0
  THEN LET dx == g1.x - g2.x  dz == GZ(g1) - GZ(g2)  reach == 4 * (g1.r + g2.r) + m IN
       16 * (dx * dx + dz * dz) < reach * reach
  ELSE IF g1.r = 0 /\ g2.r = 0 THEN FALSE
  ELSE LET p == IF g1.r = 0 THEN g1 ELSE g2  s == IF g1.r = 0 THEN g2 ELSE g1 IN
       4 * (GZ(s) - GZ(p) - s.r) < m
OnThreshold(g1, g2, m) ==
  IF g1.r > 0 /\ g2.r > 0
  THEN LET dx == g1.x - g2.x  dz == GZ(g1) - GZ(g2)  reach == 4 * (g1.r + g2.r) + m IN
       16 * (dx * dx + dz * dz) = reach * reach
  ELSE IF g1.r = 0 /\ g2.r = 0 THEN FALSE
  ELSE LET p == IF g1.r = 0 THEN g1 ELSE g2  s == IF g1.r = 0 THEN g2 ELSE g1 IN
       4 * (GZ(s) - GZ(p) - s.r) = m
PairOf(i, j) == {p \in 1..Len(pairs) : pairs[p].g1 = i /\ pairs[p].g2 = j}      \* i < j
MarginOf(i, j) == IF PairOf(i, j) # {} THEN pairs[CHOOSE p \in PairOf(i, j) : TRUE].m4 ELSE geoms[i].m4 + geoms[j].m4
GapOf(i, j)    == IF PairOf(i, j) # {} THEN pairs[CHOOSE p \in PairOf(i, j) : TRUE].gap ELSE geoms[i].gap + geoms[j].gap
Near(i, j) == Closer(geoms[i], geoms[j], MarginOf(i, j) + 4 * GapOf(i, j))
InGap(i, j) == ~Closer(geoms[i], geoms[j], MarginOf(i, j))
\* the brute-force rule of the property for the geom pair i < j
Selected(i, j) ==
  IF PairOf(i, j) # {}
  THEN HasFunc(geoms[i], geoms[j]) /\ Near(i, j)                 \* explicit pair: own parameters, no other filter
  ELSE /\ BodyPairOK(geoms[i].body, geoms[j].body)
       /\ <<Lo(geoms[i].body, geoms[j].body), Hi(geoms[i].body, geoms[j].body)>> \notin excl
       /\ MaskOK(geoms[i], geoms[j])
       /\ HasFunc(geoms[i], geoms[j])
       /\ Near(i, j)
GeomPairs == {<<i, j>> \in (1..NG) \X (1..NG) : i < j}
Expected == IF flags.con /\ flags.cns
            THEN {<<q[1], q[2], IF InGap(q[1], q[2]) THEN 1 ELSE 0>> : q \in {p \in GeomPairs : Selected(p[1], p[2])}}
            ELSE {}
OffThreshold == \A q \in GeomPairs : /\ ~OnThreshold(geoms[q[1]], geoms[q[2]], MarginOf(q[1], q[2]))
                                     /\ ~OnThreshold(geoms[q[1]], geoms[q[2]], MarginOf(q[1], q[2]) + 4 * GapOf(q[1], q[2]))

\* ---- the pipeline ----------------------------------------------------------------------------------
GeomsOf(b) == {i \in 1..NG : geoms[i].body = b}
BodyCt(b) == IF \E i \in GeomsOf(b) : geoms[i].ct \in {1, 3} THEN 1 ELSE 0
BodyCt2(b) == IF \E i \in GeomsOf(b) : geoms[i].ct \in {2, 3} THEN 2 ELSE 0
BodyCa(b) == IF \E i \in GeomsOf(b) : geoms[i].ca \in {1, 3} THEN 1 ELSE 0
BodyCa2(b) == IF \E i \in GeomsOf(b) : geoms[i].ca \in {2, 3} THEN 2 ELSE 0
BCt(b) == BodyCt(b) + BodyCt2(b)                                \* body_contype: or of the geoms' contypes
BCa(b) == BodyCa(b) + BodyCa2(b)
CanCollide(b) == BCt(b) # 0 \/ BCa(b) # 0
BodyMaskOK(b1, b2) == And2(BCt(b1), BCa(b2)) # 0 \/ And2(BCt(b2), BCa(b1)) # 0
\* bodies paired with every other body without a spatial test: the world, and dof-less bodies with a plane
Always(b) == (b = 0 /\ GeomsOf(0) # {}) \/ (Dofs(W(b)) = 0 /\ \E i \in GeomsOf(b) : geoms[i].r = 0)
\* sweep and prune, abstracted to world-axis bounding intervals inflated by margin + gap of each geom
Lo4(i, z) == 4 * ((IF z THEN GZ(geoms[i]) ELSE geoms[i].x) - geoms[i].r) - geoms[i].m4 - 4 * geoms[i].gap
Hi4(i, z) == 4 * ((IF z THEN GZ(geoms[i]) ELSE geoms[i].x) + geoms[i].r) + geoms[i].m4 + 4 * geoms[i].gap
BLo(b, z) == LET S == {Lo4(i, z) : i \in GeomsOf(b)} IN CHOOSE v \in S : \A u \in S : v <= u
BHi(b, z) == LET S == {Hi4(i, z) : i \in GeomsOf(b)} IN CHOOSE v \in S : \A u \in S : v >= u
Overlap(b1, b2) == /\ BLo(b1, TRUE) <= BHi(b2, TRUE) /\ BLo(b2, TRUE) <= BHi(b1, TRUE)
                   /\ BLo(b1, FALSE) <= BHi(b2, FALSE) /\ BLo(b2, FALSE) <= BHi(b1, FALSE)
BodyPairs == {<<a, b>> \in (0..NB) \X (0..NB) : a < b}
BroadSet == {q \in BodyPairs :
               /\ CanCollide(q[1]) /\ CanCollide(q[2]) /\ BodyPairOK(q[1], q[2]) /\ BodyMaskOK(q[1], q[2])
               /\ (Always(q[1]) \/ Always(q[2]) \/ Overlap(q[1], q[2]))}
\* bounding-sphere filter of filterCollisionPair (spheres are their own bounding spheres; plane: half space)
MergeSet == {<<pairs[p].g1, pairs[p].g2>> : p \in {p \in 1..Len(pairs) :
                  HasFunc(geoms[pairs[p].g1], geoms[pairs[p].g2]) /\ Near(pairs[p].g1, pairs[p].g2)}}
            \cup {q \in GeomPairs :
                    /\ <<Lo(geoms[q[1]].body, geoms[q[2]].body), Hi(geoms[q[1]].body, geoms[q[2]].body)>> \in bp \ excl
                    /\ PairOf(q[1], q[2]) = {}
                    /\ MaskOK(geoms[q[1]], geoms[q[2]]) /\ HasFunc(geoms[q[1]], geoms[q[2]]) /\ Near(q[1], q[2])}

\* ---- actions ----------------------------------------------------------------------------------------
Init == /\ bodies = << >> /\ geoms = << >> /\ pairs = << >> /\ excl = {} /\ phase = "build"
        /\ flags = [fp |-> TRUE, mid |-> TRUE, con |-> TRUE, cns |-> TRUE]
        /\ cur = [r |-> 0] /\ bp = {} /\ cand = {} /\ nops = 0 /\ ev = [op |-> "init"]

LastBodyHasGeom == IF NB = 0 THEN TRUE ELSE GeomsOf(NB) # {}
\* a moving body needs mass: at least one sphere
DynHasSphere == \A b \in 1..NB : bodies[b].kind = "dyn" => \E i \in GeomsOf(b) : geoms[i].r > 0

AddBody(p, kd) ==
  /\ phase = "build" /\ NB < MaxBodies /\ NG < MaxGeoms /\ p \in 0..NB
  /\ (IF kd = "mocap" THEN p = 0 ELSE TRUE)
  /\ LastBodyHasGeom = TRUE
  /\ bodies' = Append(bodies, [parent |-> p, kind |-> kd, off |-> 0])
  /\ ev' = [op |-> "body"]
  /\ UNCHANGED <<geoms, pairs, excl, flags, phase, cur, bp, cand, nops>>
NewGeom(r) ==
  /\ phase = "build" /\ NG < MaxGeoms /\ Cardinality(GeomsOf(NB)) < PerBody
  \* planes only on bodies whose weld group has no degree of freedom (compiler rule)
  /\ (IF r > 0 THEN TRUE ELSE Dofs(W(NB)) = 0)
  /\ phase' = "place" /\ cur' = [r |-> r] /\ ev' = [op |-> "shape"]
  /\ UNCHANGED <<bodies, geoms, pairs, excl, flags, bp, cand, nops>>
PlaceGeom(x, z) ==
  /\ phase = "place" /\ (IF cur.r = 0 THEN x = 0 ELSE TRUE)
  /\ phase' = "mask" /\ cur' = [r |-> cur.r, x |-> x, z |-> z] /\ ev' = [op |-> "place"]
  /\ UNCHANGED <<bodies, geoms, pairs, excl, flags, bp, cand, nops>>
MaskGeom(mk) ==
  /\ phase = "mask" /\ phase' = "margin" /\ cur' = [r |-> cur.r, x |-> cur.x, z |-> cur.z, ct |-> mk[1], ca |-> mk[2]]
  /\ ev' = [op |-> "mask"]
  /\ UNCHANGED <<bodies, geoms, pairs, excl, flags, bp, cand, nops>>
MarginGeom(mg) ==
  /\ phase = "margin" /\ phase' = "build"
  \* the new geom is on no threshold with the geoms present (no explicit pairs yet); plane height uses the body offset 0
  /\ (LET g == [body |-> NB, r |-> cur.r, x |-> cur.x, z |-> cur.z, ct |-> cur.ct, ca |-> cur.ca, m4 |-> mg[1], gap |-> mg[2]] IN
      \A i \in 1..NG : /\ ~OnThreshold(geoms[i], g, geoms[i].m4 + mg[1])
                        /\ ~OnThreshold(geoms[i], g, geoms[i].m4 + mg[1] + 4 * (geoms[i].gap + mg[2]))) = TRUE
  /\ geoms' = Append(geoms, [body |-> NB, r |-> cur.r, x |-> cur.x, z |-> cur.z, ct |-> cur.ct, ca |-> cur.ca,
                             m4 |-> mg[1], gap |-> mg[2]])
  /\ ev' = [op |-> "geom"]
  /\ UNCHANGED <<bodies, pairs, excl, flags, cur, bp, cand, nops>>
\* bodies and geoms are complete; explicit pairs and excludes follow
Seal ==
  /\ phase = "build" /\ NB >= 1 /\ NG >= 2 /\ LastBodyHasGeom = TRUE /\ DynHasSphere = TRUE
  /\ phase' = "link" /\ ev' = [op |-> "seal"]
  /\ UNCHANGED <<bodies, geoms, pairs, excl, flags, cur, bp, cand, nops>>
AddPair(i, j) ==
  /\ phase = "link" /\ Len(pairs) < MaxPairs /\ i < j /\ j <= NG /\ PairOf(i, j) = {}
  /\ (IF Len(pairs) = 0 THEN TRUE ELSE <<pairs[Len(pairs)].g1, pairs[Len(pairs)].g2>> # <<i, j>>)
  /\ phase' = "pairprm" /\ cur' = [g1 |-> i, g2 |-> j] /\ ev' = [op |-> "pair"]
  /\ UNCHANGED <<bodies, geoms, pairs, excl, flags, bp, cand, nops>>
PairParam(mg) ==
  /\ phase = "pairprm" /\ phase' = "link"
  /\ (/\ ~OnThreshold(geoms[cur.g1], geoms[cur.g2], mg[1])
      /\ ~OnThreshold(geoms[cur.g1], geoms[cur.g2], mg[1] + 4 * mg[2])) = TRUE
  /\ pairs' = Append(pairs, [g1 |-> cur.g1, g2 |-> cur.g2, m4 |-> mg[1], gap |-> mg[2]])
  /\ ev' = [op |-> "pairprm"]
  /\ UNCHANGED <<bodies, geoms, excl, flags, cur, bp, cand, nops>>
AddExcl(a, b) ==
  /\ phase = "link" /\ Cardinality(excl) < MaxExcl /\ a < b /\ b <= NB /\ <<a, b>> \notin excl
  /\ excl' = excl \cup {<<a, b>>} /\ ev' = [op |-> "exclude"]
  /\ UNCHANGED <<bodies, geoms, pairs, flags, phase, cur, bp, cand, nops>>
Compile ==
  /\ phase = "link" /\ OffThreshold = TRUE
  /\ phase' = "broad" /\ ev' = [op |-> "compile"]
  /\ UNCHANGED <<bodies, geoms, pairs, excl, flags, cur, bp, cand, nops>>

Step == nops < MaxOps /\ nops' = nops + 1
\* qpos of the slide joint / mocap_pos
Move(b, z) ==
  /\ phase = "ready" /\ Step /\ b \in 1..NB /\ bodies[b].kind \in {"dyn", "mocap"} /\ bodies[b].off # z
  /\ bodies' = [bodies EXCEPT ![b].off = z]
  /\ phase' = "moved" /\ ev' = [op |-> "move", body |-> b, z |-> z]
  /\ UNCHANGED <<geoms, pairs, excl, flags, cur, bp, cand>>
\* a move that puts a pair exactly on a threshold is outside the lattice: such behaviours stop here
Settle == /\ phase = "moved" /\ OffThreshold = TRUE /\ phase' = "broad" /\ ev' = [op |-> "settle"]
          /\ UNCHANGED <<bodies, geoms, pairs, excl, flags, cur, bp, cand, nops>>
Toggle(f) ==
  /\ phase = "ready" /\ Step
  /\ flags' = [flags EXCEPT ![f] = ~flags[f]]
  /\ phase' = "broad" /\ ev' = [op |-> "toggle", flag |-> f]
  /\ UNCHANGED <<bodies, geoms, pairs, excl, cur, bp, cand>>

\* mj_forward -> mj_collision, three phases
Broad == /\ phase = "broad" /\ phase' = "merge"
         /\ bp' = IF flags.con /\ flags.cns THEN BroadSet ELSE {}
         /\ ev' = [op |-> "broad"]
         /\ UNCHANGED <<bodies, geoms, pairs, excl, flags, cur, cand, nops>>
Merge == /\ phase = "merge" /\ phase' = "narrow"
         /\ cand' = IF flags.con /\ flags.cns THEN MergeSet ELSE {}
         /\ ev' = [op |-> "merge"]
         /\ UNCHANGED <<bodies, geoms, pairs, excl, flags, cur, bp, nops>>
Narrow == /\ phase = "narrow" /\ phase' = "ready"
          /\ ev' = [op |-> "forward",
                    contacts |-> {<<q[1], q[2], IF InGap(q[1], q[2]) THEN 1 ELSE 0>> : q \in {c \in cand : Near(c[1], c[2])}},
                    flags |-> flags]
          /\ UNCHANGED <<bodies, geoms, pairs, excl, flags, cur, bp, cand, nops>>

Next == \/ \E p \in 0..MaxBodies, kd \in BodyKinds : AddBody(p, kd)
        \/ \E r \in Radii : NewGeom(r)
        \/ \E x \in Xs, z \in Zs : PlaceGeom(x, z)
        \/ \E mk \in Masks : MaskGeom(mk)
        \/ \E mg \in Margins : MarginGeom(mg)
        \/ \E i \in 1..MaxGeoms, j \in 1..MaxGeoms : AddPair(i, j)
        \/ \E mg \in PairMargins : PairParam(mg)
        \/ \E a \in 0..MaxBodies, b \in 1..MaxBodies : AddExcl(a, b)
        \/ Seal \/ Compile
        \/ \E b \in 1..MaxBodies, z \in Moves : Move(b, z)
        \/ Settle
        \/ \E f \in Toggles : Toggle(f)
        \/ Broad \/ Merge \/ Narrow
Spec == Init /\ [][Next]_vars

\* ---- properties ---------------------------------------------------------------------------------------
TypeOK == /\ \A i \in 1..NG : geoms[i].body \in 0..NB
          /\ \A b \in 1..NB : bodies[b].parent < b
          /\ \A p \in 1..Len(pairs) : pairs[p].g1 < pairs[p].g2 /\ pairs[p].g2 <= NG
\* the contact set is exactly the brute-force selection
ContactsAreExpected == ev.op = "forward" => ev.contacts = Expected
\* broad phase never drops a body pair that holds a selected dynamic geom pair
BroadComplete == phase \in {"merge", "narrow"} /\ flags.con /\ flags.cns =>
                   \A q \in GeomPairs : (PairOf(q[1], q[2]) = {} /\ Selected(q[1], q[2])) =>
                        <<Lo(geoms[q[1]].body, geoms[q[2]].body), Hi(geoms[q[1]].body, geoms[q[2]].body)>> \in bp
\* every candidate handed to the narrow phase is within margin (bounding spheres are exact for spheres), and a
\* geom pair is a candidate at most once (sets), in particular not both as explicit and as dynamic pair
CandidatesNear == phase = "narrow" => \A c \in cand : Near(c[1], c[2])
\* the midphase flag never changes the result: Expected does not read it
NoContactWhenDisabled == ev.op = "forward" /\ (~flags.con \/ ~flags.cns) => ev.contacts = {}
\* geoms of one weld group, and geoms of two groups without degrees of freedom, never touch through the body-pair
\* mechanism
NoSelfContact == ev.op = "forward" => \A c \in ev.contacts :
                    PairOf(c[1], c[2]) = {} => /\ W(geoms[c[1]].body) # W(geoms[c[2]].body)
                                               /\ Dofs(W(geoms[c[1]].body)) + Dofs(W(geoms[c[2]].body)) > 0
\* negative control (CollisionFilter_Neg.cfg): "an excluded body pair never has a contact" is false because explicit
\* pairs bypass exclusion
NegExcludeAlwaysWins == ev.op = "forward" => \A c \in ev.contacts :
                          <<Lo(geoms[c[1]].body, geoms[c[2]].body), Hi(geoms[c[1]].body, geoms[c[2]].body)>> \notin excl

\* ---- constants for the configurations ---------------------------------------------------------------
MC_Kinds == {"dyn", "weld", "mocap"}
MC_Radii == {0, 1}
MC_Xs == {0}
MC_Zs == {0, 4}
MC_Masks == {<<1, 1>>, <<1, 2>>}
MC_Margins == {<<2, 1>>}
MC_PairMargins == {<<2, 0>>}
MC_Moves == {2}
MC_Toggles == {"fp"}

\* three spheres, up to two explicit pairs: explicit pairs against every body relation
Pair_Kinds == {"dyn", "weld", "mocap"}
Pair_Radii == {1}
Pair_Xs == {0}
Pair_Zs == {0, 1, 4}
Pair_Masks == {<<1, 1>>}
Pair_Margins == {<<0, 0>>}
Pair_PairMargins == {<<2, 0>>, <<10, 1>>}
Pair_Moves == {2}
Pair_Toggles == {"fp"}

\* up to three bodies and a world geom, one geom each, all at one place: every body tree with planes on dof-less bodies
Tree_Kinds == {"dyn", "weld", "mocap"}
Tree_Radii == {0, 1}
Tree_Xs == {0}
Tree_Zs == {0}
Tree_Masks == {<<1, 1>>}
Tree_Margins == {<<0, 0>>}
Tree_PairMargins == {<<2, 0>>}
Tree_Moves == {3}
Tree_Toggles == {"fp"}

\* three bodies with one sphere each (or a sphere of the world): every shape of the body tree, excludes, parent filter
Deep_Kinds == {"dyn", "weld", "mocap"}
Deep_Radii == {1}
Deep_Xs == {0}
Deep_Zs == {0, 1}
Deep_Masks == {<<1, 1>>}
Deep_Margins == {<<0, 0>>}
Deep_PairMargins == {<<2, 0>>}
Deep_Moves == {3}
Deep_Toggles == {"fp"}

Sim_Kinds == {"dyn", "dyn", "weld", "mocap"}
Sim_Radii == {0, 1, 2, 3}
Sim_Xs == {-3, 0, 1, 4}
Sim_Zs == {-4, -1, 0, 2, 3, 6}
Sim_Masks == {<<1, 1>>, <<1, 1>>, <<1, 2>>, <<2, 1>>, <<2, 2>>, <<3, 0>>, <<0, 3>>, <<0, 0>>, <<3, 3>>, <<2, 0>>}
Sim_Margins == {<<0, 0>>, <<2, 0>>, <<2, 1>>, <<6, 0>>, <<0, 2>>}
Sim_PairMargins == {<<0, 0>>, <<2, 0>>, <<10, 1>>, <<1, 2>>}
Sim_Moves == {-3, -1, 0, 1, 2, 5}
Sim_Toggles == {"fp", "mid", "con", "cns"}
=============================================================================
