SPECIFICATION Spec
CONSTANTS
  MaxDepth = 2
  Names <- A_Names
  PtrQuals <- A_PtrQuals
  Extents <- A_Extents
INVARIANT TypeOK
INVARIANT RoundTrip
INVARIANT ParensExact
INVARIANT SameTokens
CHECK_DEADLOCK FALSE
