"""Offline builder for /repo's working tree (engine + user + selected plugins), with a per-object cache.

Every check calls build_lib() first, so results always reflect the current working tree of /repo.
The hook guard is the environment variable MUJOCO_VERIF=1 (default on for checks) -> -DMJ_VERIF_HOOKS.
Exit code convention: a build failure raises BuildError (checks turn it into exit 2 = machinery failure).
"""
import concurrent.futures as cf
import fcntl
import glob
import hashlib
import os
import subprocess
import sys

REPO = os.environ.get("VERIF_REPO", "/repo")
VERIF = os.path.dirname(os.path.dirname(os.path.abspath(__file__)))
CACHE = os.path.join(VERIF, ".cache")
SHIM = os.path.join(VERIF, "shim")


class BuildError(Exception):
    pass


def _sha(*parts):
    h = hashlib.sha256()
    for p in parts:
        if isinstance(p, str):
            p = p.encode()
        h.update(p)
        h.update(b"\0")
    return h.hexdigest()[:24]


def _read(p):
    with open(p, "rb") as f:
        return f.read()


_hdr_digest_cache = {}


def headers_digest():
    """digest of every header a translation unit could include (repo include/, src/**.h, plugin/**.h, shim)"""
    key = "h"
    if key in _hdr_digest_cache:
        return _hdr_digest_cache[key]
    files = []
    for pat in ("include/mujoco/*.h", "src/**/*.h", "src/**/*.inc", "plugin/**/*.h"):
        files += glob.glob(os.path.join(REPO, pat), recursive=True)
    files += glob.glob(os.path.join(SHIM, "**/*.h"), recursive=True)
    files += glob.glob(os.path.join(VERIF, "harness", "**/*.h"), recursive=True)
    files.sort()
    h = hashlib.sha256()
    for f in files:
        h.update(f.encode())
        h.update(_read(f))
    _hdr_digest_cache[key] = h.hexdigest()
    return _hdr_digest_cache[key]


def hooks_on():
    return os.environ.get("MUJOCO_VERIF", "1") == "1"


VARIANTS = {
    # name: (cc, cxx, common flags)
    "plain": ("gcc", "g++", ["-O1", "-fPIC", "-g0", "-mavx", "-DmjUSEPLATFORMSIMD"]),
    "asan": ("clang", "clang++", ["-O1", "-fPIC", "-g", "-fsanitize=address,undefined",
                                   "-fno-sanitize-recover=undefined", "-fno-omit-frame-pointer", "-mavx",
                                   "-DmjUSEPLATFORMSIMD"]),
    # data-race detection for the free-running thread-pool harnesses (C02)
    "tsan": ("clang", "clang++", ["-O1", "-fPIC", "-g", "-fsanitize=thread", "-fno-omit-frame-pointer", "-mavx",
                                   "-DmjUSEPLATFORMSIMD"]),
}
SANLINK = {"asan": "-fsanitize=address,undefined", "tsan": "-fsanitize=thread"}


def base_flags(variant):
    cc, cxx, fl = VARIANTS[variant]
    fl = list(fl) + ["-D_GNU_SOURCE", "-DMUJOCO_DLL_EXPORTS", "-DMC_IMPLEM_ENABLE", "-DmjSTATIC_PLUGINS_OFF",
                     "-I" + os.path.join(REPO, "include"), "-I" + os.path.join(REPO, "src"),
                     "-I" + SHIM, "-w"]
    if hooks_on():
        fl.append("-DMJ_VERIF_HOOKS")
    return cc, cxx, fl


def _obj_path(src, variant="plain", extra=(), lang=None):
    cc, cxx, fl = base_flags(variant)
    is_c = src.endswith(".c") if lang is None else (lang == "c")
    comp = cc if is_c else cxx
    std = "-std=gnu11" if is_c else "-std=c++20"
    flags = [std] + fl + list(extra)
    key = _sha(comp, " ".join(flags), _read(src), headers_digest())
    odir = os.path.join(CACHE, "obj", variant)
    os.makedirs(odir, exist_ok=True)
    return os.path.join(odir, os.path.basename(src) + "." + key + ".o"), comp, flags


def compile_obj(src, variant="plain", extra=(), lang=None):
    """compile one translation unit (cached); returns path of the object file"""
    obj, comp, flags = _obj_path(src, variant, extra, lang)
    if os.path.exists(obj):
        return obj
    tmp = obj + ".tmp%d" % os.getpid()
    r = subprocess.run([comp] + flags + ["-c", src, "-o", tmp], capture_output=True, text=True)
    if r.returncode != 0:
        raise BuildError("compile failed: %s\n%s" % (src, r.stderr[-4000:]))
    os.replace(tmp, obj)
    return obj


def compile_many(srcs, variant="plain", extra=()):
    """compile a list of sources; cache hits are resolved serially, misses compiled in parallel.
    A source may be a path or a (path, [extra flags for this source only]) pair."""
    headers_digest()
    items = [(s, tuple(extra)) if isinstance(s, str) else (s[0], tuple(extra) + tuple(s[1])) for s in srcs]
    res = {}
    todo = []
    for it in items:
        o = _obj_path(it[0], variant, it[1])[0]
        if os.path.exists(o):
            res[it] = o
        else:
            todo.append(it)
    if todo:
        with cf.ThreadPoolExecutor(16) as ex:
            for it, o in zip(todo, ex.map(lambda x: compile_obj(x[0], variant, x[1]), todo)):
                res[it] = o
    return [res[it] for it in items]


def repo_sources():
    s = sorted(glob.glob(os.path.join(REPO, "src/engine/*.c")))
    s += sorted(glob.glob(os.path.join(REPO, "src/engine/*.cc")))
    s += sorted(glob.glob(os.path.join(REPO, "src/user/*.cc")))
    s += [os.path.join(REPO, "src/user/user_init.c")]
    s += [os.path.join(REPO, "plugin/actuator/pid.cc")]
    return s


def _lock():
    os.makedirs(CACHE, exist_ok=True)
    f = open(os.path.join(CACHE, "lock"), "w")
    fcntl.flock(f, fcntl.LOCK_EX)
    return f


def build_lib(variant="plain", quiet=True):
    """build libmujoco_verif.so for the variant from /repo's current working tree; returns its path"""
    lk = _lock()
    try:
        srcs = repo_sources() + [os.path.join(VERIF, "harness", "xml_stubs.cc")]
        objs = compile_many(srcs, variant)
        key = _sha(*objs)
        ldir = os.path.join(CACHE, "lib", variant + "-" + key)
        lib = os.path.join(ldir, "libmujoco_verif.so")
        if not os.path.exists(lib):
            os.makedirs(ldir, exist_ok=True)
            cc, cxx, fl = base_flags(variant)
            cmd = [cxx, "-shared", "-o", lib + ".tmp"] + objs + ["-lm", "-lpthread", "-ldl"]
            if variant in SANLINK:
                cmd.insert(1, SANLINK[variant])
            r = subprocess.run(cmd, capture_output=True, text=True)
            if r.returncode != 0:
                raise BuildError("link failed\n" + r.stderr[-4000:])
            os.replace(lib + ".tmp", lib)
            _prune(os.path.join(CACHE, "lib"), variant, keep=ldir)
        else:
            os.utime(ldir, None)
        return lib
    finally:
        lk.close()


def _prune(libroot, variant, keep, nkeep=40):
    """keep the nkeep most recently used libraries of a variant (several trees may be under test at once:
    /repo itself and scratch worktrees selected with VERIF_REPO)"""
    import shutil
    ds = [d for d in glob.glob(os.path.join(libroot, variant + "-*")) if d != keep]
    ds.sort(key=lambda d: os.stat(d).st_mtime, reverse=True)
    for d in ds[nkeep - 1:]:
        shutil.rmtree(d, ignore_errors=True)


def build_harness(name, sources, variant="plain", extra=(), link_lib=True, libs=(), ldflags=()):
    """compile and link a harness executable from /verif/harness sources (+ optional repo sources)"""
    lib = build_lib(variant) if link_lib else None
    lk = _lock()
    try:
        objs = compile_many(sources, variant, extra)
        key = _sha(*(objs + [lib or ""] + list(libs) + list(ldflags)))
        bdir = os.path.join(CACHE, "bin", variant)
        os.makedirs(bdir, exist_ok=True)
        exe = os.path.join(bdir, name + "." + key)
        if not os.path.exists(exe):
            cc, cxx, fl = base_flags(variant)
            cmd = [cxx, "-o", exe + ".tmp"] + objs
            if variant in SANLINK:
                cmd.insert(1, SANLINK[variant])
            if lib:
                cmd += [lib, "-Wl,-rpath," + os.path.dirname(lib)]
            cmd += list(libs) + list(ldflags) + ["-lm", "-lpthread", "-ldl"]
            r = subprocess.run(cmd, capture_output=True, text=True)
            if r.returncode != 0:
                raise BuildError("harness link failed: %s\n%s" % (name, r.stderr[-4000:]))
            os.replace(exe + ".tmp", exe)
            olds = [o for o in glob.glob(os.path.join(bdir, name + ".*")) if o != exe and ".tmp" not in o]
            olds.sort(key=lambda o: os.stat(o).st_mtime, reverse=True)
            for old in olds[39:]:
                try:
                    os.remove(old)
                except OSError:
                    pass
        else:
            os.utime(exe, None)
        return exe
    finally:
        lk.close()


def prune_objs(max_age_days=2):
    """drop cached objects that were not used recently (keeps the cache bounded)"""
    import time
    now = time.time()
    for f in glob.glob(os.path.join(CACHE, "obj", "*", "*.o")):
        try:
            if now - os.stat(f).st_atime > max_age_days * 86400:
                os.remove(f)
        except OSError:
            pass


if __name__ == "__main__":
    v = sys.argv[1] if len(sys.argv) > 1 else "plain"
    try:
        print(build_lib(v))
    except BuildError as e:
        print(str(e), file=sys.stderr)
        sys.exit(2)
