"""Registry of claimed properties (source of MANIFEST.json; run tools/mkmanifest.py after editing)."""

# id -> dict(engine, technique, text, note, ref)
CLAIMED = {
    "C39": dict(
        engine="tlc-replay",
        technique="TLA+ spec Vfs.tla model-checked by TLC; spec behaviours (edge cover of the exhaustive graph + "
                  "simulation) replayed into the public VFS/resource API with a per-state query battery",
        text="TLC decides set semantics modulo the path-reduction key on Vfs.tla for all histories up to the bound; "
             "every transition of the 3-operation graph and simulated 12-operation behaviours are replayed into "
             "mj_addBufferVFS/mj_addFileVFS/mj_deleteFileVFS/mj_contains*VFS/mju_openResource and compared step by step.",
        note="Trusted: TLC, the harness vfs_drv.cc, Render() of abstract names; legacy base-name lookups with several "
             "candidates are excluded (unordered_map iteration order).",
        ref="DESIGN.md section 4 C39"),
}

# id -> reason (properties not claimed)
NOT_APPLICABLE = {
}
