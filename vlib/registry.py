"""Registry of claimed properties: every checks/cNN.py carries a module-level META dict
(engine, technique, text, note, ref[, category]); NOT_APPLICABLE gives the reason for unclaimed ones.
Run tools/mkmanifest.py after adding a check."""
import glob
import importlib
import os
import re
import sys

VERIF = os.path.dirname(os.path.dirname(os.path.abspath(__file__)))
sys.path.insert(0, VERIF)

# only checks reviewed and enabled by the maintainer of /verif are claimed (one id per line)
ENABLED = set(open(os.path.join(VERIF, "checks", "ENABLED")).read().split())
CLAIMED = {}
for f in sorted(glob.glob(os.path.join(VERIF, "checks", "c[0-9]*.py"))):
    pid = os.path.basename(f)[:-3].upper()
    if pid not in ENABLED:
        continue
    src = open(f).read()
    if not re.search(r'^META\s*=', src, re.M):
        continue
    if re.search(r'^DISABLED\s*=\s*True', src, re.M):
        continue
    mod = importlib.import_module("checks." + pid.lower())
    CLAIMED[pid] = mod.META

# id -> reason (properties not claimed); anything else unclaimed gets the generic "not built yet" reason
NOT_APPLICABLE = {
    "C08": "Energy/momentum drift and its order of convergence are statements about floating-point integration error over the reals; TLC has no reals and no finite abstract state carries the claim.",
    "C10": "Optimality of Newton/CG/PGS against a reference optimizer is numerical optimisation accuracy; there is no finite abstract state for TLC to enumerate and no exact oracle off closed-form cases.",
    "C15": "GJK/EPA depth against a convex-optimisation reference is numeric geometry; the libccd branch cannot even be built offline.",
    "C25": "Analytic vs finite-difference derivatives is an accuracy comparison between two numeric procedures, outside what a TLA+ model can decide.",
    "C45": "JAX gradients vs finite differences: numeric accuracy comparison, outside what a TLA+ model can decide.",
    "C47": "Positivity/physicality of the log-Cholesky map over all of R^10 involves exp and real algebra; TLC has no reals (an SMT/proof-assistant job, not this family).",
}
