"""Common check runner: tiers, seeds, violations, known findings, evidence, exit codes.

exit 0: property held on everything explored (known findings printed as KNOWN-FINDING lines)
exit 1: at least one violation not listed in known_findings.json (prints VIOLATION property=<id> replay=<path>)
exit 2: machinery failure (build error, TLC error, failed negative control, vacuous run)
"""
import hashlib
import importlib
import json
import os
import sys
import time
import traceback

VERIF = os.path.dirname(os.path.dirname(os.path.abspath(__file__)))
sys.path.insert(0, VERIF)

from vlib import build, tlc  # noqa: E402


class Machinery(Exception):
    """the check itself could not run properly (never reported as a violation)"""


class Ctx:
    def __init__(self, pid, tier, seed):
        self.pid = pid
        self.tier = tier
        self.quick = tier == "quick"
        self.seed = seed
        self.t0 = time.time()
        self.violations = []      # dicts: signature, what, replay(dict)
        self.cov = {"states": 0, "transitions": 0, "traces_validated_against_impl": 0, "samples": [],
                    "evaluations": 0, "distinct_nontrivial": 0, "rule": "", "exhaustive": False,
                    "tlc_runs": [], "negative_controls": []}
        self.assumptions = []
        self._distinct = set()
        self.level = "model_checking"
        self.notes = []

    # ---- TLC bookkeeping -------------------------------------------------------------
    def tlc_ok(self, res, name, need_actions=(), allow_violation=False):
        """record a TLC run; a TLC error / timeout is a machinery failure; an invariant violation of the
        *design* is a machinery failure too unless allow_violation (the spec is supposed to satisfy its properties)"""
        self.cov["tlc_runs"].append({"name": name, "generated": res.generated, "distinct": res.distinct,
                                     "depth": res.depth, "wall_s": round(res.wall, 2),
                                     "queue_left": res.queue, "violation": res.violation})
        self.cov["states"] += res.distinct
        self.cov["transitions"] += res.generated
        if res.error:
            raise Machinery("TLC run %s failed: %s\n%s" % (name, res.error, res.out[-3000:]))
        if res.violation and not allow_violation:
            raise Machinery("TLC run %s: specification violates its own property: %s\n%s"
                            % (name, res.violation, res.out[-3000:]))
        if not res.finished:
            raise Machinery("TLC run %s did not finish\n%s" % (name, res.out[-3000:]))
        for a in need_actions:
            if res.coverage and res.coverage.get(a, (0, 0))[1] == 0:
                raise Machinery("vacuity: action %s never taken in TLC run %s" % (a, name))
        return res

    # ---- case accounting --------------------------------------------------------------
    def case(self, key, nontrivial=True, sample=None):
        """count one implementation evaluation; key identifies the case for distinctness"""
        self.cov["evaluations"] += 1
        if nontrivial:
            h = hashlib.sha1(json.dumps(key, sort_keys=True, default=str).encode()).digest()[:10]
            self._distinct.add(h)
        if sample is not None and len(self.cov["samples"]) < 3:
            self.cov["samples"].append(sample)

    def trace_ok(self, n=1):
        self.cov["traces_validated_against_impl"] += n

    def control(self, name, detected):
        """negative control: the machinery must detect a planted discrepancy"""
        self.cov["negative_controls"].append({"name": name, "detected": bool(detected)})
        if not detected:
            raise Machinery("negative control %r was not detected: the check is blind" % name)

    def violation(self, signature, what, replay=None):
        self.violations.append({"signature": signature, "what": what, "replay": replay})

    def assume(self, *a):
        self.assumptions += list(a)


def load_known():
    p = os.path.join(VERIF, "known_findings.json")
    if not os.path.exists(p):
        return []
    return json.load(open(p))


def write_evidence(ctx, nviol):
    ctx.cov["distinct_nontrivial"] = len(ctx._distinct)
    ev = {"property_id": ctx.pid, "tier": ctx.tier, "seed": ctx.seed, "level": ctx.level,
          "coverage": ctx.cov, "assumptions": ctx.assumptions, "wall_s": round(time.time() - ctx.t0, 2),
          "violations": nviol}
    # evidence/ describes runs against /repo itself; runs against a scratch tree (VERIF_REPO) go elsewhere
    edir = os.path.join(VERIF, "evidence") if build.REPO == "/repo" else os.path.join(VERIF, ".cache", "evidence-scratch")
    os.makedirs(edir, exist_ok=True)
    with open(os.path.join(edir, ctx.pid + ".json"), "w") as f:
        json.dump(ev, f, indent=1, default=str)


def main(argv):
    import argparse
    ap = argparse.ArgumentParser()
    ap.add_argument("pid")
    ap.add_argument("--tier", default=os.environ.get("VERIF_TIER", "quick"), choices=["quick", "thorough"])
    ap.add_argument("--replay", default=None)
    a = ap.parse_args(argv)
    seed = int(os.environ.get("VERIF_SEED", "0"))
    os.environ.setdefault("PYTHONHASHSEED", "0")
    ctx = Ctx(a.pid, a.tier, seed)
    try:
        mod = importlib.import_module("checks." + a.pid.lower())
    except ModuleNotFoundError:
        print("no check for", a.pid, file=sys.stderr)
        return 2
    ctx.level = getattr(mod, "META", {}).get("category", "model_checking")
    try:
        if a.replay:
            rp = json.load(open(a.replay))
            mod.replay(ctx, rp)
        else:
            mod.run(ctx)
    except build.BuildError as e:
        print("MACHINERY: build failed:\n" + str(e), file=sys.stderr)
        return 2
    except Machinery as e:
        print("MACHINERY: " + str(e), file=sys.stderr)
        return 2
    except Exception:
        traceback.print_exc()
        print("MACHINERY: unexpected exception in check", file=sys.stderr)
        return 2
    known = [k for k in load_known() if k.get("property") == a.pid and k.get("status") == "known"]
    ksig = {k["signature"]: k for k in known}
    new = []
    seen_known = set()
    for v in ctx.violations:
        if v["signature"] in ksig:
            if v["signature"] not in seen_known:
                seen_known.add(v["signature"])
                print("KNOWN-FINDING: property=%s %s [%s]" % (a.pid, ksig[v["signature"]].get("what", v["what"]),
                                                               v["signature"]))
        else:
            new.append(v)
    ctx.cov["known_findings_seen"] = sorted(seen_known)
    write_evidence(ctx, len(new))
    if new:
        os.makedirs(os.path.join(VERIF, "replays"), exist_ok=True)
        seen = set()
        for i, v in enumerate(new):
            if v["signature"] in seen:
                continue
            seen.add(v["signature"])
            h = hashlib.sha1(v["signature"].encode()).hexdigest()[:10]
            rp = os.path.join(VERIF, "replays", "%s-%s.json" % (a.pid, h))
            with open(rp, "w") as f:
                json.dump({"property": a.pid, "signature": v["signature"], "what": v["what"], "replay": v["replay"]},
                          f, indent=1, default=str)
            print("VIOLATION property=%s replay=%s" % (a.pid, rp))
            print("  " + v["what"][:600])
            if len(seen) >= 10:
                print("  ... (%d violations in total)" % len(new))
                break
        return 1
    print("OK property=%s tier=%s evaluations=%d distinct=%d states=%d traces=%d wall=%.1fs" % (
        a.pid, a.tier, ctx.cov["evaluations"], len(ctx._distinct), ctx.cov["states"],
        ctx.cov["traces_validated_against_impl"], time.time() - ctx.t0))
    return 0
