"""TLC driver: run model checking / simulation / trace validation and parse TLC's output into Python values."""
import glob
import json
import os
import re
import shutil
import subprocess
import tempfile
import time

VERIF = os.path.dirname(os.path.dirname(os.path.abspath(__file__)))
JAR = "/opt/veriftools/tla/tla2tools.jar"
CM = None


class TlcError(Exception):
    pass


# ----------------------------------------------------------------------------------------------
# TLA+ value parser (the textual form TLC prints)
# ----------------------------------------------------------------------------------------------
class FrozenDict(dict):
    def __hash__(self):
        return hash(tuple(sorted((repr(k), repr(v)) for k, v in self.items())))


_tok = re.compile(r'''\s*(?:(<<|>>|\|->|:>|@@|\.\.|[\[\]{}(),])|(-?\d+)|"((?:[^"\\]|\\.)*)"|([A-Za-z_][A-Za-z0-9_]*))''')


def _tokenize(s):
    pos = 0
    out = []
    n = len(s)
    while pos < n:
        m = _tok.match(s, pos)
        if not m:
            if s[pos:].strip() == "":
                break
            raise TlcError("cannot tokenize TLA value at: %r" % s[pos:pos + 40])
        pos = m.end()
        if m.group(1) is not None:
            out.append(("p", m.group(1)))
        elif m.group(2) is not None:
            out.append(("i", int(m.group(2))))
        elif m.group(3) is not None:
            out.append(("s", m.group(3).replace('\\"', '"').replace("\\\\", "\\")))
        else:
            out.append(("id", m.group(4)))
    return out


def _parse(toks, i):
    k, v = toks[i]
    if k == "i":
        if i + 1 < len(toks) and toks[i + 1] == ("p", ".."):
            hi = toks[i + 2][1]
            return frozenset(range(v, hi + 1)), i + 3
        return v, i + 1
    if k == "s":
        return v, i + 1
    if k == "id":
        if v == "TRUE":
            return True, i + 1
        if v == "FALSE":
            return False, i + 1
        return v, i + 1  # model value
    if v == "<<":
        items = []
        i += 1
        while toks[i] != ("p", ">>"):
            x, i = _parse(toks, i)
            items.append(x)
            if toks[i] == ("p", ","):
                i += 1
        return tuple(items), i + 1
    if v == "{":
        items = []
        i += 1
        while toks[i] != ("p", "}"):
            x, i = _parse(toks, i)
            items.append(x)
            if toks[i] == ("p", ","):
                i += 1
        return frozenset(items), i + 1
    if v == "[":
        d = FrozenDict()
        i += 1
        while toks[i] != ("p", "]"):
            name = toks[i][1]
            assert toks[i + 1] == ("p", "|->"), toks[i:i + 3]
            x, i = _parse(toks, i + 2)
            dict.__setitem__(d, name, x)
            if toks[i] == ("p", ","):
                i += 1
        return d, i + 1
    if v == "(":
        d = FrozenDict()
        i += 1
        while True:
            kx, i = _parse(toks, i)
            assert toks[i] == ("p", ":>"), toks[i]
            vx, i = _parse(toks, i + 1)
            dict.__setitem__(d, kx, vx)
            if toks[i] == ("p", "@@"):
                i += 1
                continue
            assert toks[i] == ("p", ")"), toks[i]
            return d, i + 1
    raise TlcError("unexpected token %r" % (toks[i],))


def parse_value(s):
    toks = _tokenize(s)
    v, i = _parse(toks, 0)
    if i != len(toks):
        raise TlcError("trailing tokens in TLA value: %r" % (toks[i:i + 5],))
    return v


def parse_state(text):
    """parse '/\\ x = 1\n/\\ y = <<...>>' (or a single 'x = 1') into a dict"""
    text = text.strip()
    parts = re.split(r'(?:^|\n)\s*/\\ ', "\n" + text)
    st = {}
    for p in parts:
        p = p.strip()
        if not p:
            continue
        m = re.match(r'([A-Za-z_][A-Za-z0-9_]*)\s*=\s*(.*)$', p, re.S)
        if not m:
            raise TlcError("cannot parse state conjunct %r" % p[:80])
        st[m.group(1)] = parse_value(m.group(2))
    return st


def to_py(v):
    """convert parsed TLA value to plain JSON-able python (sets -> sorted lists, tuples -> lists)"""
    if isinstance(v, dict):
        return {(k if isinstance(k, str) else json.dumps(to_py(k))): to_py(x) for k, x in v.items()}
    if isinstance(v, (tuple, list)):
        return [to_py(x) for x in v]
    if isinstance(v, frozenset):
        return sorted((to_py(x) for x in v), key=lambda z: json.dumps(z, sort_keys=True))
    return v


# ----------------------------------------------------------------------------------------------
# running TLC
# ----------------------------------------------------------------------------------------------
class TlcResult:
    def __init__(self):
        self.rc = None
        self.out = ""
        self.generated = 0
        self.distinct = 0
        self.depth = 0
        self.queue = None
        self.violation = None  # text describing the violated property, if any
        self.error = None      # other error text
        self.coverage = {}     # action name -> (distinct, total)
        self.wall = 0.0
        self.finished = False

    @property
    def ok(self):
        return self.finished and self.violation is None and self.error is None


def _mk_tmp():
    root = os.path.join(VERIF, ".cache", "tlc")
    os.makedirs(root, exist_ok=True)
    return tempfile.mkdtemp(prefix="m", dir=root)


def run(spec, cfg, workers=16, args=(), env=None, timeout=600, coverage=False, simulate=None, depth=None,
        seed=None, deadlock=None, java_opts=(), keep_meta=None):
    """run TLC on spec (path to .tla) with cfg; returns TlcResult"""
    spec = os.path.abspath(spec)
    cfg = os.path.abspath(cfg)
    meta = keep_meta or _mk_tmp()
    cmd = ["java", "-XX:+UseParallelGC", "-Xmx8g"] + list(java_opts) + \
          ["-cp", JAR + ":/opt/veriftools/tla/CommunityModules-deps.jar", "tlc2.TLC",
           "-config", cfg, "-workers", str(workers), "-metadir", meta, "-noGenerateSpecTE"]
    if coverage:
        cmd += ["-coverage", "1"]
    if simulate:
        cmd += ["-simulate", simulate]
    if depth is not None:
        cmd += ["-depth", str(depth)]
    if seed is not None:
        cmd += ["-seed", str(seed)]
    cmd += list(args) + [spec]
    e = dict(os.environ)
    if env:
        e.update(env)
    t0 = time.time()
    res = TlcResult()
    try:
        p = subprocess.run(cmd, capture_output=True, text=True, timeout=timeout, env=e,
                           cwd=os.path.dirname(spec))
        res.rc = p.returncode
        res.out = p.stdout + p.stderr
    except subprocess.TimeoutExpired as ex:
        res.rc = -9
        res.out = (ex.stdout or b"").decode(errors="replace") if isinstance(ex.stdout, bytes) else (ex.stdout or "")
        res.error = "timeout after %ds" % timeout
        subprocess.run(["pkill", "-f", meta], capture_output=True)
    finally:
        if not keep_meta:
            shutil.rmtree(meta, ignore_errors=True)
    res.wall = time.time() - t0
    _parse_output(res)
    return res


def _parse_output(res):
    out = res.out
    m = None
    for m in re.finditer(r'(\d+) states generated, (\d+) distinct states found, (\d+) states left on queue', out):
        pass
    if m:
        res.generated, res.distinct, res.queue = int(m.group(1)), int(m.group(2)), int(m.group(3))
    m = re.search(r'The depth of the complete state graph search is (\d+)', out)
    if m:
        res.depth = int(m.group(1))
    if "Model checking completed. No error has been found." in out or "Finished in" in out and "Error:" not in out:
        res.finished = True
    m = re.search(r'Error: (Invariant \S+ is violated|Action property \S+ is violated|Temporal properties were violated|'
                  r'Temporal propert[^\n]*violated|Deadlock reached|The postcondition.*|.*is violated.*)', out)
    if m:
        res.violation = m.group(1).strip()
        res.finished = True
    elif "Error:" in out and res.error is None:
        i = out.index("Error:")
        res.error = out[i:i + 1500]
    # coverage lines: <Action line 10, col 1 to line 12, col 30 of module X>: 12:34
    for m in re.finditer(r'<(\w+) line \d+, col \d+ to line \d+, col \d+ of module (\w+)>: (\d+):(\d+)', out):
        res.coverage[m.group(1)] = (int(m.group(3)), int(m.group(4)))


def trace_summary(res, var="ev", maxlen=60):
    """compact view of a TLC error trace: the values of one variable along the behaviour"""
    vals = re.findall(r'/\\ %s = (.*)' % re.escape(var), res.out)
    return vals[-maxlen:]


def cfg_write(path, text):
    os.makedirs(os.path.dirname(path), exist_ok=True)
    with open(path, "w") as f:
        f.write(text)
    return path


def dump_states(spec, cfg, workers=16, timeout=600, env=None):
    """exhaustive run with '-dump file': returns (TlcResult, list of state dicts)"""
    meta = _mk_tmp()
    dump = os.path.join(meta, "dump")
    res = run(spec, cfg, workers=workers, args=["-dump", dump], timeout=timeout, env=env, keep_meta=meta)
    states = []
    f = dump + ".dump" if os.path.exists(dump + ".dump") else dump
    if os.path.exists(f):
        txt = open(f).read()
        for blk in re.split(r'\nState \d+:\n', "\n" + txt):
            blk = blk.strip()
            if blk:
                states.append(parse_state(blk))
    shutil.rmtree(meta, ignore_errors=True)
    return res, states


def dump_graph(spec, cfg, workers=16, timeout=600, env=None):
    """exhaustive run with '-dump dot,actionlabels': returns (TlcResult, nodes{id:state}, edges[(u,v,action)], init ids)"""
    meta = _mk_tmp()
    dump = os.path.join(meta, "graph")
    res = run(spec, cfg, workers=workers, args=["-dump", "dot,actionlabels", dump], timeout=timeout, env=env,
              keep_meta=meta)
    nodes, edges, inits = {}, [], []
    f = dump + ".dot" if os.path.exists(dump + ".dot") else dump
    if os.path.exists(f):
        for line in open(f):
            m = re.match(r'^(-?\d+) \[label="((?:[^"\\]|\\.)*)"(,style = filled)?', line)
            if m:
                lab = m.group(2).replace("\\n", "\n").replace('\\"', '"').replace("\\\\", "\\")
                nodes[m.group(1)] = parse_state(lab)
                if m.group(3):
                    inits.append(m.group(1))
                continue
            m = re.match(r'^(-?\d+) -> (-?\d+) \[label="((?:[^"\\]|\\.)*)"', line)
            if m:
                edges.append((m.group(1), m.group(2), m.group(3).split("(")[0]))
    shutil.rmtree(meta, ignore_errors=True)
    return res, nodes, edges, inits


def simulate(spec, cfg, num, depth, seed=0, timeout=600, env=None, workers=1):
    """'-simulate file=...,num=N': returns (TlcResult, list of behaviours; behaviour = list of (action, state))"""
    meta = _mk_tmp()
    pref = os.path.join(meta, "tr")
    res = run(spec, cfg, workers=workers, simulate="file=%s,num=%d" % (pref, num), depth=depth, seed=seed,
              timeout=timeout, env=env, keep_meta=meta)
    behs = []
    for f in sorted(glob.glob(pref + "*")):
        txt = open(f).read()
        beh = []
        for m in re.finditer(r'\\\* <([A-Za-z_0-9]+)[^\n]*>\s*\nSTATE_\d+ ==\s*\n(.*?)(?=\n\s*\n|\Z)', txt, re.S):
            act = m.group(1).strip()
            beh.append((act, parse_state(m.group(2))))
        if beh:
            behs.append(beh)
    shutil.rmtree(meta, ignore_errors=True)
    return res, behs


def edge_cover_paths(nodes, edges, inits, max_paths=None):
    """paths (lists of node ids, starting at an initial state) that together traverse every edge at least once:
    BFS tree path to the edge's source, then greedy extension along uncovered edges"""
    from collections import defaultdict, deque
    succ = defaultdict(list)
    for k, (u, v, a) in enumerate(edges):
        succ[u].append((v, k))
    parent = {}
    dq = deque()
    for i in inits:
        parent[i] = None
        dq.append(i)
    while dq:
        u = dq.popleft()
        for v, k in succ[u]:
            if v not in parent:
                parent[v] = u
                dq.append(v)
    covered = [False] * len(edges)
    paths = []
    for k0, (u0, v0, a0) in enumerate(edges):
        if covered[k0] or u0 not in parent:
            continue
        pre = []
        x = u0
        while x is not None:
            pre.append(x)
            x = parent[x]
        pre.reverse()
        # mark tree edges of the prefix as covered
        path = pre + [v0]
        covered[k0] = True
        cur = v0
        # greedy extension
        while True:
            nxt = None
            for v, k in succ[cur]:
                if not covered[k]:
                    nxt = (v, k)
                    break
            if nxt is None:
                break
            covered[nxt[1]] = True
            path.append(nxt[0])
            cur = nxt[0]
        paths.append(path)
        if max_paths and len(paths) >= max_paths:
            break
    # account for tree edges traversed in prefixes
    return paths


def validate_traces(trace_spec, cfg, traces, timeout=900, env=None, tag="TRACE"):
    """batch trace validation (DESIGN appendix H): `traces` is a list of event lists, written as one JSON file.
    The trace spec prints <<tag, tid, reached, len>> per trace from its POSTCONDITION.
    Returns (TlcResult, {tid: (reached, length)}) with tid 1-based."""
    meta = _mk_tmp()
    tf = os.path.join(meta, "traces.json")
    with open(tf, "w") as f:
        json.dump(traces, f)
    e = {"TRACE_FILE": tf}
    if env:
        e.update(env)
    res = run(trace_spec, cfg, workers=1, timeout=timeout, env=e, keep_meta=meta)
    verdicts = {}
    for m in re.finditer(r'<<"%s", (\d+), (-?\d+), (\d+)>>' % tag, res.out):
        verdicts[int(m.group(1))] = (int(m.group(2)), int(m.group(3)))
    shutil.rmtree(meta, ignore_errors=True)
    return res, verdicts
