"""run a harness executable on an op script (one command per line) and collect one output line per command"""
import os
import signal
import subprocess


class DrvResult:
    def __init__(self, lines, rc, err):
        self.lines = lines
        self.rc = rc
        self.err = err

    @property
    def crashed(self):
        return self.rc != 0

    def crash_text(self):
        if self.rc < 0:
            try:
                return "signal %s" % signal.Signals(-self.rc).name
            except Exception:
                return "signal %d" % -self.rc
        return "exit %d: %s" % (self.rc, self.err[-400:])


def run_script(exe, lines, cwd=None, timeout=600, env=None, args=()):
    e = dict(os.environ)
    e.setdefault("ASAN_OPTIONS", "detect_leaks=0:abort_on_error=0:exitcode=77")
    e.setdefault("UBSAN_OPTIONS", "halt_on_error=1:exitcode=78:print_stacktrace=1")
    if env:
        e.update(env)
    data = ("\n".join(lines) + "\n").encode()
    try:
        p = subprocess.run([exe] + list(args), input=data, capture_output=True, cwd=cwd, timeout=timeout, env=e)
        out = p.stdout.decode(errors="replace").split("\n")
        if out and out[-1] == "":
            out.pop()
        return DrvResult(out, p.returncode, p.stderr.decode(errors="replace"))
    except subprocess.TimeoutExpired as ex:
        out = (ex.stdout or b"").decode(errors="replace").split("\n")
        return DrvResult(out, -signal.SIGALRM, "timeout")


def hx(s):
    if isinstance(s, str):
        s = s.encode()
    return s.hex() if s else "-"
