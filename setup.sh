#!/bin/sh
# offline setup: pre-warm the object cache for the library variants the checks use
cd "$(dirname "$0")"
/venv/bin/python vlib/build.py plain || exit 1
/venv/bin/python vlib/build.py asan || exit 1
echo setup done
