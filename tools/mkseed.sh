#!/bin/bash
# usage: tools/mkseed.sh C03 a   -> creates worktree /tmp/seed-C03a, prompt file /tmp/seedprompts/C03a.txt
ID=$1; TAG=$2; WT=/tmp/seed-$ID$TAG; OUT=/tmp/seedout/$ID$TAG
mkdir -p /tmp/seedprompts /tmp/seedout
[ -d /tmp/seedkit ] || cp -r /verif/tools/seedkit /tmp/seedkit
git -C /repo worktree add -q $WT HEAD 2>/dev/null || true
/venv/bin/python - "$ID" "$WT" "$OUT" <<'P'
import json, sys
pid, wt, out = sys.argv[1:4]
p = [json.loads(l) for l in open('/verif/properties.jsonl') if json.loads(l)['id'] == pid][0]
t = open('/verif/tools/seed_prompt.txt').read()
anch = '; '.join(m['where'] for m in p['anchors']['mechanism']) + ' (files: ' + ', '.join(p['anchors']['files']) + ')'
t = t.replace('@@WT@@', wt).replace('@@OUT@@', out).replace('@@TITLE@@', p['title']).replace('@@STATEMENT@@', p['statement']).replace('@@QUANT@@', p['quantifier']['text']).replace('@@ANCHORS@@', anch)
open('/tmp/seedprompts/%s.txt' % (pid + out[-1]), 'w').write(t)
print('/tmp/seedprompts/%s.txt' % (pid + out[-1]))
P
