#!/bin/sh
# usage: tools/mkprompt.sh "C41, C42" "extra text"
python3 - "$1" "$2" <<'P'
import sys
t=open('/verif/tools/agent_prompt.txt').read()
print(t.replace('@@IDS@@',sys.argv[1]).replace('@@EXTRA@@',sys.argv[2]))
P
