// example: build a model through the mjSpec C API, step it, print state
#include <mujoco/mujoco.h>
#include <cstdio>
int main() {
  mjSpec* s = mj_makeSpec();
  s->option.timestep = 0.01;
  mjsBody* world = mjs_findBody(s, "world");
  mjsGeom* floor = mjs_addGeom(world, nullptr); floor->type = mjGEOM_PLANE; floor->size[0] = floor->size[1] = 5; floor->size[2] = 0.1;
  mjsBody* b = mjs_addBody(world, nullptr); mjs_setName(b->element, "ball"); b->pos[2] = 1;
  mjsJoint* j = mjs_addJoint(b, nullptr); j->type = mjJNT_FREE;
  mjsGeom* g = mjs_addGeom(b, nullptr); g->type = mjGEOM_SPHERE; g->size[0] = 0.1;
  mjModel* m = mj_compile(s, nullptr);
  if (!m) { printf("compile error: %s\n", mjs_getError(s)); return 1; }
  mjData* d = mj_makeData(m);
  for (int i = 0; i < 100; i++) mj_step(m, d);
  printf("t=%g z=%g ncon=%d\n", d->time, d->qpos[2], d->ncon);
  mj_deleteData(d); mj_deleteModel(m); mj_deleteSpec(s);
  return 0;
}
