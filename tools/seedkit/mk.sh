#!/bin/bash
# usage: mk.sh <tree> <prog> [out]
set -e
TREE=$(readlink -f "$1"); PROG=$(readlink -f "$2"); OUT=${3:-/tmp/seedkit/.cache/$(basename "$PROG").exe}
cd /tmp/seedkit
VERIF_REPO=$TREE MUJOCO_VERIF=0 /venv/bin/python - "$PROG" "$OUT" <<'P'
import sys, os, shutil
sys.path.insert(0, '/tmp/seedkit')
from vlib import build
exe = build.build_harness('seedprog_' + os.path.basename(sys.argv[1]).replace('.', '_'), [sys.argv[1]])
shutil.copy(exe, sys.argv[2])
print(sys.argv[2])
P
