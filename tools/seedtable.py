#!/venv/bin/python
"""print the markdown table of seeded changes (DESIGN.md 9.5) from seeded/*/meta.json and notes.md"""
import glob, json, os, re
rows = []
for d in sorted(glob.glob('/verif/seeded/*/')):
    mp = os.path.join(d, 'meta.json')
    if not os.path.exists(mp):
        continue
    m = json.load(open(mp))
    summ = m.get('summary', '')
    needs = m.get('needs', m.get('needs_to_manifest', ''))
    caught = ', '.join('%s (exit %d)' % (k, v) for k, v in m['checks_run'].items())
    rows.append('| %s | %s | %s | %s | %s |' % (m['seed'], m['property'], summ, needs, ('caught: ' if m['caught'] else 'MISSED: ') + caught + (' ' + m.get('after', '') if m.get('after') else '')))
print('| seed | property | change | needs to manifest | result |\n|---|---|---|---|---|')
print('\n'.join(rows))
