#!/venv/bin/python
import json, os, sys
sys.path.insert(0, os.path.dirname(os.path.dirname(os.path.abspath(__file__))))
from vlib.registry import CLAIMED, NOT_APPLICABLE
V = os.path.dirname(os.path.dirname(os.path.abspath(__file__)))
props = [json.loads(l)["id"] for l in open(os.path.join(V, "properties.jsonl"))]
checks = []
for pid in props:
    if pid in CLAIMED:
        c = CLAIMED[pid]
        checks.append({
            "property_id": pid,
            "quick_cmd": "./vcheck %s --tier quick" % pid,
            "thorough_cmd": "./vcheck %s --tier thorough" % pid,
            "evidence_file": "evidence/%s.json" % pid,
            "replay_cmd_template": "./vcheck %s --replay {path}" % pid,
            "engine": c["engine"],
            "level_claimed": {"category": c.get("category", "model_checking"), "text": c["text"], "design_ref": c["ref"]},
            "level_note": c["note"],
            "technique": c["technique"],
        })
na = []
for pid in props:
    if pid not in CLAIMED:
        na.append({"property_id": pid, "reason": NOT_APPLICABLE.get(pid, "no sound TLA+-bound check has been built for this property yet; it is not claimed")})
hooks = json.load(open(os.path.join(V, "hooks.json")))
m = {
    "version": 1,
    "setup_cmd": "./setup.sh",
    "hooks": hooks,
    "engines": [
        {"name": "tlc-replay", "path": "vcheck", "kind_free_text": "TLA+ spec checked by TLC; TLC-generated behaviours replayed into the implementation rebuilt from /repo", "serves_properties": [p for p in props if p in CLAIMED and CLAIMED[p]["engine"] == "tlc-replay"]},
        {"name": "tlc-trace", "path": "vcheck", "kind_free_text": "traces recorded from the implementation validated by a TLA+ trace specification with TLC", "serves_properties": [p for p in props if p in CLAIMED and CLAIMED[p]["engine"] == "tlc-trace"]},
        {"name": "tlc-sched", "path": "vcheck", "kind_free_text": "unmodified concurrent sources compiled against a controlled scheduler; TLC schedules replayed / recorded schedules validated", "serves_properties": [p for p in props if p in CLAIMED and CLAIMED[p]["engine"] == "tlc-sched"]},
    ],
    "checks": checks,
    "not_applicable": na,
    "notes": "All checks: ./vcheck <ID> --tier quick|thorough. Exit 0 held / 1 VIOLATION / 2 machinery failure. Known findings: known_findings.json. See DESIGN.md.",
}
json.dump(m, open(os.path.join(V, "MANIFEST.json"), "w"), indent=1)
try:
    import jsonschema
    jsonschema.validate(m, json.load(open("/root/.vp/MANIFEST.schema.json")))
    print("MANIFEST.json valid:", len(checks), "checks,", len(na), "not applicable")
except ImportError:
    print("written (jsonschema not available)")
