#!/bin/bash
# usage: tools/confirm_seed.sh C38 a [extra vcheck ids...]
# confirms a seeded change (demo fails with it, passes without, pytest passes), runs the check(s) against it,
# stores it under /verif/seeded/<ID><tag>/ and removes the scratch worktree
ID=$1; TAG=$2; shift 2; CHECKS="$ID $@"
WT=/tmp/seed-$ID$TAG; OUT=/tmp/seedout/$ID$TAG; DST=/verif/seeded/$ID$TAG
[ -f $OUT/patch.diff ] || { echo "no patch"; exit 2; }
mkdir -p $DST; cp $OUT/patch.diff $OUT/notes.md $OUT/run.sh $DST/ 2>/dev/null; cp $OUT/demo.* $DST/ 2>/dev/null
# make sure the worktree holds exactly the patch
git -C $WT checkout -q -- . ; git -C $WT apply $OUT/patch.diff || { echo "patch does not apply"; exit 2; }
echo "--- demo on changed tree (must fail)"; (cd $OUT; timeout 900 bash run.sh $WT > $DST/demo_changed.log 2>&1); RC1=$?; echo "rc=$RC1"; tail -3 $DST/demo_changed.log | cut -c1-200
echo "--- demo on unchanged tree (must pass)"; (cd $OUT; timeout 900 bash run.sh /repo > $DST/demo_unchanged.log 2>&1); RC2=$?; echo "rc=$RC2"; tail -2 $DST/demo_unchanged.log | cut -c1-200
echo "--- pytest on changed tree"; PT=$(cd $WT && timeout 900 /venv/bin/python -m pytest -q -p no:cacheprovider --timeout=900 --continue-on-collection-errors test/doc doc/ext 2>&1 | tail -1); echo "$PT"
echo "--- checks against the change"
RES=""
for c in $CHECKS; do
  if [ -n "$SEED_INPLACE" ]; then
    git -C /repo apply $OUT/patch.diff || { echo "cannot apply to /repo"; exit 2; }
    (cd /verif; timeout 3000 ./vcheck $c --tier quick > $DST/vcheck_$c.log 2>&1); RC=$?
    git -C /repo checkout -- .
  else
    (cd /verif; VERIF_REPO=$WT timeout 3000 ./vcheck $c --tier quick > $DST/vcheck_$c.log 2>&1); RC=$?
  fi
  echo "vcheck $c rc=$RC"; grep -A1 'VIOLATION' $DST/vcheck_$c.log | head -4 | cut -c1-250
  RES="$RES $c:$RC"
done
git -C /repo status --short | head -3
/venv/bin/python - "$ID" "$TAG" "$RC1" "$RC2" "$PT" "$RES" <<'P'
import json, sys
pid, tag, rc1, rc2, pt, res = sys.argv[1:7]
meta = {"property": pid, "seed": pid + tag, "demo_rc_changed": int(rc1), "demo_rc_unchanged": int(rc2), "pytest_changed_tree": pt,
        "checks_run": {r.split(':')[0]: int(r.split(':')[1]) for r in res.split()},
        "caught": any(int(r.split(':')[1]) == 1 for r in res.split()),
        "what_ran": "run.sh on the scratch worktree (change applied) and on /repo (unchanged); pytest test/doc doc/ext on the worktree; ./vcheck <id> --tier quick against the changed tree (VERIF_REPO=<worktree holding exactly patch.diff>, or with SEED_INPLACE=1: git -C /repo apply patch.diff; vcheck; git -C /repo checkout -- .)",
        "needs_to_manifest": "see notes.md"}
json.dump(meta, open('/verif/seeded/%s%s/meta.json' % (pid, tag), 'w'), indent=1)
print(json.dumps(meta)[:400])
P
git -C /repo worktree remove --force $WT 2>/dev/null; true
