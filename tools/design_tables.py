#!/venv/bin/python
"""regenerate the generated tables of DESIGN.md section 9 (between <!-- AUTO:x --> ... <!-- /AUTO:x --> markers)"""
import glob, json, os, re, subprocess, sys
V = '/verif'
sys.path.insert(0, V)
from vlib.registry import CLAIMED, NOT_APPLICABLE
props = {json.loads(l)['id']: json.loads(l) for l in open(V + '/properties.jsonl')}
kf = json.load(open(V + '/known_findings.json'))

def spec_modules(pid):
    src = open('%s/checks/%s.py' % (V, pid.lower())).read()
    for extra in re.findall(r'from checks import (\w+)|from checks\.(\w+) import|import checks\.(\w+)', src):
        for e in extra:
            if e and os.path.exists('%s/checks/%s.py' % (V, e)):
                src += open('%s/checks/%s.py' % (V, e)).read()
    mods = sorted(set(re.findall(r'"(\w+)\.tla"', src)) | set(m for m in re.findall(r'"(\w+?)(?:_\w+)?\.cfg"', src) if os.path.exists('%s/tla/%s.tla' % (V, m))))
    return ', '.join(mods)

def status():
    out = ['| id | title | spec modules (tla/) | engine | evidence of the last quick run: TLC states / impl. evaluations / behaviours or traces validated | findings |', '|---|---|---|---|---|---|']
    for pid in sorted(props):
        if pid not in CLAIMED:
            continue
        ev = {}
        p = '%s/evidence/%s.json' % (V, pid)
        if os.path.exists(p):
            ev = json.load(open(p))['coverage']
        f = [k for k in kf if k['property'] == pid]
        ftxt = '; '.join(('fixed %s' % k['commit'] if k['status'] == 'fixed' else 'known: %s' % k['signature']) for k in f) or 'none'
        out.append('| %s | %s | %s | %s | %s / %s / %s | %s |' % (pid, props[pid]['title'], spec_modules(pid), CLAIMED[pid]['engine'],
                   ev.get('states', '-'), ev.get('evaluations', '-'), ev.get('traces_validated_against_impl', '-'), ftxt))
    return '\n'.join(out)

def na():
    out = ['| id | title | reason |', '|---|---|---|']
    for pid in sorted(props):
        if pid not in CLAIMED:
            out.append('| %s | %s | %s |' % (pid, props[pid]['title'], NOT_APPLICABLE.get(pid, 'no sound TLA+-bound check has been built for this property yet; it is not claimed')))
    return '\n'.join(out)

def findings():
    out = []
    for k in kf:
        out.append('* **%s** %s `%s` — %s' % (k['property'], 'fixed ' + k['commit'] if k['status'] == 'fixed' else '**known**', k['signature'], re.sub(r'^fixed: property=\S+ \S+ ', '', k['what'])))
    return '\n'.join(out)

def seeds():
    return subprocess.run([V + '/tools/seedtable.py'], capture_output=True, text=True).stdout.strip()

d = open(V + '/DESIGN.md').read()
for name, fn in (('status', status), ('na', na), ('findings', findings), ('seeds', seeds)):
    a, b = '<!-- AUTO:%s -->' % name, '<!-- /AUTO:%s -->' % name
    if a in d and b in d:
        d = d[:d.index(a) + len(a)] + '\n' + fn() + '\n' + d[d.index(b):]
    else:
        print('marker missing:', name)
open(V + '/DESIGN.md', 'w').write(d)
print('DESIGN.md tables regenerated')
