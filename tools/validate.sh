#!/bin/sh
# validate MANIFEST.json and every evidence file against the schemas
cd "$(dirname "$0")/.."
python3-vt - <<'P'
import json, jsonschema, glob, sys
m=json.load(open('MANIFEST.json'))
jsonschema.validate(m, json.load(open('/root/.vp/MANIFEST.schema.json')))
bad=0
for f in sorted(glob.glob('evidence/*.json')):
    try:
        jsonschema.validate(json.load(open(f)), json.load(open('/root/.vp/EVIDENCE.schema.json')))
    except Exception as e:
        bad+=1; print(f, 'INVALID', str(e)[:200])
print('manifest ok;', len(glob.glob('evidence/*.json')), 'evidence files,', bad, 'invalid')
sys.exit(1 if bad else 0)
P
