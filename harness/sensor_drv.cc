// /verif harness for C28 (tla/Sensors.tla, checks/c28.py): sensordata with a sentinel, staged sensor calls, contact
// injection for touch sensors.  Generic ops (model / data / setv / fwdPosition / sensorPos / mget ...) come from
// mjdrv_common.h; ops added here:
//   enum <NAME>                 value of an mjSENS_* / mjOBJ_* / mjDATATYPE_* / mjSTAGE_* / mjGEOM_* constant used by the check
//   settime <d> <t>             d->time = t
//   sfill <d>                   fill d->sensordata with the sentinel
//   sread <d>                   "n v1 v2 ..." with "S" for entries still bit-equal to the sentinel
//   conreset <d>                forget the remembered efc addresses (call after the constraint stage of every round)
//   setcon <d> <k> <geomname1> <geomname2> px,py,pz nx,ny,nz <force> <on>
//                               overwrite contact k (which must exist, dimension 1): geoms, point, normal, and either the
//                               normal force in its efc row (on = 1) or efc_address = -1 (on = 0)
//   ncon <d> <n>                d->ncon = n (n <= number of contacts found)
//   conprobe <d>                "ncon dim0:adr0 dim1:adr1 ..." (diagnostic)
#include "mjdrv_common.h"

static const double SENTINEL = -7777.25;
static std::map<int, int> g_adr;    // contact index -> original efc_address

struct EnumEnt { const char* name; int val; };
#define E(x) {#x, (int)x}
static const EnumEnt ENUMS[] = {
  E(mjSENS_TOUCH), E(mjSENS_VELOCIMETER), E(mjSENS_GYRO), E(mjSENS_JOINTPOS), E(mjSENS_JOINTVEL), E(mjSENS_TENDONPOS),
  E(mjSENS_TENDONVEL), E(mjSENS_ACTUATORPOS), E(mjSENS_ACTUATORVEL), E(mjSENS_ACTUATORFRC), E(mjSENS_JOINTACTFRC),
  E(mjSENS_FRAMEPOS), E(mjSENS_FRAMEXAXIS), E(mjSENS_FRAMEYAXIS), E(mjSENS_FRAMEZAXIS), E(mjSENS_FRAMELINVEL),
  E(mjSENS_FRAMEANGVEL), E(mjSENS_SUBTREECOM), E(mjSENS_SUBTREELINVEL), E(mjSENS_CLOCK), E(mjSENS_USER),
  E(mjOBJ_UNKNOWN), E(mjOBJ_BODY), E(mjOBJ_XBODY), E(mjOBJ_JOINT), E(mjOBJ_GEOM), E(mjOBJ_SITE), E(mjOBJ_CAMERA),
  E(mjOBJ_TENDON), E(mjOBJ_ACTUATOR),
  E(mjDATATYPE_REAL), E(mjDATATYPE_POSITIVE), E(mjDATATYPE_AXIS), E(mjDATATYPE_QUATERNION),
  E(mjSTAGE_NONE), E(mjSTAGE_POS), E(mjSTAGE_VEL), E(mjSTAGE_ACC),
  E(mjGEOM_PLANE), E(mjGEOM_SPHERE), E(mjGEOM_BOX), E(mjDSBL_SENSOR), {0, 0}};

static bool extra(const std::vector<std::string>& t, const std::vector<std::string>& lines, size_t& i) {
  (void)lines; (void)i;
  const std::string& op = t[0];
  if (op == "enum") {
    for (const EnumEnt* e = ENUMS; e->name; e++) if (t.at(1) == e->name) { printf("%d\n", e->val); return true; }
    printf("?enum\n"); return true;
  }
  if (op == "settime") { D(atoi(t.at(1).c_str()))->time = drv_num(t.at(2)); printf("ok\n"); return true; }
  if (op == "sfill") {
    int ds = atoi(t.at(1).c_str()); mjData* d = D(ds); const mjModel* m = MD(ds);
    for (int k = 0; k < m->nsensordata; k++) d->sensordata[k] = SENTINEL;
    printf("ok\n"); return true;
  }
  if (op == "sread") {
    int ds = atoi(t.at(1).c_str()); mjData* d = D(ds); const mjModel* m = MD(ds);
    printf("%d", (int)m->nsensordata);
    for (int k = 0; k < m->nsensordata; k++) {
      if (memcmp(&d->sensordata[k], &SENTINEL, sizeof(double)) == 0) printf(" S");
      else { printf(" "); drv_print_num(d->sensordata[k]); }
    }
    printf("\n"); return true;
  }
  if (op == "conreset") { g_adr.clear(); printf("ok\n"); return true; }
  if (op == "conprobe") {
    mjData* d = D(atoi(t.at(1).c_str()));
    printf("%d", d->ncon);
    for (int k = 0; k < d->ncon; k++) printf(" %d:%d", d->contact[k].dim, d->contact[k].efc_address);
    printf("\n"); return true;
  }
  if (op == "setcon") {
    int ds = atoi(t.at(1).c_str()); mjData* d = D(ds); const mjModel* m = MD(ds);
    int k = atoi(t.at(2).c_str());
    if (k < 0 || k >= d->ncon) { printf("error no contact %d (ncon %d)\n", k, d->ncon); return true; }
    mjContact* c = d->contact + k;
    if (!g_adr.count(k)) g_adr[k] = c->efc_address;
    int adr = g_adr[k];
    if (c->dim != 1 || adr < 0 || adr >= d->nefc) { printf("error contact %d dim %d adr %d\n", k, c->dim, adr); return true; }
    int g1 = mj_name2id(m, mjOBJ_GEOM, t.at(3).c_str()), g2 = mj_name2id(m, mjOBJ_GEOM, t.at(4).c_str());
    if (g1 < 0 || g2 < 0) { printf("error unknown geom\n"); return true; }
    auto p = drv_nums(t.at(5)), nr = drv_nums(t.at(6));
    c->geom[0] = c->geom1 = g1; c->geom[1] = c->geom2 = g2;
    for (int j = 0; j < 3; j++) { c->pos[j] = p.at(j); c->frame[j] = nr.at(j); }
    // complete the frame with any two orthogonal unit vectors (not read by the touch sensor)
    int a = nr[0] != 0 ? 1 : 0;
    for (int j = 0; j < 3; j++) { c->frame[3 + j] = (j == a); c->frame[6 + j] = 0; }
    c->frame[6 + 0] = c->frame[1] * c->frame[5] - c->frame[2] * c->frame[4];
    c->frame[6 + 1] = c->frame[2] * c->frame[3] - c->frame[0] * c->frame[5];
    c->frame[6 + 2] = c->frame[0] * c->frame[4] - c->frame[1] * c->frame[3];
    int on = atoi(t.at(8).c_str());
    if (on) { c->efc_address = adr; d->efc_force[adr] = drv_num(t.at(7)); }
    else c->efc_address = -1;
    printf("ok\n"); return true;
  }
  if (op == "ncon") {
    mjData* d = D(atoi(t.at(1).c_str())); int nn = atoi(t.at(2).c_str());
    if (nn > d->ncon) { printf("error only %d contacts\n", d->ncon); return true; }
    d->ncon = nn; printf("ok\n"); return true;
  }
  return false;
}

int main() { return drv_main(extra); }
