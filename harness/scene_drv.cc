// /verif harness (C50): drives mjv_makeScene / mjv_updateScene / mjv_addGeoms (see checks/c50.py, tla/Scene.tla).
// Shared ops of mjdrv_common.h (model, data, set, forward ...) plus:
//   mkscene <m> <cap> <status>       mjv_makeScene(model m, capacity); the geom buffer is replaced by one of cap + 4
//                                    slots whose last 4 slots are a guard pattern; scn.status preset    -> ok
//   vopt <gmask> <smask> <static> [<jmask> <tmask> <amask> <sources>]
//                                    mjv_defaultOption, ALL flags cleared, label/frame none; geomgroup / sitegroup /
//                                    jointgroup / tendongroup / actuatorgroup from the bit masks (flex and skin groups
//                                    off), flags[mjVIS_STATIC] = static, sources: bit 1 mjVIS_JOINT, 2 mjVIS_TENDON,
//                                    4 mjVIS_ACTUATOR                                                  -> ok
//   update <d> <catmask>             mjv_updateScene(m, d, opt, NULL, cam, catmask, scn)
//   addgeoms <d> <catmask>           mjv_addGeoms(m, d, opt, NULL, catmask, scn)
//     -> "<ngeom> <status> <warnings raised> <guard ok 0|1> <deterministic 0|1|-> | item;item;..."
//        item = kind,objid,category,segid,type,px,py,pz,m0..m8,sx,sy,sz
//        (kind: geom | site | tendon | joint | actuator | objtype number)
//        deterministic (update only): the same call on a second, fresh scene with the same capacity and status gives
//        bytewise the same ngeom geoms
#include "mjdrv_common.h"

static mjvScene g_scn, g_shadow;
static bool g_have = false;
static mjvGeom* g_orig = nullptr; static mjvGeom* g_orig_sh = nullptr;
static std::vector<mjvGeom> g_buf, g_buf_sh;
static mjvOption g_opt;
static mjvCamera g_cam;
static int g_scn_model = -1;
static const int NGUARD = 4;

static void scene_release() {
  if (!g_have) return;
  g_scn.geoms = g_orig; g_shadow.geoms = g_orig_sh;
  mjv_freeScene(&g_scn); mjv_freeScene(&g_shadow);
  g_have = false;
}
static void guard_fill(std::vector<mjvGeom>& b, int cap) {
  b.assign((size_t)cap + NGUARD, mjvGeom());
  memset(b.data(), 0x5A, b.size() * sizeof(mjvGeom));
  memset(b.data() + cap, 0xA5, NGUARD * sizeof(mjvGeom));
}
static bool guard_ok(const std::vector<mjvGeom>& b, int cap) {
  const unsigned char* p = (const unsigned char*)(b.data() + cap);
  for (size_t i = 0; i < NGUARD * sizeof(mjvGeom); i++) if (p[i] != 0xA5) return false;
  return true;
}
static void make_one(mjvScene* s, mjModel* m, int cap, int status, mjvGeom** orig, std::vector<mjvGeom>& buf) {
  mjv_defaultScene(s);
  mjv_makeScene(m, s, cap);
  *orig = s->geoms;
  guard_fill(buf, cap);
  s->geoms = buf.data();
  s->status = status;
}

static bool scene_extra(const std::vector<std::string>& t, const std::vector<std::string>& lines, size_t& i) {
  const std::string& op = t[0];
  if (op == "mkscene") {
    int ms = atoi(t.at(1).c_str()), cap = atoi(t.at(2).c_str()), status = atoi(t.at(3).c_str());
    scene_release();
    if (HX_TRY) {
      make_one(&g_scn, M(ms), cap, status, &g_orig, g_buf);
      make_one(&g_shadow, M(ms), cap, status, &g_orig_sh, g_buf_sh);
      HX_END;
    } else { drv_err(hx_err); return true; }
    if (g_scn.maxgeom != cap) { printf("error maxgeom=%d\n", g_scn.maxgeom); return true; }
    g_have = true; g_scn_model = ms;
    mjv_defaultFreeCamera(M(ms), &g_cam);
    printf("ok\n"); return true;
  }
  if (op == "vopt") {
    unsigned gm = (unsigned)atoi(t.at(1).c_str()), sm = (unsigned)atoi(t.at(2).c_str());
    unsigned jm = t.size() > 4 ? (unsigned)atoi(t[4].c_str()) : 0, tm = t.size() > 5 ? (unsigned)atoi(t[5].c_str()) : 0;
    unsigned am = t.size() > 6 ? (unsigned)atoi(t[6].c_str()) : 0, src = t.size() > 7 ? (unsigned)atoi(t[7].c_str()) : 0;
    mjv_defaultOption(&g_opt);
    for (int k = 0; k < mjNVISFLAG; k++) g_opt.flags[k] = 0;
    g_opt.label = mjLABEL_NONE; g_opt.frame = mjFRAME_NONE;
    for (int k = 0; k < mjNGROUP; k++) {
      g_opt.geomgroup[k] = (gm >> k) & 1; g_opt.sitegroup[k] = (sm >> k) & 1;
      g_opt.jointgroup[k] = (jm >> k) & 1; g_opt.tendongroup[k] = (tm >> k) & 1; g_opt.actuatorgroup[k] = (am >> k) & 1;
      g_opt.flexgroup[k] = g_opt.skingroup[k] = 0;
    }
    g_opt.flags[mjVIS_STATIC] = (mjtByte)atoi(t.at(3).c_str());
    g_opt.flags[mjVIS_JOINT] = (src & 1) ? 1 : 0; g_opt.flags[mjVIS_TENDON] = (src & 2) ? 1 : 0;
    g_opt.flags[mjVIS_ACTUATOR] = (src & 4) ? 1 : 0;
    printf("ok\n"); return true;
  }
  if (op == "update" || op == "addgeoms") {
    if (!g_have) mk_die("no scene");
    int ds = atoi(t.at(1).c_str()), cat = atoi(t.at(2).c_str());
    mjModel* m = MD(ds); mjData* d = D(ds);
    int cap = g_scn.maxgeom, status0 = g_scn.status, w0 = hx_nwarn;
    if (HX_TRY) {
      if (op == "update") mjv_updateScene(m, d, &g_opt, nullptr, &g_cam, cat, &g_scn);
      else mjv_addGeoms(m, d, &g_opt, nullptr, cat, &g_scn);
      HX_END;
    } else { drv_err(hx_err); return true; }
    int nw = hx_nwarn - w0;
    bool gok = guard_ok(g_buf, cap);
    char det = '-';
    if (op == "update") {
      g_shadow.status = status0;
      mjvCamera cam2; mjv_defaultFreeCamera(m, &cam2);
      if (HX_TRY) { mjv_updateScene(m, d, &g_opt, nullptr, &cam2, cat, &g_shadow); HX_END; } else { drv_err(hx_err); return true; }
      bool same = g_shadow.ngeom == g_scn.ngeom && g_shadow.status == g_scn.status && guard_ok(g_buf_sh, cap);
      int n = g_scn.ngeom < cap ? g_scn.ngeom : cap;
      if (same && n > 0) same = memcmp(g_shadow.geoms, g_scn.geoms, (size_t)n * sizeof(mjvGeom)) == 0;
      det = same ? '1' : '0';
    }
    printf("%d %d %d %d %c |", g_scn.ngeom, g_scn.status, nw, gok ? 1 : 0, det);
    int n = g_scn.ngeom < 0 ? 0 : (g_scn.ngeom > cap + NGUARD ? cap + NGUARD : g_scn.ngeom);
    for (int k = 0; k < n; k++) {
      const mjvGeom& g = g_scn.geoms[k];
      if (g.objtype == mjOBJ_GEOM) printf("%sgeom", k ? ";" : " ");
      else if (g.objtype == mjOBJ_SITE) printf("%ssite", k ? ";" : " ");
      else if (g.objtype == mjOBJ_TENDON) printf("%stendon", k ? ";" : " ");
      else if (g.objtype == mjOBJ_JOINT) printf("%sjoint", k ? ";" : " ");
      else if (g.objtype == mjOBJ_ACTUATOR) printf("%sactuator", k ? ";" : " ");
      else printf("%s%d", k ? ";" : " ", g.objtype);
      printf(",%d,%d,%d,%d", g.objid, g.category, g.segid, g.type);
      for (int j = 0; j < 3; j++) printf(",%.9g", g.pos[j]);
      for (int j = 0; j < 9; j++) printf(",%.9g", g.mat[j]);
      for (int j = 0; j < 3; j++) printf(",%.9g", g.size[j]);
    }
    printf("\n"); return true;
  }
  return false;
}

int main() {
  int r = drv_main(scene_extra);
  scene_release();
  return r;
}
