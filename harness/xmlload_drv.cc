// /verif harness (C37, real reader): every input goes through the REAL MJCF reader -- all of /repo/src/xml/*.cc compiled
// against the stand-in /verif/shim/fullxml/tinyxml2.h -- and the outcome is reported so that an error RETURN can be
// told from an mju_error (which aborts a normal program):
//   parse <hexxml>     mj_parseXMLString -> ok | err <hexmsg> | emptyerr | abort <hexmsg>
//   load <hexpath>     mj_loadXML        -> ok | err <hexmsg> | emptyerr | abort <hexmsg>
//   loadstr <hexxml>   mj_parseXMLString + mj_compile -> ok | err <hexmsg> | cerr <hexmsg> (compile stage) | emptyerr | abort <hexmsg>
// mju_warning is silenced.  One output line per input line; anything else (death, sanitizer report) is a crash.
#include <mujoco/mujoco.h>
#include <cstdio>
#include <cstring>
#include <iostream>
#include <string>
#include "hx.h"

static void out_msg(const char* tag, const char* m) {
  std::string s = m ? m : "";
  printf("%s %s\n", tag, s.empty() ? "-" : tohex(s.data(), s.size()).c_str());
}
int main() {
  hx_install();
  std::string line;
  while (std::getline(std::cin, line)) {
    auto t = split(line);
    if (t.size() < 2) { printf("bad\n"); fflush(stdout); continue; }
    std::string arg = unhex(t[1]);
    char err[1000] = "";
    if (t[0] == "parse" || t[0] == "loadstr") {
      mjSpec* s = nullptr;
      if (HX_TRY) { s = mj_parseXMLString(arg.c_str(), nullptr, err, sizeof err); HX_END; }
      else { out_msg("abort", hx_err); fflush(stdout); continue; }
      if (!s) { if (err[0]) out_msg("err", err); else printf("emptyerr\n"); fflush(stdout); continue; }
      if (t[0] == "loadstr") {
        mjModel* m = nullptr;
        if (HX_TRY) { m = mj_compile(s, nullptr); HX_END; }
        else { out_msg("abort", hx_err); mj_deleteSpec(s); fflush(stdout); continue; }
        if (!m) { out_msg("cerr", mjs_getError(s)); mj_deleteSpec(s); fflush(stdout); continue; }
        mj_deleteModel(m);
      }
      mj_deleteSpec(s);
      printf("ok\n");
    } else if (t[0] == "load") {
      mjModel* m = nullptr;
      if (HX_TRY) { m = mj_loadXML(arg.c_str(), nullptr, err, sizeof err); HX_END; }
      else { out_msg("abort", hx_err); fflush(stdout); continue; }
      if (!m) { if (err[0]) out_msg("err", err); else printf("emptyerr\n"); fflush(stdout); continue; }
      mj_deleteModel(m);
      printf("ok\n");
    } else printf("bad\n");
    fflush(stdout);
  }
  return 0;
}
