// /verif harness for C03: the UNMODIFIED src/engine/engine_thread.cc is compiled against the controlled
// scheduler (shim/sched) and driven by a schedule: either replayed from a TLA+ behaviour of ThreadPool.tla
// (stdin lines "t op obj val") or drawn from a seeded PRNG (--random seed maxworkers maxtasks nops).
#include <mujoco/mujoco.h>
#include "engine/engine_thread.h"
#include <iostream>
#include <sstream>
#include "sched/vt_sched.h"

static int g_depth = 0;   // mark/free nesting of the stubbed stack
extern "C" {
void mj_markStack(mjData* d) { g_depth++; }
void mj_freeStack(mjData* d) { g_depth--; }
}
static mjData g_d;

static void task(const mjModel* m, mjData* d, void* arg, int threadId, int taskId) {
  vt::mark("tstart", "task", taskId * 16 + threadId);
  vt::mark("tend", "task", taskId * 16 + threadId);
}

int main(int argc, char** argv) {
  setvbuf(stdout, nullptr, _IOFBF, 1 << 20);
  bool random = false; int maxw = 2, maxt = 3, nops = 4;
  if (argc > 1 && std::string(argv[1]) == "--random") {
    random = true; vt::G.rng ^= strtoull(argv[2], 0, 10) * 0x9E3779B97F4A7C15ULL; for (int i = 0; i < 4; i++) vt::rnd();
    maxw = atoi(argv[3]); maxt = atoi(argv[4]); nops = atoi(argv[5]);
  } else {
    vt::G.replay = true;
    if (argc > 1 && std::string(argv[1]) == "--lenient") vt::G.strict = false;
    std::string line;
    while (std::getline(std::cin, line)) {
      std::istringstream is(line); vt::Step s; std::string v;
      if (!(is >> s.t >> s.op >> s.obj >> v)) continue;
      s.has_val = v != "*"; s.val = s.has_val ? atol(v.c_str()) : 0;
      vt::G.script.push_back(s);
    }
  }
  vt::G.namer = [](int k) { static const char* n[3] = {"next", "ndone", "signal"}; return std::string(n[k % 3]); };
  memset(&g_d, 0, sizeof g_d);
  vt::init_main();
  int done = 0;
  for (;;) {
    vt::yield_begin("api", "-", 0);
    std::string op; long n = 0;
    if (random) {
      if (done >= nops) { if (g_d.threadpool) { op = "pool"; n = 0; } else op = "end"; }
      else if (vt::rnd() % 3 == 0) { op = "pool"; n = vt::rnd() % (maxw + 1); }
      else { op = "dispatch"; n = vt::rnd() % (maxt + 1); }
      done++;
    } else if (vt::G.replay && vt::G.cur.op == "api") { op = vt::G.cur.obj; n = vt::G.cur.val; }
    else { if (g_d.threadpool) { op = "pool"; n = 0; } else op = "end"; }   // script lost (lenient fallback): wind down
    // scalar state logged with every api event: threadlock flag and stack-mark nesting (must both be 0 here)
    vt::yield_end("api", op.c_str(), n * 100 + (g_d.threadlock ? 10 : 0) + g_depth);
    if (op == "pool") mju_threadpool(&g_d, (int)n);
    else if (op == "dispatch") mju_dispatch(nullptr, &g_d, task, nullptr, (int)n);
    else break;
  }
  vt::die("done", "ok");
}
