// /verif harness for C02 (free-running part): real OS threads, plain library build. Compares, after every
// call, a run with an engine thread pool of size N against the pool-less run of the same model and inputs.
// stdin as parstep_drv ("nthread", "steps", "mode", "setv", plus "reps R"); prints one line per repetition.
#include <iostream>
#include <thread>
#include "mjdrv_common.h"
static const char* FIELDS = "qpos,qvel,act,qacc,qacc_warmstart,sensordata,contact,efc_force,qfrc_constraint,qfrc_inverse,time,ncon,nefc,nisland,xpos,actuator_force";
int main() {
  hx_install();
  std::vector<std::string> lines; std::string line;
  while (std::getline(std::cin, line)) lines.push_back(line);
  size_t i = 0;
  mjSpec* s = mk_spec(lines, i);
  mjModel* m = mj_compile(s, nullptr);
  if (!m) { printf("modelerror %s\n", mjs_getError(s)); return 0; }
  int nthread = 2, steps = 3, reps = 3, racy = 0; std::string mode = "step";
  std::vector<std::pair<std::string, std::string>> sets;
  for (; i < lines.size(); i++) {
    auto t = split(lines[i]); if (t.empty()) continue;
    if (t[0] == "nthread") nthread = atoi(t[1].c_str());
    else if (t[0] == "steps") steps = atoi(t[1].c_str());
    else if (t[0] == "reps") reps = atoi(t[1].c_str());
    else if (t[0] == "mode") mode = t[1];
    else if (t[0] == "racy") racy = 1;   // negative control of the race detector: two OS threads share one mjData
    else if (t[0] == "setv") sets.push_back({t[1], t.size() > 2 ? t[2] : ""});
  }
  auto apply = [&](mjData* d) {
    for (auto& kv : sets) { DrvFld f; auto v = drv_data_fields(m, d); if (!drv_find(v, kv.first, f)) mk_die("field " + kv.first);
      auto x = drv_nums(kv.second); for (size_t k = 0; k < x.size(); k++) drv_write(f, k, x[k]); }
  };
  auto call = [&](mjData* d) {
    if (mode == "step") mj_step(m, d); else if (mode == "forward") mj_forward(m, d);
    else { mj_forward(m, d); mj_inverse(m, d); }
  };
  auto fields = drv_csv(FIELDS);
  auto snap = [&](mjData* d, std::vector<std::vector<unsigned char>>& out) {
    out.clear(); std::vector<unsigned char> b;
    for (auto& f : fields) { drv_field_bytes(m, d, f, b); out.push_back(b); }
  };
  if (racy) {
    mjData* dr = mj_makeData(m); apply(dr);
    std::thread a([&] { mj_forward(m, dr); }); std::thread b([&] { mj_forward(m, dr); });
    a.join(); b.join(); mj_deleteData(dr);
  }
  mjData* da = mj_makeData(m); apply(da);
  std::vector<std::vector<std::vector<unsigned char>>> ref(steps);
  for (int k = 0; k < steps; k++) { call(da); snap(da, ref[k]); }
  int nzs = 0, lasts = 0;   // non-zero sensor readings of the reference run (vacuity guard of the sensor models)
  for (int k = 0; k < m->nsensordata; k++) if (da->sensordata[k] != 0) { nzs++; if (k >= m->nsensordata - 3) lasts = 1; }
  for (int r = 0; r < reps; r++) {
    mjData* db = mj_makeData(m); apply(db);
    mju_threadpool(db, nthread);
    std::string bad; int badstep = -1; std::vector<std::vector<unsigned char>> cur;
    for (int k = 0; k < steps && bad.empty(); k++) {
      call(db); snap(db, cur);
      for (size_t f = 0; f < fields.size(); f++) if (cur[f] != ref[k][f]) { bad = fields[f]; badstep = k; break; }
    }
    printf("rep %d %s %d ncon=%d nefc=%d nisland=%d nsens=%d nzs=%d lasts=%d\n", r, bad.empty() ? "eq" : bad.c_str(), badstep, db->ncon, db->nefc, db->nisland, (int)m->nsensordata, nzs, lasts);
    mj_deleteData(db);
  }
  return 0;
}
