// /verif harness for C40: the UNMODIFIED src/engine/engine_global_table.h instantiated for a test object
// type whose CopyObject yields between its two fields, compiled against the controlled scheduler
// (std::mutex, std::atomic_int replaced).  stdin: "prog w <key> <body> ..." / "prog r k <key> | s <slot> ..."
// lines define the threads, "pre <n>" pre-registers n objects single-threaded, then schedule lines
// "t op obj val" (replay) or "random <seed>".
#include <cstdarg>
#include <cstring>
#include <iostream>
#include <sstream>
#include <stdexcept>
#include <string>
#include <string_view>
#include <vector>
#include <mujoco/mujoco.h>
#include "sched/vt_sched.h"
#include "engine/engine_global_table.h"

struct TestObj { char key[8]; int body; };

extern "C" void mju_error(const char* msg, ...) { throw std::runtime_error("mju_error"); }

namespace mujoco {
template <> const char* GlobalTable<TestObj>::HumanReadableTypeName() { return "test object"; }
template <> std::string_view GlobalTable<TestObj>::ObjectKey(const TestObj& o) { return std::string_view(o.key, strlen(o.key)); }
template <> bool GlobalTable<TestObj>::ObjectEqual(const TestObj& a, const TestObj& b) {
  return CaseInsensitiveEqual(a.key, b.key) && a.body == b.body;
}
template <> bool GlobalTable<TestObj>::CopyObject(TestObj& dst, const TestObj& src, ErrorMessage& err) {
  vt::yield_begin("copykey", "slot", 0); memcpy(dst.key, src.key, sizeof dst.key); vt::yield_end("copykey", "slot", 0);
  vt::yield_begin("copybody", "slot", 0); dst.body = src.body; vt::yield_end("copybody", "slot", src.body);
  return true;
}
}  // namespace mujoco
using Table = mujoco::GlobalTable<TestObj>;

struct Req { std::string key; int body; };
struct Qry { char kind; std::string key; int slot; };
static std::vector<std::vector<Req>> g_w;
static std::vector<std::vector<Qry>> g_r;

static void writer(int idx) {
  for (auto& q : g_w[idx]) {
    TestObj o; memset(&o, 0, sizeof o); strncpy(o.key, q.key.c_str(), 7); o.body = q.body;
    int slot;
    try { slot = Table::GetSingleton().AppendIfUnique(o); } catch (std::runtime_error&) { slot = -1; }
    vt::mark("wret", "-", slot);
  }
}
static void reader(int idx) {
  for (auto& q : g_r[idx]) {
    int slot = -1; const TestObj* o;
    if (q.kind == 'k') o = Table::GetSingleton().GetByKey(q.key, &slot);
    else { o = Table::GetSingleton().GetAtSlot(q.slot); slot = o ? q.slot : -1; }
    // observed at lookup time (same step as the count load): slot, body and first key letter (lower-cased)
    long val = -1;
    if (o) val = slot * 10000 + (o->body % 100) * 100 + (o->key[0] ? (tolower(o->key[0]) - 'a' + 1) : 0);
    vt::mark("rret", "-", val);
  }
}

int main() {
  setvbuf(stdout, nullptr, _IOFBF, 1 << 20);
  std::string line; int pre = 0; bool random = false;
  while (std::getline(std::cin, line)) {
    std::istringstream is(line); std::string a; is >> a;
    if (a == "prog") {
      std::string kind; is >> kind;
      if (kind == "w") { std::vector<Req> v; std::string k; int b; while (is >> k >> b) v.push_back({k, b}); g_w.push_back(v); }
      else { std::vector<Qry> v; std::string k, x; while (is >> k >> x) { if (k == "k") v.push_back({'k', x, -1}); else v.push_back({'s', "", atoi(x.c_str())}); } g_r.push_back(v); }
    } else if (a == "pre") { is >> pre; }
    else if (a == "random") { unsigned long long s; is >> s; random = true; vt::G.rng ^= s * 0x9E3779B97F4A7C15ULL; for (int i = 0; i < 4; i++) vt::rnd(); }
    else if (!a.empty()) {
      std::istringstream is2(line); vt::Step s; std::string v;
      if (is2 >> s.t >> s.op >> s.obj >> v) { s.has_val = v != "*"; s.val = s.has_val ? atol(v.c_str()) : 0; vt::G.script.push_back(s); }
    }
  }
  vt::G.replay = !random;
  vt::G.namer = [](int k) { return std::string(k == 0 ? "count" : k == 1 ? "mutex" : "obj" + std::to_string(k)); };
  // bootstrap: pre-register objects p0..p<pre-1> (keys "p<i>", body 1) before the scheduler starts
  Table& tab = Table::GetSingleton();
  // object registration order: the table's members are constructed on first use: count_ (atomic) then mutex
  for (int i = 0; i < pre; i++) { TestObj o; memset(&o, 0, sizeof o); snprintf(o.key, 8, "p%d", i); o.body = 1; tab.AppendIfUnique(o); }
  vt::init_main();
  std::vector<std::thread> ths;  // = vt::thread through the prelude
  for (size_t i = 0; i < g_w.size(); i++) ths.emplace_back(writer, (int)i);
  for (size_t i = 0; i < g_r.size(); i++) ths.emplace_back(reader, (int)i);
  for (auto& t : ths) t.join();
  vt::mark("final", "count", tab.count());
  vt::die("done", "ok");
}
