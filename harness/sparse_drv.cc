// /verif harness (C23): drives the sparse / band / factorization utilities of engine_util_sparse.{c,h} and
// engine_util_solve.c (see checks/c23.py, tla/Sparse.tla).  White-box: includes the engine headers for the
// functions that are not part of the public API.  Needs "model 0 .. end" + "data 0 0" first (stack arena).
//
// Operands: two CSR matrices A and B.
//   load <A|B> <nr> <nc> <c|u> <row> ... <row>     row = "-" (empty) or "col:val,col:val,..."
//        layout c: row r starts where row r-1 ends (capacity = number of entries); u: row r starts at r*nc.
//        Unused slots are poisoned (column index 1<<24, value 1e30); every buffer has guard zones.
// Every op prints ONE line of key=value tokens:  wf (well-formed CSR: sorted unique in-range columns, rows inside
// the buffer and disjoint), guard (1 = no guard zone touched), nnz / adr (per row), dense (rows ';', values ','),
// vec, super, code, ret, rank, factor, x, ...   Dense matrices on the command line use the same ';' ',' syntax.
#include <math.h>
#include <algorithm>
#include "mjdrv_common.h"
extern "C" {
#include "engine/engine_util_sparse.h"
#include "engine/engine_util_solve.h"
#include "engine/engine_util_misc.h"
#include "engine/engine_util_blas.h"
}

static const int POISON_IND = 1 << 24;
static const double POISON_VAL = 1e30;
static const int GZ = 16;                       // guard zone (elements) on both sides of every buffer
static bool g_guard_ok = true;

template <class T> struct Buf {
  std::vector<T> v; T sentinel; size_t n = 0;
  void init(size_t n_, T fill, T sent) { n = n_; sentinel = sent; v.assign(n + 2 * GZ, fill);
    for (int i = 0; i < GZ; i++) { v[i] = sent; v[GZ + n + i] = sent; } }
  T* p() { return v.data() + GZ; }
  const T* p() const { return v.data() + GZ; }
  T& operator[](size_t i) { return v[GZ + i]; }
  const T& operator[](size_t i) const { return v[GZ + i]; }
  bool ok() const { for (int i = 0; i < GZ; i++) if (memcmp(&v[i], &sentinel, sizeof(T)) || memcmp(&v[GZ + n + i], &sentinel, sizeof(T))) return false; return true; }
};
typedef Buf<int> IB; typedef Buf<double> DB;
static const int SENT_I = 0x5A5A5A5A; static const double SENT_D = -7.25e222;
static void chk(const IB& b) { if (!b.ok()) g_guard_ok = false; }
static void chk(const DB& b) { if (!b.ok()) g_guard_ok = false; }

struct Csr {
  int nr = 0, nc = 0, cap = 0; IB nnz, adr, ind; DB val;
  void alloc(int nr_, int nc_, int cap_) { nr = nr_; nc = nc_; cap = cap_; nnz.init(nr, 0, SENT_I); adr.init(nr, 0, SENT_I);
    ind.init(cap, POISON_IND, SENT_I); val.init(cap, POISON_VAL, SENT_D); }
  void check() { chk(nnz); chk(adr); chk(ind); chk(val); }
};
static Csr GA, GB;

static std::vector<double> nums(const std::string& s) { std::vector<double> o; if (s == "-") return o; size_t i = 0;
  while (i <= s.size()) { size_t j = s.find(',', i); if (j == std::string::npos) j = s.size(); if (j > i) o.push_back(strtod(s.substr(i, j - i).c_str(), nullptr)); i = j + 1; } return o; }
static std::vector<std::vector<double>> mat_arg(const std::string& s) { std::vector<std::vector<double>> m; size_t i = 0;
  while (i <= s.size()) { size_t j = s.find(';', i); if (j == std::string::npos) j = s.size(); m.push_back(nums(s.substr(i, j - i))); i = j + 1; } return m; }
static void pnum(double x) { if (isnan(x)) printf("nan"); else if (isinf(x)) printf(x > 0 ? "inf" : "-inf"); else printf("%.17g", x); }
static void pvec(const char* k, const double* v, int n) { printf(" %s=", k); if (!n) printf("-"); for (int i = 0; i < n; i++) { if (i) printf(","); pnum(v[i]); } }
static void pivec(const char* k, const int* v, int n) { printf(" %s=", k); if (!n) printf("-"); for (int i = 0; i < n; i++) printf(i ? ",%d" : "%d", v[i]); }
static void pdense(const char* k, const double* m, int nr, int nc) { printf(" %s=", k);
  for (int r = 0; r < nr; r++) { if (r) printf(";"); if (!nc) printf("-"); for (int c = 0; c < nc; c++) { if (c) printf(","); pnum(m[r * nc + c]); } } if (!nr) printf("-"); }

// own densification + well-formedness of a CSR result (never through the functions under test)
static bool densify(const int* nnz, const int* adr, const int* ind, const double* val, int nr, int nc, int cap, std::vector<double>& out) {
  bool wf = true; out.assign((size_t)nr * nc, 0.0);
  std::vector<std::pair<int, int>> iv;
  for (int r = 0; r < nr; r++) {
    if (nnz[r] < 0 || adr[r] < 0 || adr[r] + nnz[r] > cap) { wf = false; continue; }
    iv.push_back({adr[r], adr[r] + nnz[r]});
    int prev = -1;
    for (int i = 0; i < nnz[r]; i++) { int c = ind[adr[r] + i];
      if (c < 0 || c >= nc || c <= prev) { wf = false; if (c < 0 || c >= nc) continue; }
      prev = c; out[(size_t)r * nc + c] += val[adr[r] + i]; }
  }
  std::sort(iv.begin(), iv.end());
  for (size_t k = 1; k < iv.size(); k++) if (iv[k].first < iv[k - 1].second && iv[k].first != iv[k].second && iv[k - 1].first != iv[k - 1].second) wf = false;
  return wf;
}
static void print_csr(Csr& C, bool with_adr) {
  std::vector<double> dn; bool wf = densify(C.nnz.p(), C.adr.p(), C.ind.p(), C.val.p(), C.nr, C.nc, C.cap, dn);
  C.check();
  printf(" wf=%d", wf ? 1 : 0); pivec("nnz", C.nnz.p(), C.nr); if (with_adr) pivec("adr", C.adr.p(), C.nr);
  pdense("dense", dn.data(), C.nr, C.nc);
}
static void done() { printf(" guard=%d\n", g_guard_ok ? 1 : 0); g_guard_ok = true; }

static void load(Csr& C, const std::vector<std::string>& t) {
  int nr = atoi(t.at(2).c_str()), nc = atoi(t.at(3).c_str()); bool unc = t.at(4) == "u";
  if ((int)t.size() != 5 + nr) mk_die("load: wrong number of rows");
  std::vector<std::vector<std::pair<int, double>>> rows(nr); int total = 0;
  for (int r = 0; r < nr; r++) { const std::string& s = t[5 + r]; if (s == "-") continue; size_t i = 0;
    while (i <= s.size()) { size_t j = s.find(',', i); if (j == std::string::npos) j = s.size();
      if (j > i) { std::string e = s.substr(i, j - i); size_t c = e.find(':'); rows[r].push_back({atoi(e.substr(0, c).c_str()), strtod(e.substr(c + 1).c_str(), nullptr)}); total++; }
      i = j + 1; } }
  C.alloc(nr, nc, unc ? nr * nc : total);
  int a = 0;
  for (int r = 0; r < nr; r++) { C.adr[r] = unc ? r * nc : a; C.nnz[r] = (int)rows[r].size();
    for (size_t i = 0; i < rows[r].size(); i++) { C.ind[C.adr[r] + i] = rows[r][i].first; C.val[C.adr[r] + i] = rows[r][i].second; }
    a += (int)rows[r].size(); }
}

static void transpose_of(Csr& S, Csr& T, IB& sup) {
  int total = 0; for (int r = 0; r < S.nr; r++) total += S.nnz[r];
  T.alloc(S.nc, S.nr, total); sup.init(S.nc, -99, SENT_I);
  mju_transposeSparse(T.val.p(), S.val.p(), S.nr, S.nc, T.nnz.p(), T.adr.p(), T.ind.p(), sup.p(), S.nnz.p(), S.adr.p(), S.ind.p());
  T.check(); chk(sup); S.check();
}

static bool sparse_extra(const std::vector<std::string>& t, const std::vector<std::string>& lines, size_t& li) {
  const std::string& op = t[0];
  mjData* d = g_data.count(0) ? g_data[0] : nullptr;
  Csr& A = GA; Csr& B = GB;
  if (op == "load") { load(t.at(1) == "A" ? GA : GB, t); printf("ok\n"); return true; }
  if (op == "s2d") { DB res; res.init((size_t)A.nr * A.nc, POISON_VAL, SENT_D);
    mju_sparse2dense(res.p(), A.val.p(), A.nr, A.nc, A.nnz.p(), A.adr.p(), A.ind.p()); chk(res); A.check();
    pdense("dense", res.p(), A.nr, A.nc); done(); return true; }
  if (op == "d2s") { int cap = atoi(t.at(1).c_str()); std::vector<double> dn; densify(A.nnz.p(), A.adr.p(), A.ind.p(), A.val.p(), A.nr, A.nc, A.cap, dn);
    Csr R; R.alloc(A.nr, A.nc, cap);
    int code = mju_dense2sparse(R.val.p(), dn.data(), A.nr, A.nc, R.nnz.p(), R.adr.p(), R.ind.p(), cap);
    printf(" code=%d", code); if (code == 0) print_csr(R, true); else R.check(); done(); return true; }
  if (op == "mulvec") { int sup = atoi(t.at(1).c_str()); auto x = nums(t.at(2)); DB xb; xb.init(A.nc, 0, SENT_D); for (int i = 0; i < A.nc; i++) xb[i] = x.at(i);
    DB res; res.init(A.nr, POISON_VAL, SENT_D); IB rs; rs.init(A.nr, -99, SENT_I);
    if (sup) mju_superSparse(A.nr, rs.p(), A.nnz.p(), A.adr.p(), A.ind.p());
    mju_mulMatVecSparse(res.p(), A.val.p(), xb.p(), A.nr, A.nnz.p(), A.adr.p(), A.ind.p(), sup ? rs.p() : nullptr);
    chk(res); chk(rs); chk(xb); A.check(); pvec("vec", res.p(), A.nr); if (sup) pivec("super", rs.p(), A.nr); done(); return true; }
  if (op == "multvec") { auto y = nums(t.at(1)); DB yb; yb.init(A.nr, 0, SENT_D); for (int i = 0; i < A.nr; i++) yb[i] = y.at(i);
    DB res; res.init(A.nc, POISON_VAL, SENT_D);
    mju_mulMatTVecSparse(res.p(), A.val.p(), yb.p(), A.nr, A.nc, A.nnz.p(), A.adr.p(), A.ind.p()); chk(res); A.check();
    pvec("vec", res.p(), A.nc); done(); return true; }
  if (op == "transpose") { Csr T; IB sup; transpose_of(A, T, sup);
    // the pattern-only call (res = mat = NULL) must give the same structure
    Csr T2; int total = T.cap; T2.alloc(A.nc, A.nr, total);
    mju_transposeSparse(nullptr, nullptr, A.nr, A.nc, T2.nnz.p(), T2.adr.p(), T2.ind.p(), nullptr, A.nnz.p(), A.adr.p(), A.ind.p()); T2.check();
    bool same = true; for (int r = 0; r < T.nr; r++) { if (T.nnz[r] != T2.nnz[r] || T.adr[r] != T2.adr[r]) same = false; }
    for (int k = 0; k < total && same; k++) if (T.ind[k] != T2.ind[k]) same = false;
    print_csr(T, true); pivec("super", sup.p(), T.nr); printf(" patternonly=%d", same ? 1 : 0); done();
    GA = T; return true; }
  if (op == "compress") { double mv = strtod(t.at(1).c_str(), nullptr);
    int ret = mju_compressSparse(A.val.p(), A.nr, A.nc, A.nnz.p(), A.adr.p(), A.ind.p(), mv);
    printf(" ret=%d", ret); print_csr(A, true); done(); return true; }
  if (op == "gather" || op == "scatter") {
    if (op == "gather") { auto x = nums(t.at(1)); DB xb; xb.init(A.nc, 0, SENT_D); for (int i = 0; i < A.nc; i++) xb[i] = x.at(i);
      printf(" rows=");
      for (int r = 0; r < A.nr; r++) { DB res; res.init(A.nnz[r], POISON_VAL, SENT_D); mju_gather(res.p(), xb.p(), A.ind.p() + A.adr[r], A.nnz[r]); chk(res);
        if (r) printf("|"); if (!A.nnz[r]) printf("-"); for (int i = 0; i < A.nnz[r]; i++) { if (i) printf(","); pnum(res[i]); } }
      if (!A.nr) printf("-"); }
    else { DB res; res.init((size_t)A.nr * A.nc, 0, SENT_D);
      for (int r = 0; r < A.nr; r++) mju_scatter(res.p() + (size_t)r * A.nc, A.val.p() + A.adr[r], A.ind.p() + A.adr[r], A.nnz[r]);
      chk(res); pdense("dense", res.p(), A.nr, A.nc); }
    A.check(); done(); return true; }
  if (op == "sqr") {
    if (!d) mk_die("sqr needs data slot 0");
    std::string var = t.at(1); int upper = atoi(t.at(2).c_str()); auto dgv = nums(t.at(3)); bool useDiag = !dgv.empty();
    int nr = A.nr, nc = A.nc;
    DB dg; dg.init(nr, 0, SENT_D); for (int i = 0; i < nr && useDiag; i++) dg[i] = dgv.at(i);
    Csr T; IB supT; transpose_of(A, T, supT);
    IB supA; supA.init(nr, -99, SENT_I); mju_superSparse(nr, supA.p(), A.nnz.p(), A.adr.p(), A.ind.p());
    Csr R; IB diagind; diagind.init(nc, -99, SENT_I); int total = -1;
    if (HX_TRY) {
      if (var == "sym") {
        IB rn, ra; rn.init(nc, -99, SENT_I); ra.init(nc, -99, SENT_I);
        total = mju_sqrMatTDSparseSymbolic(rn.p(), ra.p(), nullptr, upper ? diagind.p() : nullptr, nr, nc, A.nnz.p(), A.adr.p(), A.ind.p(),
                                           T.nnz.p(), T.adr.p(), T.ind.p(), supT.p(), d);
        chk(rn); chk(ra);
        R.alloc(nc, nc, total < 0 ? 0 : total);
        for (int i = 0; i < nc; i++) { R.nnz[i] = rn[i]; R.adr[i] = ra[i]; }
        mju_sqrMatTDSparseSymbolic(R.nnz.p(), R.adr.p(), R.ind.p(), upper ? diagind.p() : nullptr, nr, nc, A.nnz.p(), A.adr.p(), A.ind.p(),
                                   T.nnz.p(), T.adr.p(), T.ind.p(), supT.p(), d);
        mju_sqrMatTDSparseNumeric(R.val.p(), nc, R.nnz.p(), R.adr.p(), R.ind.p(), upper ? diagind.p() : nullptr,
                                  A.val.p(), A.nnz.p(), A.adr.p(), A.ind.p(), T.val.p(), T.nnz.p(), T.adr.p(), T.ind.p(),
                                  supT.p(), useDiag ? dg.p() : nullptr, d);
      } else {
        if (var == "col") {
          IB rn, ra; rn.init(nc, -99, SENT_I); ra.init(nc, -99, SENT_I);
          total = mju_sqrMatTDSparseCount(rn.p(), ra.p(), nc, A.nnz.p(), A.adr.p(), A.ind.p(), T.nnz.p(), T.adr.p(), T.ind.p(), supT.p(), d, upper);
          chk(rn); chk(ra);
          R.alloc(nc, nc, total < 0 ? 0 : total);
          for (int i = 0; i < nc; i++) { R.nnz[i] = rn[i]; R.adr[i] = ra[i]; }
        } else { R.alloc(nc, nc, nc * nc); mju_sqrMatTDUncompressedInit(R.adr.p(), nc); total = nc * nc; }
        if (var == "row") mju_sqrMatTDSparse_row(R.val.p(), A.val.p(), T.val.p(), useDiag ? dg.p() : nullptr, nr, nc, R.nnz.p(), R.adr.p(), R.ind.p(),
                                                 A.nnz.p(), A.adr.p(), A.ind.p(), supA.p(), T.nnz.p(), T.adr.p(), T.ind.p(), supT.p(), d, upper ? diagind.p() : nullptr);
        else mju_sqrMatTDSparse(R.val.p(), A.val.p(), T.val.p(), useDiag ? dg.p() : nullptr, nr, nc, R.nnz.p(), R.adr.p(), R.ind.p(),
                                A.nnz.p(), A.adr.p(), A.ind.p(), supA.p(), T.nnz.p(), T.adr.p(), T.ind.p(), supT.p(), d, upper ? diagind.p() : nullptr);
      }
      HX_END;
    } else { drv_err(hx_err); return true; }
    chk(diagind); chk(supA); chk(supT); chk(dg); A.check(); T.check();
    printf(" total=%d", total); print_csr(R, false);
    // diagonal indices must point at the diagonal entries (columns without entries have no diagonal entry)
    if (upper) { bool ok = true; for (int i = 0; i < nc; i++) { if (T.nnz[i] == 0) continue; int k = diagind[i]; if (k < 0 || k >= R.cap || R.ind[k] != i || k < R.adr[i] || k >= R.adr[i] + R.nnz[i]) ok = false; } printf(" diagind=%d", ok ? 1 : 0); }
    done(); return true; }
  if (op == "addto") { if (A.nr != B.nr) mk_die("addto: shapes");
    mju_addToMatSparse(A.val.p(), A.nnz.p(), A.adr.p(), A.ind.p(), A.nr, B.val.p(), B.nnz.p(), B.adr.p(), B.ind.p()); B.check();
    print_csr(A, false); done(); return true; }
  if (op == "combine" || op == "combineinc" || op == "addsclinc") {
    double a = strtod(t.at(1).c_str(), nullptr), b = t.size() > 2 ? strtod(t[2].c_str(), nullptr) : 0;
    for (int r = 0; r < A.nr; r++) {
      double* dv = A.val.p() + A.adr[r]; int* di = A.ind.p() + A.adr[r]; const double* sv = B.val.p() + B.adr[r]; const int* si = B.ind.p() + B.adr[r];
      if (op == "combine") A.nnz[r] = mju_combineSparse(dv, sv, a, b, A.nnz[r], B.nnz[r], di, si);
      else if (op == "combineinc") mju_combineSparseInc(dv, sv, A.nc, a, b, A.nnz[r], B.nnz[r], di, si);
      else mju_addToSclSparseInc(dv, sv, A.nnz[r], di, B.nnz[r], si, a);
    }
    B.check(); print_csr(A, false); done(); return true; }
  if (op == "dot2") { DB res; res.init(A.nr, 0, SENT_D);
    for (int r = 0; r < A.nr; r++) res[r] = mju_dotSparse2(A.val.p() + A.adr[r], A.ind.p() + A.adr[r], A.nnz[r], B.val.p() + B.adr[r], B.ind.p() + B.adr[r], B.nnz[r]);
    A.check(); B.check(); pvec("vec", res.p(), A.nr); done(); return true; }
  if (op == "merge") { IB cnt; cnt.init(A.nr, 0, SENT_I); std::string r1, r2; bool agree = true;
    for (int r = 0; r < A.nr; r++) { const int* a = A.ind.p() + A.adr[r]; const int* b = B.ind.p() + B.adr[r];
      cnt[r] = mju_combineSparseCount(A.nnz[r], B.nnz[r], a, b);
      IB m1, m2; m1.init(A.nc + 1, -1, SENT_I); m2.init(A.nc + 1, -1, SENT_I);
      int n1 = mju_addChains(m1.p(), A.nc, A.nnz[r], B.nnz[r], a, b);
      int n2 = mj_mergeSorted(m2.p(), a, A.nnz[r], b, B.nnz[r]); chk(m1); chk(m2);
      if (n1 != n2) agree = false; for (int i = 0; i < n1 && i < n2; i++) if (m1[i] != m2[i]) agree = false;
      if (r) r1 += "|"; if (!n1) r1 += "-"; for (int i = 0; i < n1; i++) { if (i) r1 += ","; r1 += std::to_string(m1[i]); } }
    A.check(); B.check(); pivec("count", cnt.p(), A.nr); printf(" rows=%s agree=%d", A.nr ? r1.c_str() : "-", agree ? 1 : 0); done(); return true; }
  if (op == "sym2dense" || op == "mulsymvec" || op == "addtosym") { int n = A.nr;
    if (op == "sym2dense") { DB res; res.init((size_t)n * n, POISON_VAL, SENT_D); mju_sym2dense(res.p(), A.val.p(), n, A.nnz.p(), A.adr.p(), A.ind.p()); chk(res); pdense("dense", res.p(), n, n); }
    else if (op == "mulsymvec") { auto x = nums(t.at(1)); DB xb; xb.init(n, 0, SENT_D); for (int i = 0; i < n; i++) xb[i] = x.at(i); DB res; res.init(n, POISON_VAL, SENT_D);
      mju_mulSymVecSparse(res.p(), A.val.p(), xb.p(), n, A.nnz.p(), A.adr.p(), A.ind.p()); chk(res); chk(xb); pvec("vec", res.p(), n); }
    else { int up = atoi(t.at(1).c_str()); DB res; res.init((size_t)n * n, 1.0, SENT_D); mju_addToSymSparse(res.p(), A.val.p(), n, A.nnz.p(), A.adr.p(), A.ind.p(), up); chk(res); pdense("dense", res.p(), n, n); }
    A.check(); done(); return true; }
  if (op == "choldense") { auto M = mat_arg(t.at(1)); auto rhs = nums(t.at(2)); int n = (int)M.size();
    DB m; m.init((size_t)n * n, 0, SENT_D); for (int i = 0; i < n; i++) for (int j = 0; j < n; j++) m[i * n + j] = M[i].at(j);
    int rank = mju_cholFactor(m.p(), n, mjMINVAL); chk(m);
    std::vector<double> L((size_t)n * n, 0.0); for (int i = 0; i < n; i++) for (int j = 0; j <= i; j++) L[i * n + j] = m[i * n + j];
    DB x, b; x.init(n, POISON_VAL, SENT_D); b.init(n, 0, SENT_D); for (int i = 0; i < n; i++) b[i] = rhs.at(i);
    mju_cholSolve(x.p(), m.p(), b.p(), n); chk(x); chk(b); chk(m);
    printf(" rank=%d", rank); pdense("factor", L.data(), n, n); pvec("x", x.p(), n); done(); return true; }
  if (op == "cholupdate") { auto M = mat_arg(t.at(1)); auto xv = nums(t.at(2)); int plus = atoi(t.at(3).c_str()); int n = (int)M.size();
    DB m; m.init((size_t)n * n, 0, SENT_D); for (int i = 0; i < n; i++) for (int j = 0; j < n; j++) m[i * n + j] = M[i].at(j) + (plus ? 0 : xv.at(i) * xv.at(j));
    mju_cholFactor(m.p(), n, mjMINVAL);
    DB x; x.init(n, 0, SENT_D); for (int i = 0; i < n; i++) x[i] = xv.at(i);
    int rank = mju_cholUpdate(m.p(), x.p(), n, plus); chk(m); chk(x);
    std::vector<double> P((size_t)n * n, 0.0);
    for (int i = 0; i < n; i++) for (int j = 0; j < n; j++) { double s = 0; for (int k = 0; k <= std::min(i, j); k++) s += m[i * n + k] * m[j * n + k]; P[i * n + j] = s; }
    printf(" rank=%d", rank); pdense("prod", P.data(), n, n); done(); return true; }
  if (op == "cholsparse") { if (!d) mk_die("cholsparse needs data slot 0");
    std::string var = t.at(1); auto rhs = nums(t.at(2)); int n = A.nr; int rank = -1;
    DB b, x; b.init(n, 0, SENT_D); x.init(n, POISON_VAL, SENT_D); for (int i = 0; i < n; i++) b[i] = rhs.at(i);
    if (HX_TRY) {
      if (var == "direct") {
        rank = mju_cholFactorSparse(A.val.p(), n, mjMINVAL, A.nnz.p(), A.adr.p(), A.ind.p(), d);
        mju_cholSolveSparse(x.p(), A.val.p(), b.p(), n, A.nnz.p(), A.adr.p(), A.ind.p());
        HX_END; printf(" rank=%d", rank); chk(x); chk(b);
        std::vector<double> dn; bool wf = densify(A.nnz.p(), A.adr.p(), A.ind.p(), A.val.p(), n, n, A.cap, dn); A.check();
        printf(" wf=%d", wf ? 1 : 0); pdense("factor", dn.data(), n, n); pvec("x", x.p(), n);
      } else {
        int total = 0; for (int r = 0; r < n; r++) total += A.nnz[r];
        Csr HT; HT.alloc(n, n, total);
        mju_transposeSparse(nullptr, nullptr, n, n, HT.nnz.p(), HT.adr.p(), HT.ind.p(), nullptr, A.nnz.p(), A.adr.p(), A.ind.p());
        IB Ln, La, LTn, LTa; Ln.init(n, -99, SENT_I); La.init(n, -99, SENT_I); LTn.init(n, -99, SENT_I); LTa.init(n, -99, SENT_I);
        int nL = mju_cholFactorSymbolic(nullptr, Ln.p(), La.p(), nullptr, LTn.p(), LTa.p(), nullptr, HT.nnz.p(), HT.adr.p(), HT.ind.p(), n, d);
        IB Li, LTi, LTm; Li.init(nL, POISON_IND, SENT_I); LTi.init(nL, POISON_IND, SENT_I); LTm.init(nL, POISON_IND, SENT_I);
        DB L; L.init(nL, POISON_VAL, SENT_D);
        mju_cholFactorSymbolic(Li.p(), Ln.p(), La.p(), LTi.p(), LTn.p(), LTa.p(), LTm.p(), HT.nnz.p(), HT.adr.p(), HT.ind.p(), n, d);
        rank = mju_cholFactorNumeric(L.p(), n, mjMINVAL, Ln.p(), La.p(), Li.p(), LTn.p(), LTa.p(), LTi.p(), LTm.p(),
                                     A.val.p(), A.nnz.p(), A.adr.p(), A.ind.p(), d);
        mju_cholSolveSparse(x.p(), L.p(), b.p(), n, Ln.p(), La.p(), Li.p());
        HX_END; printf(" rank=%d", rank);
        chk(Ln); chk(La); chk(LTn); chk(LTa); chk(Li); chk(LTi); chk(LTm); chk(L); chk(x); chk(b); HT.check(); A.check();
        std::vector<double> dn; bool wf = densify(Ln.p(), La.p(), Li.p(), L.p(), n, n, nL, dn);
        printf(" wf=%d", wf ? 1 : 0); pdense("factor", dn.data(), n, n); pvec("x", x.p(), n);
      }
    } else { drv_err(hx_err); return true; }
    done(); return true; }
  if (op == "band") { int nb = atoi(t.at(1).c_str()), nd = atoi(t.at(2).c_str()); auto M = mat_arg(t.at(3)); auto xv = nums(t.at(4)); auto rhs = nums(t.at(5));
    int n = (int)M.size(); size_t nbnd = (size_t)(n - nd) * nb + (size_t)nd * n;
    DB m; m.init((size_t)n * n, 0, SENT_D); for (int i = 0; i < n; i++) for (int j = 0; j < n; j++) m[i * n + j] = M[i].at(j);
    DB band; band.init(nbnd, 0, SENT_D); mju_dense2Band(band.p(), m.p(), n, nb, nd); chk(band);
    DB back; back.init((size_t)n * n, POISON_VAL, SENT_D); mju_band2Dense(back.p(), band.p(), n, nb, nd, 1); chk(back);
    pdense("round", back.p(), n, n);
    DB x; x.init(n, 0, SENT_D); for (int i = 0; i < n; i++) x[i] = xv.at(i);
    DB r1, r2; r1.init(n, POISON_VAL, SENT_D); r2.init(n, POISON_VAL, SENT_D);
    mju_bandMulMatVec(r1.p(), band.p(), x.p(), n, nb, nd, 1, 1); mju_bandMulMatVec(r2.p(), band.p(), x.p(), n, nb, nd, 1, 0); chk(r1); chk(r2); chk(band);
    pvec("mulsym", r1.p(), n); pvec("mullow", r2.p(), n);
    bool diagok = true; for (int i = 0; i < n; i++) { int a = mju_bandDiag(i, n, nb, nd); if (a < 0 || a >= (int)nbnd || band[a] != M[i][i]) diagok = false; }
    printf(" banddiag=%d", diagok ? 1 : 0);
    double md = mju_cholFactorBand(band.p(), n, nb, nd, 0, 0); chk(band);
    DB fac; fac.init((size_t)n * n, POISON_VAL, SENT_D); mju_band2Dense(fac.p(), band.p(), n, nb, nd, 0); chk(fac);
    printf(" mindiag="); pnum(md); pdense("factor", fac.p(), n, n);
    DB b, sol; b.init(n, 0, SENT_D); sol.init(n, POISON_VAL, SENT_D); for (int i = 0; i < n; i++) b[i] = rhs.at(i);
    mju_cholSolveBand(sol.p(), band.p(), b.p(), n, nb, nd); chk(sol); chk(b); chk(band);
    pvec("x", sol.p(), n); done(); return true; }
  if (op == "boxqp") {
    // boxqp <H> <g> <lo> <up> <x0> -> ret= x= index= kkt= (largest KKT violation of the returned point, own arithmetic)
    auto M = mat_arg(t.at(1)); auto g = nums(t.at(2)), lo = nums(t.at(3)), up = nums(t.at(4)), x0 = nums(t.at(5)); int n = (int)M.size();
    DB H, gb, lb, ub, res, R; IB idx;
    H.init((size_t)n * n, 0, SENT_D); gb.init(n, 0, SENT_D); lb.init(n, 0, SENT_D); ub.init(n, 0, SENT_D); res.init(n, 0, SENT_D);
    R.init((size_t)n * (n + 7), POISON_VAL, SENT_D); idx.init(n, -99, SENT_I);
    for (int i = 0; i < n; i++) { gb[i] = g.at(i); lb[i] = lo.at(i); ub[i] = up.at(i); res[i] = x0.at(i); for (int j = 0; j < n; j++) H[i * n + j] = M[i].at(j); }
    int ret = -99;
    if (HX_TRY) { ret = mju_boxQP(res.p(), R.p(), idx.p(), H.p(), gb.p(), n, lb.p(), ub.p()); HX_END; } else { drv_err(hx_err); return true; }
    chk(H); chk(gb); chk(lb); chk(ub); chk(res); chk(R); chk(idx);
    double worst = 0;
    for (int i = 0; i < n; i++) { double gr = gb[i]; for (int j = 0; j < n; j++) gr += M[i][j] * res[j];
      double v = 0;
      if (res[i] < lb[i] || res[i] > ub[i]) v = 1e9;
      else if (res[i] == lb[i]) v = gr < 0 ? -gr : 0; else if (res[i] == ub[i]) v = gr > 0 ? gr : 0; else v = fabs(gr);
      if (v > worst) worst = v; }
    printf(" ret=%d", ret); pvec("x", res.p(), n); pivec("index", idx.p(), ret > 0 && ret <= n ? ret : 0); printf(" kkt="); pnum(worst);
    done(); return true; }
  if (op == "lu") { auto M = mat_arg(t.at(1)); auto rhs = nums(t.at(2)); int n = (int)M.size();
    DB m; m.init((size_t)n * n, 0, SENT_D); for (int i = 0; i < n; i++) for (int j = 0; j < n; j++) m[i * n + j] = M[i].at(j);
    IB piv; piv.init(n, -99, SENT_I); int code = mju_factorLU(m.p(), n, piv.p()); chk(m); chk(piv);
    DB b, x; b.init(n, 0, SENT_D); x.init(n, POISON_VAL, SENT_D); for (int i = 0; i < n; i++) b[i] = rhs.at(i);
    if (code) mju_solveLU(x.p(), m.p(), b.p(), piv.p(), n); chk(x); chk(b); chk(m);
    printf(" code=%d", code); pvec("x", x.p(), n); done(); return true; }
  return false;
}

int main() { return drv_main(sparse_extra); }
