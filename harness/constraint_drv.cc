// /verif harness for C12 (ConstraintCost.tla replay) and C11 (ConstraintTrace.tla trace recording).
//
//   cu <ne> <nf> <nefc> <ncon> <flgH> <wantcost> <D> <R> <floss> <jar> <type> <id> <contacts>
//        white-box call of mj_constraintUpdate_impl on caller-built arrays (csv lists, "-" = empty;
//        contacts = dim:mu:f1:f2:f3:f4:f5;... ).  Output:  <state csv> <force csv> <cost|-> <H0;H1;...>
//        (every contact's 36 H entries are pre-filled with the sentinel 777; dim*dim entries are printed)
//   rows <d>
//        after mj_forward: one JSON trace (array of events) describing every constraint row of data slot d:
//        type, id, order keys (three limbs of the order-preserving 64-bit image of a double) of efc_force and of
//        the bounds it is compared with; per contact the comparison of mj_contactForce with an independent decoding
//        of the efc rows; at the end the comparison of qfrc_constraint with an independent J' efc_force.
//   cupd <d>
//        mj_constraintUpdate(m, d, jar = J qacc - aref, cost, 0) against the _impl call on copies and an
//        independent J' f:  "ok <maxdiff force> <statediff> <maxdiff qfrc> <costdiff>"
#include <math.h>
#include <algorithm>
#include "mjdrv_common.h"
#include "engine/engine_core_constraint.h"

static void print_csv(const std::vector<double>& v) {
  if (v.empty()) { printf("-"); return; }
  for (size_t i = 0; i < v.size(); i++) { if (i) printf(","); drv_print_num(v[i]); }
}
static std::vector<double> nums_or_empty(const std::string& s) { return s == "-" ? std::vector<double>() : drv_nums(s); }

// order-preserving image of a double (negative zero is normalised to zero; NaN never reaches here)
static uint64_t ordkey(double x) {
  if (x == 0) x = 0.0;
  uint64_t b; memcpy(&b, &x, 8);
  return (b >> 63) ? ~b : (b | 0x8000000000000000ULL);
}
static void print_key(const char* name, double x) {
  uint64_t k = ordkey(x);
  printf(",\"%s\":[%llu,%llu,%llu]", name, (unsigned long long)(k >> 42), (unsigned long long)((k >> 21) & 0x1FFFFF),
         (unsigned long long)(k & 0x1FFFFF));
}

// J' f computed from the stored Jacobian without the engine's multiplication routines
static void jtf(const mjModel* m, const mjData* d, const double* f, std::vector<double>& out, std::vector<double>& scale) {
  int nv = m->nv; out.assign(nv, 0.0); scale.assign(nv, 0.0);
  for (int i = 0; i < d->nefc; i++) {
    if (mj_isSparse(m)) {
      int adr = d->efc_J_rowadr[i];
      for (int k = 0; k < d->efc_J_rownnz[i]; k++) {
        int c = d->efc_J_colind[adr + k]; double v = d->efc_J[adr + k] * f[i];
        out[c] += v; scale[c] += fabs(v);
      }
    } else {
      for (int c = 0; c < nv; c++) { double v = d->efc_J[(size_t)i * nv + c] * f[i]; out[c] += v; scale[c] += fabs(v); }
    }
  }
}
static void jv(const mjModel* m, const mjData* d, const double* v, std::vector<double>& out) {
  int nv = m->nv; out.assign(d->nefc, 0.0);
  for (int i = 0; i < d->nefc; i++) {
    double s = 0;
    if (mj_isSparse(m)) {
      int adr = d->efc_J_rowadr[i];
      for (int k = 0; k < d->efc_J_rownnz[i]; k++) s += d->efc_J[adr + k] * v[d->efc_J_colind[adr + k]];
    } else {
      for (int c = 0; c < nv; c++) s += d->efc_J[(size_t)i * nv + c] * v[c];
    }
    out[i] = s;
  }
}

static bool extra(const std::vector<std::string>& t, const std::vector<std::string>& lines, size_t& li) {
  const std::string& op = t[0];
  if (op == "cu") {
    if (t.size() != 14) mk_die("cu: wrong number of arguments");
    int ne = atoi(t[1].c_str()), nf = atoi(t[2].c_str()), nefc = atoi(t[3].c_str()), ncon = atoi(t[4].c_str());
    int flgH = atoi(t[5].c_str()), wantcost = atoi(t[6].c_str());
    auto D = nums_or_empty(t[7]), R = nums_or_empty(t[8]), fl = nums_or_empty(t[9]), jar = nums_or_empty(t[10]);
    auto ty = nums_or_empty(t[11]), id = nums_or_empty(t[12]);
    if ((int)D.size() != nefc || (int)R.size() != nefc || (int)fl.size() != nefc || (int)jar.size() != nefc ||
        (int)ty.size() != nefc || (int)id.size() != nefc) mk_die("cu: array length mismatch");
    std::vector<int> type(nefc + 1), ids(nefc + 1), state(nefc + 1, -7);
    for (int i = 0; i < nefc; i++) { type[i] = (int)ty[i]; ids[i] = (int)id[i]; }
    std::vector<mjContact> con(ncon + 1);
    memset(con.data(), 0, sizeof(mjContact) * (ncon + 1));
    if (ncon) {
      size_t p = 0; const std::string& s = t[13]; int k = 0;
      while (p <= s.size() && k < ncon) {
        size_t q = s.find(';', p); if (q == std::string::npos) q = s.size();
        std::string item = s.substr(p, q - p); for (auto& c : item) if (c == ':') c = ',';
        auto v = drv_nums(item); if (v.size() != 7) mk_die("cu: bad contact");
        con[k].dim = (int)v[0]; con[k].mu = v[1]; for (int j = 0; j < 5; j++) con[k].friction[j] = v[2 + j];
        for (int j = 0; j < 36; j++) con[k].H[j] = 777;
        k++; p = q + 1;
      }
      if (k != ncon) mk_die("cu: contact count mismatch");
    }
    std::vector<double> force(nefc + 1, 555.0);
    double cost = 999;
    D.push_back(0); R.push_back(0); fl.push_back(0); jar.push_back(0);
    if (HX_TRY) {
      mj_constraintUpdate_impl(ne, nf, nefc, D.data(), R.data(), fl.data(), jar.data(), type.data(), ids.data(),
                               con.data(), state.data(), force.data(), wantcost ? &cost : nullptr, flgH);
      HX_END;
    } else { drv_err(hx_err); return true; }
    int overrun = (state[nefc] != -7 || force[nefc] != 555.0);
    if (nefc == 0) printf("-"); else for (int i = 0; i < nefc; i++) printf(i ? ",%d" : "%d", state[i]);
    printf(" "); force.resize(nefc); print_csv(force);
    printf(" "); if (wantcost) drv_print_num(cost); else printf("-");
    printf(" ");
    if (!ncon) printf("-");
    for (int k = 0; k < ncon; k++) {
      if (k) printf(";");
      std::vector<double> h(con[k].H, con[k].H + con[k].dim * con[k].dim); print_csv(h);
    }
    // guard cells past the end must be untouched
    if (overrun) printf(" OVERRUN");
    printf("\n");
    return true;
  }
  if (op == "rows") {
    int ds = atoi(t.at(1).c_str()); mjModel* m = MD(ds); mjData* d = D(ds);
    int pyr = mj_isPyramidal(m);
    printf("[{\"op\":\"begin\",\"ne\":%d,\"nf\":%d,\"nl\":%d,\"nefc\":%d,\"ncon\":%d,\"cone\":%d,\"solver\":%d,\"nisland\":%d}",
           d->ne, d->nf, d->nl, d->nefc, d->ncon, pyr ? 0 : 1, m->opt.solver, d->nisland);
    for (int i = 0; i < d->nefc; i++) {
      int ty = d->efc_type[i], id = d->efc_id[i];
      double f = d->efc_force[i];
      printf(",{\"op\":\"row\",\"i\":%d,\"ty\":%d,\"id\":%d,\"fin\":%d", i, ty, id, isfinite(f) ? 1 : 0);
      if (!isfinite(f)) f = 0;
      print_key("f", f);
      if (ty == mjCNSTR_FRICTION_DOF || ty == mjCNSTR_FRICTION_TENDON) {
        print_key("hi", d->efc_frictionloss[i]); print_key("lo", -d->efc_frictionloss[i]);
        // diagnostics for the vacuity guards (not judged): island of the row, at or beyond its bound
        printf(",\"isl\":%d,\"sat\":%d", (d->nisland > 0 && d->efc_island) ? d->efc_island[i] : -1,
               fabs(f) >= d->efc_frictionloss[i] ? 1 : 0);
      }
      if (ty >= mjCNSTR_CONTACT_FRICTIONLESS && id >= 0 && id < d->ncon) {
        const mjContact& c = d->contact[id];
        printf(",\"dim\":%d,\"adr\":%d", c.dim, c.efc_address);
        if (ty == mjCNSTR_CONTACT_ELLIPTIC && c.efc_address == i && i + c.dim <= d->nefc) {
          // cone membership f_n >= || f_t / mu_i ||, judged on squares with the tolerance of the solver's own cone
          // projection: mju_QCQP accepts |y|^2 - r^2 < 1e-10 (absolute); doubled, plus 1e-9 relative for rounding
          double s = 0; for (int j = 1; j < c.dim; j++) { double q = d->efc_force[i + j] / c.friction[j - 1]; s += q * q; }
          double f2 = f * f, nrm = sqrt(s), scale = std::max(fabs(f), nrm);
          double slack2 = f2 - s + 2e-10 + 1e-9 * std::max(f2, s);
          print_key("sl", isfinite(slack2) ? slack2 : -1.0);
          printf(",\"slx\":%d,\"slr\":\"%.3g\"", f - nrm >= 0 ? 1 : 0, scale > 0 ? (f - nrm) / scale : 0.0);   // diagnostics (not judged)
        }
      }
      printf("}");
    }
    // contact-frame forces: mj_contactForce against an independent decoding of the rows
    for (int k = 0; k < d->ncon; k++) {
      const mjContact& c = d->contact[k];
      double r[6]; mj_contactForce(m, d, k, r);
      double e[6] = {0, 0, 0, 0, 0, 0};
      int a = c.efc_address, ok = 1;
      if (a >= 0) {
        if (c.dim == 1 || !pyr) { for (int j = 0; j < c.dim; j++) e[j] = d->efc_force[a + j]; }
        else {
          for (int j = 0; j < 2 * (c.dim - 1); j++) e[0] += d->efc_force[a + j];
          for (int j = 0; j < c.dim - 1; j++) e[j + 1] = (d->efc_force[a + 2 * j] - d->efc_force[a + 2 * j + 1]) * c.friction[j];
        }
        e[0] -= c.adhesion;
      }
      double sc = 0; for (int j = 0; j < 6; j++) sc = std::max(sc, fabs(e[j]));
      for (int j = 0; j < 6; j++) if (!(fabs(r[j] - e[j]) <= 1e-12 * std::max(1.0, sc))) ok = 0;
      printf(",{\"op\":\"contact\",\"id\":%d,\"dim\":%d,\"adr\":%d,\"cf\":%d,\"adh\":%d", k, c.dim, a, ok, c.adhesion != 0 ? 1 : 0);
      print_key("n", isfinite(r[0]) ? r[0] : -1.0);
      printf("}");
    }
    // qfrc_constraint = J' efc_force
    std::vector<double> q, sc; jtf(m, d, d->efc_force, q, sc);
    int resid = 1; double worst = 0;
    for (int c = 0; c < m->nv; c++) {
      double want = d->nefc ? q[c] : 0.0, e = fabs(d->qfrc_constraint[c] - want), tol = 1e-9 * std::max(1.0, sc[c]);
      if (!(e <= tol)) resid = 0;
      if (e > worst) worst = e;
    }
    printf(",{\"op\":\"end\",\"resid\":%d,\"nv\":%d}]\n", resid, m->nv);
    return true;
  }
  if (op == "cupd") {
    int ds = atoi(t.at(1).c_str()); mjModel* m = MD(ds); mjData* d = D(ds);
    int n = d->nefc;
    if (!n) { printf("ok 0 0 0 0\n"); return true; }
    std::vector<double> jar; jv(m, d, d->qacc, jar);
    for (int i = 0; i < n; i++) jar[i] -= d->efc_aref[i];
    // reference: the pure function on copies
    std::vector<int> st(n); std::vector<double> fr(n); double c0 = 0, c1 = 0;
    std::vector<mjContact> con(d->contact, d->contact + d->ncon); con.resize(d->ncon + 1);
    mj_constraintUpdate_impl(d->ne, d->nf, n, d->efc_D, d->efc_R, d->efc_frictionloss, jar.data(), d->efc_type, d->efc_id,
                             con.data(), st.data(), fr.data(), &c0, 0);
    if (HX_TRY) { mj_constraintUpdate(m, d, jar.data(), &c1, 0); HX_END; } else { drv_err(hx_err); return true; }
    double df = 0; int dst = 0;
    for (int i = 0; i < n; i++) { df = std::max(df, fabs(fr[i] - d->efc_force[i])); dst += st[i] != d->efc_state[i]; }
    std::vector<double> q, sc; jtf(m, d, d->efc_force, q, sc);
    double dq = 0; for (int c = 0; c < m->nv; c++) dq = std::max(dq, fabs(q[c] - d->qfrc_constraint[c]) / std::max(1.0, sc[c]));
    printf("ok "); drv_print_num(df); printf(" %d ", dst); drv_print_num(dq); printf(" "); drv_print_num(fabs(c0 - c1)); printf("\n");
    return true;
  }
  return false;
}
int main() { return drv_main(extra); }
