// /verif harness (C24): drives the quaternion / rotation / pose utilities of engine_util_spatial.c from an op
// script (see checks/c24.py, tla/Rotations.tla).  The driver keeps ONE pose (quaternion q, position p); every
// command is one API call on it.  Angles arrive as numbers of quarter turns and are multiplied by pi/2 here.
//   set w x y z px py pz            -> ok
//   mulquat w x y z                 q := q * arg                      -> state line
//   premulquat w x y z              q := arg * q
//   mulaxis ax ay az k              q := q * axisAngle2Quat(axis, k pi/2)
//   setaxis ax ay az k              q := axisAngle2Quat(axis, k pi/2)
//   neg                             q := negQuat(q)
//   roundtrip                       q := mat2Quat(quat2Mat(q))
//   rotvec x y z                    -> "v" rotVecQuat(v, q)
//   integrate ax ay az k qs h       q := quatIntegrate(qs*q, axis k pi/2 / h, h) -> state line + " sub" subQuat(new, old)/(pi/2)
//                                   + " vel" 2 quat2Vel(negQuat(old) * new, 2)/(pi/2)
//   euler <seq> k1 k2 k3            q := euler2Quat(k pi/2, seq)      (seq "-" = empty string) -> state | error <msg>
//   z2vec x y z                     q := quatZ2Vec(v)
//   mulpose w x y z tx ty tz        (p, q) := mulPose((p, q), (t, arg))
//   negpose                         (p, q) := negPose(p, q)
//   trnvec x y z                    -> "v" trnVecPose(p, q, v)
// state line: "s q0 q1 q2 q3 m0 .. m8 p0 p1 p2" (m = mju_quat2Mat(q)), numbers %.17g
#include <math.h>
#include <iostream>
#include "hx.h"

static mjtNum Q[4] = {1, 0, 0, 0}, P[3] = {0, 0, 0};
static const double HALFPI = 1.57079632679489661923132169163975144;

static void print_state(const char* tail = nullptr) {
  mjtNum m[9];
  mju_quat2Mat(m, Q);
  printf("s");
  for (int i = 0; i < 4; i++) printf(" %.17g", Q[i]);
  for (int i = 0; i < 9; i++) printf(" %.17g", m[i]);
  for (int i = 0; i < 3; i++) printf(" %.17g", P[i]);
  if (tail) printf("%s", tail);
  printf("\n");
}

int main() {
  hx_install();
  std::string line;
  while (std::getline(std::cin, line)) {
    auto t = split(line);
    if (t.empty()) continue;
    const std::string& op = t[0];
    auto N = [&](size_t k) { return k < t.size() ? strtod(t[k].c_str(), nullptr) : 0.0; };
    if (op == "set") {
      for (int i = 0; i < 4; i++) Q[i] = N(1 + i);
      for (int i = 0; i < 3; i++) P[i] = N(5 + i);
      printf("ok\n");
    } else if (op == "mulquat" || op == "premulquat") {
      mjtNum a[4] = {N(1), N(2), N(3), N(4)};
      if (op == "mulquat") mju_mulQuat(Q, Q, a); else mju_mulQuat(Q, a, Q);
      print_state();
    } else if (op == "mulaxis" || op == "setaxis") {
      mjtNum ax[3] = {N(1), N(2), N(3)}, r[4];
      mju_axisAngle2Quat(r, ax, N(4) * HALFPI);
      if (op == "mulaxis") mju_mulQuat(Q, Q, r); else mju_copy4(Q, r);
      print_state();
    } else if (op == "neg") {
      mjtNum r[4]; mju_negQuat(r, Q); mju_copy4(Q, r);
      print_state();
    } else if (op == "roundtrip") {
      mjtNum m[9]; mju_quat2Mat(m, Q); mju_mat2Quat(Q, m);
      print_state();
    } else if (op == "rotvec") {
      mjtNum v[3] = {N(1), N(2), N(3)}, r[3];
      mju_rotVecQuat(r, v, Q);
      printf("v %.17g %.17g %.17g\n", r[0], r[1], r[2]);
    } else if (op == "integrate") {
      mjtNum k = N(4), qs = N(5), h = N(6);
      mjtNum vel[3] = {N(1) * k * HALFPI / h, N(2) * k * HALFPI / h, N(3) * k * HALFPI / h};
      mjtNum old[4]; mju_copy4(old, Q);
      mjtNum w[4] = {Q[0] * qs, Q[1] * qs, Q[2] * qs, Q[3] * qs};
      mju_quatIntegrate(w, vel, h);
      mju_copy4(Q, w);
      mjtNum sub[3]; mju_subQuat(sub, Q, old);
      // the same difference through the exported pieces: quat2Vel(neg(old) * new, dt = 2) * 2
      mjtNum qn[4], qd[4], v2[3]; mju_negQuat(qn, old); mju_mulQuat(qd, qn, Q); mju_quat2Vel(v2, qd, 2);
      char tail[320];
      snprintf(tail, sizeof tail, " sub %.17g %.17g %.17g vel %.17g %.17g %.17g", sub[0] / HALFPI, sub[1] / HALFPI, sub[2] / HALFPI,
               2 * v2[0] / HALFPI, 2 * v2[1] / HALFPI, 2 * v2[2] / HALFPI);
      print_state(tail);
    } else if (op == "dsub") {
      // dsub ax ay az k sa sb: qa = sa * (q * axisAngle(ax, k pi/2)), qb = sb * q -> "D" subQuat/(pi/2) (3) Da (9) Db (9)
      mjtNum ax[3] = {N(1), N(2), N(3)}, r[4], qa[4], qb[4], sub[3], Da[9], Db[9];
      mju_axisAngle2Quat(r, ax, N(4) * HALFPI);
      mju_mulQuat(qa, Q, r);
      for (int i = 0; i < 4; i++) { qa[i] *= N(5); qb[i] = Q[i] * N(6); }
      mju_subQuat(sub, qa, qb);
      mjd_subQuat(qa, qb, Da, Db);
      // the single-output calls must agree with the two-output call
      mjtNum Da1[9], Db1[9]; mjd_subQuat(qa, qb, Da1, nullptr); mjd_subQuat(qa, qb, nullptr, Db1);
      int same = memcmp(Da, Da1, sizeof Da) == 0 && memcmp(Db, Db1, sizeof Db) == 0;
      printf("D %.17g %.17g %.17g", sub[0] / HALFPI, sub[1] / HALFPI, sub[2] / HALFPI);
      for (int i = 0; i < 9; i++) printf(" %.17g", Da[i]);
      for (int i = 0; i < 9; i++) printf(" %.17g", Db[i]);
      printf(" %d\n", same);
    } else if (op == "dint") {
      // dint vx vy vz scale -> "J" Dquat (9) Dvel (9) Dscale (3)
      mjtNum v[3] = {N(1), N(2), N(3)}, Dq[9], Dv[9], Ds[3];
      mjd_quatIntegrate(v, N(4), Dq, Dv, Ds);
      printf("J");
      for (int i = 0; i < 9; i++) printf(" %.17g", Dq[i]);
      for (int i = 0; i < 9; i++) printf(" %.17g", Dv[i]);
      for (int i = 0; i < 3; i++) printf(" %.17g", Ds[i]);
      printf("\n");
    } else if (op == "mulinv") {
      mjtNum r[4]; mju_negQuat(r, Q); mju_mulQuat(Q, Q, r);
      print_state();
    } else if (op == "intzero") {
      mjtNum v[3] = {N(1), N(2), N(3)}, qs = N(4);
      mjtNum w[4] = {Q[0] * qs, Q[1] * qs, Q[2] * qs, Q[3] * qs};
      mju_quatIntegrate(w, v, 0);
      mju_copy4(Q, w);
      print_state();
    } else if (op == "euler") {
      std::string seq = t.size() > 1 && t[1] != "-" ? t[1] : "";
      mjtNum e[3] = {N(2) * HALFPI, N(3) * HALFPI, N(4) * HALFPI}, r[4];
      if (HX_TRY) { mju_euler2Quat(r, e, seq.c_str()); HX_END; mju_copy4(Q, r); print_state(); }
      else { std::string m = hx_err; for (auto& c : m) if (c == '\n') c = '|'; printf("error %s\n", m.c_str()); }
    } else if (op == "z2vec") {
      mjtNum v[3] = {N(1), N(2), N(3)};
      mju_quatZ2Vec(Q, v);
      print_state();
    } else if (op == "mulpose") {
      mjtNum a[4] = {N(1), N(2), N(3), N(4)}, tt[3] = {N(5), N(6), N(7)}, pr[3], qr[4];
      mju_mulPose(pr, qr, P, Q, tt, a);
      mju_copy3(P, pr); mju_copy4(Q, qr);
      print_state();
    } else if (op == "negpose") {
      mjtNum pr[3], qr[4];
      mju_negPose(pr, qr, P, Q);
      mju_copy3(P, pr); mju_copy4(Q, qr);
      print_state();
    } else if (op == "trnvec") {
      mjtNum v[3] = {N(1), N(2), N(3)}, r[3];
      mju_trnVecPose(r, P, Q, v);
      printf("v %.17g %.17g %.17g\n", r[0], r[1], r[2]);
    } else {
      printf("?\n");
    }
    fflush(stdout);
  }
  return 0;
}
