// /verif: src/xml needs tinyxml2, which is not available offline. The three entry points engine+user
// reference are stubbed (XML parsing/saving is out of scope of this build; models come from the mjSpec API).
#include <mujoco/mujoco.h>
#include <cstdio>
extern "C" {
#ifndef VERIF_HAVE_XML
mjSpec* mj_parseXML(const char*, const mjVFS*, char* error, int error_sz) {
  if (error) snprintf(error, error_sz, "XML parsing unavailable in the /verif build");
  return nullptr;
}
int mj_saveXML(const mjSpec*, const char*, char* error, int error_sz) {
  if (error) snprintf(error, error_sz, "XML saving unavailable in the /verif build");
  return -1;
}
int mj_saveLastXML(const char*, const mjModel*, char* error, int error_sz) {
  if (error) snprintf(error, error_sz, "XML saving unavailable in the /verif build");
  return 0;
}
#endif
}
