// /verif harness for C01 (tla/DataLifecycle.tla, checks/c01.py) and C04 (tla/Pipeline.tla, checks/c04.py).
// Generic ops (model/data pools, pipeline calls, cmp, copydata, copystate ...) come from mjdrv_common.h, extended
// model kinds and the test plugin with plugin state from mkmodel_ext.h.  Added ops (one output line each):
//   pat <d> <group> <k>      write user pattern k (>= 1) into one group of integration-state fields:
//                            time | qp (qpos,qvel,act) | qpos | qvel | qaccin (qacc) | plug | warm | ctrl | app | aux -> "ok"
//   gsave <buf> <d> <sig>    mj_getState into an internal buffer (bit exact)        -> "<n>"
//   gload <d> <buf>          mj_setState from that buffer (its signature)           -> "ok"
//   cmpall <a> <b>           every mjData array (buffer + arena), contacts, scalars, solver/warning/timer stats
//                            -> "eq" | "ne <field>"
//   awake <d>                "<fully awake 0/1> <trees asleep>"  (fully awake: every tree_asleep == -(1+mjMINAWAKE))
//   flags <d>                "<flg_energypos> <flg_energyvel> <flg_subtreevel> <flg_rnepost>"
//   const <NAME>             value of a few enum constants used by the checks
//   cb <mode>                0: no callbacks; 1: observer callbacks (time, sensor, passive, control) that only log;
//                            2: like 1 and the control callback also writes qfrc_applied[0] = 1 (gray case of C04)
//   tr <call> <d> [args]     run a public pipeline call and print the events the callbacks saw, in order:
//                            POS VEL ACT CON ADV FWD INV (end of the timed stage function), PAS (passive callback,
//                            inside mj_fwdVelocity), S0 S1 S2 (user sensor callback of stage pos/vel/acc), CTL (control
//                            callback).  <call>: forward | fwdskip <stage> <skipsensor> | step | step1 | step2 |
//                            inverse | invskip <stage> <skipsensor> | any single-stage op of mjdrv_common.h
//   defclass <name> f1,f2,.. register a named class of mjData fields (same names as the cmp op of mjdrv_common.h)
//   cc <a> <b> c1,c2,..      compare all fields of the listed classes bytewise    -> "eq" | "ne <class>/<field>"
//   ccs <a> <b> c1,c2,..     the listed classes that ARE bytewise equal ("all" = cmpall)  -> "c1 c3 ..." | "-"
//   nwarn                    number of engine warnings raised since the process started
//   sensdiff <a> <b> [stage] sensors (of one stage) whose sensordata differ: "<n> <sensor type>:<sensor id> ..."
#include "mkmodel_ext.h"

static std::map<int, std::pair<int, std::vector<mjtNum>>> g_buf;   // buffer slot -> (sig, values)

static const double QT[4][4] = {{1, 0, 0, 0}, {0, 1, 0, 0}, {0.5, 0.5, 0.5, 0.5}, {0, 0, 0.6, 0.8}};

static void pat_qpos(const mjModel* m, mjData* d, int k) {
  for (int j = 0; j < m->njnt; j++) {
    int a = m->jnt_qposadr[j];
    switch (m->jnt_type[j]) {
      case mjJNT_FREE:
        d->qpos[a] = m->qpos0[a] + 0.015625 * k; d->qpos[a + 1] = m->qpos0[a + 1] + 0.0078125 * k * (j + 1);
        d->qpos[a + 2] = m->qpos0[a + 2] - 0.001953125 * k;
        for (int c = 0; c < 4; c++) d->qpos[a + 3 + c] = QT[(k + j) % 4][c];
        break;
      case mjJNT_BALL:
        for (int c = 0; c < 4; c++) d->qpos[a + c] = QT[(k + j + 1) % 4][c];
        break;
      default:
        d->qpos[a] = m->qpos0[a] + 0.03125 * k + 0.0078125 * j;
    }
  }
}
static void pat_qvel(const mjModel* m, mjData* d, int k) {
  for (int i = 0; i < m->nv; i++) d->qvel[i] = 0.0625 * k * ((i % 2) ? -1 : 1) + 0.015625 * i;
}
static bool do_pat(const mjModel* m, mjData* d, const std::string& g, int k) {
  if (g == "time") d->time = 0.5 * k;
  else if (g == "qpos") pat_qpos(m, d, k);
  else if (g == "qvel") pat_qvel(m, d, k);
  else if (g == "qp") {
    pat_qpos(m, d, k); pat_qvel(m, d, k);
    for (int i = 0; i < m->na; i++) d->act[i] = 0.125 * k + 0.03125 * i;
  }
  else if (g == "qaccin") { for (int i = 0; i < m->nv; i++) d->qacc[i] = 0.5 * k - 0.25 * i; }
  else if (g == "plug") { for (int i = 0; i < m->npluginstate; i++) d->plugin_state[i] = 11 + k + 0.5 * i; }
  else if (g == "warm") { for (int i = 0; i < m->nv; i++) d->qacc_warmstart[i] = 0.25 * k - 0.125 * i; }
  else if (g == "ctrl") { for (int i = 0; i < m->nu; i++) d->ctrl[i] = 0.125 * k * ((i % 2) ? -1 : 1) + 0.0625; }
  else if (g == "app") {
    for (int i = 0; i < m->nv; i++) d->qfrc_applied[i] = 0.0625 * k - 0.015625 * i;
    for (int b = 1; b < m->nbody; b++) for (int c = 0; c < 6; c++) d->xfrc_applied[6 * b + c] = 0.03125 * k * (c + 1) / (double)(b + 1);
  }
  else if (g == "aux") {
    for (int i = 0; i < m->neq; i++) d->eq_active[i] = ((i + k) % 3) != 0;
    for (int b = 0; b < m->nbody; b++) {
      int mc = m->body_mocapid[b]; if (mc < 0) continue;
      for (int c = 0; c < 3; c++) d->mocap_pos[3 * mc + c] = m->body_pos[3 * b + c] + 0.015625 * k * (c + 1);
      for (int c = 0; c < 4; c++) d->mocap_quat[4 * mc + c] = QT[(k + mc) % 4][c];
    }
    for (int i = 0; i < m->nuserdata; i++) d->userdata[i] = k + 0.5 * i;
  }
  else return false;
  return true;
}

// ---- complete comparison of two mjData instances of the same model
static std::string cmp_all(const mjModel* m, mjData* a, mjData* b) {
  auto fa = drv_data_fields(m, a), fb = drv_data_fields(m, b);
  for (size_t i = 0; i < fa.size(); i++) {
    std::string nm = fa[i].name;
    if (nm == "contact") {
      std::vector<double> x, y; drv_contact_bytes(a, x); drv_contact_bytes(b, y);
      if (x.size() != y.size() || (x.size() && memcmp(x.data(), y.data(), x.size() * 8))) return nm;
      continue;
    }
    if (nm == "plugin_data") continue;                    // per-instance pointers
    if ((fa[i].ptr == nullptr) != (fb[i].ptr == nullptr)) return nm;
    if (fa[i].count != fb[i].count) return nm;
    size_t n = fa[i].count * fa[i].elsize;
    if (n && memcmp(fa[i].ptr, fb[i].ptr, n)) return nm;
  }
#define X(type, name) if (std::string(#name) != "threadpool" && a->name != b->name) return #name;
  MJDATA_SCALAR
#undef X
  if (memcmp(a->energy, b->energy, sizeof a->energy)) return "energy";
  if (memcmp(a->solver_niter, b->solver_niter, sizeof a->solver_niter)) return "solver_niter";
  if (memcmp(a->solver_nnz, b->solver_nnz, sizeof a->solver_nnz)) return "solver_nnz";
  if (memcmp(a->solver_fwdinv, b->solver_fwdinv, sizeof a->solver_fwdinv)) return "solver_fwdinv";
  for (int i = 0; i < mjNWARNING; i++)
    if (a->warning[i].number != b->warning[i].number || a->warning[i].lastinfo != b->warning[i].lastinfo) return "warning";
  for (int i = 0; i < mjNTIMER; i++)
    if (a->timer[i].number != b->timer[i].number || a->timer[i].duration != b->timer[i].duration) return "timer";
  for (int i = 0; i < mjNISLAND * mjNSOLVER; i++) {
    const mjSolverStat &x = a->solver[i], &y = b->solver[i];
    if (x.improvement != y.improvement || x.gradient != y.gradient || x.lineslope != y.lineslope || x.nactive != y.nactive ||
        x.nchange != y.nchange || x.neval != y.neval || x.nupdate != y.nupdate) return "solver";
  }
  return "";
}

// ---- registered field classes: indices into drv_data_fields (the order is fixed by the X macros) or special names
struct ClsFld { std::string name; int idx; };
static std::map<std::string, std::vector<ClsFld>> g_cls;
static bool special_field(const std::string& n) {
  return n == "contact" || n == "time" || n == "energy" || n == "ncon" || n == "nefc" || n == "nisland" || n == "ne" ||
         n == "nf" || n == "nl";
}
// pseudo fields: sens1|sens2|sens3 = sensordata of the sensors of one stage, energy0|energy1, qaccin handled by pat
static bool pseudo_field(const std::string& n) { return n == "sens1" || n == "sens2" || n == "sens3" || n == "energy0" || n == "energy1"; }
static bool pseudo_equal(const mjModel* m, const mjData* a, const mjData* b, const std::string& n) {
  if (n == "energy0") return !memcmp(&a->energy[0], &b->energy[0], sizeof(mjtNum));
  if (n == "energy1") return !memcmp(&a->energy[1], &b->energy[1], sizeof(mjtNum));
  int stage = n[4] - '0';
  for (int k = 0; k < m->nsensor; k++)
    if (m->sensor_needstage[k] == stage &&
        memcmp(a->sensordata + m->sensor_adr[k], b->sensordata + m->sensor_adr[k], sizeof(mjtNum) * m->sensor_dim[k])) return false;
  return true;
}
static std::string cmp_classes(const mjModel* m, mjData* a, mjData* b, const std::vector<std::string>& cls) {
  auto fa = drv_data_fields(m, a), fb = drv_data_fields(m, b);
  std::vector<unsigned char> x, y;
  for (auto& c : cls) {
    auto it = g_cls.find(c); if (it == g_cls.end()) mk_die("unknown class " + c);
    for (auto& f : it->second) {
      if (f.idx == -2) { if (!pseudo_equal(m, a, b, f.name)) return c + "/" + f.name; continue; }
      if (f.idx < 0) {
        drv_field_bytes(m, a, f.name, x); drv_field_bytes(m, b, f.name, y);
        if (x != y) return c + "/" + f.name;
        continue;
      }
      const DrvFld &p = fa[f.idx], &q = fb[f.idx];
      if ((p.ptr == nullptr) != (q.ptr == nullptr) || p.count != q.count) return c + "/" + f.name;
      size_t n = p.count * p.elsize;
      if (n && memcmp(p.ptr, q.ptr, n)) return c + "/" + f.name;
    }
  }
  return "";
}

// ---- event recording through callbacks
static int g_cbmode = 0;
static mjData* g_cur = nullptr;
static int g_snap[mjNTIMER];
static std::vector<std::string> g_events;
static const char* timer_name(int i) {
  switch (i) {
    case mjTIMER_FORWARD: return "FWD"; case mjTIMER_INVERSE: return "INV"; case mjTIMER_POSITION: return "POS";
    case mjTIMER_VELOCITY: return "VEL"; case mjTIMER_ACTUATION: return "ACT"; case mjTIMER_CONSTRAINT: return "CON";
    case mjTIMER_ADVANCE: return "ADV"; default: return nullptr;
  }
}
static void flush_timers() {
  if (!g_cur) return;
  for (int i = 0; i < mjNTIMER; i++) {
    int n = g_cur->timer[i].number;
    if (n != g_snap[i]) {
      const char* nm = timer_name(i);
      if (nm) for (int k = g_snap[i]; k < n; k++) g_events.push_back(nm);
      g_snap[i] = n;
    }
  }
}
static mjtNum cb_time() { flush_timers(); return 0; }      // constant clock: durations stay 0, counts advance
static void cb_sensor(const mjModel*, mjData* d, int stage) { if (d == g_cur) { flush_timers(); g_events.push_back("S" + std::to_string(stage - 1)); } }
static void cb_passive(const mjModel*, mjData* d) { if (d == g_cur) { flush_timers(); g_events.push_back("PAS"); } }
static void cb_control(const mjModel* m, mjData* d) {
  if (d == g_cur) { flush_timers(); g_events.push_back("CTL"); }
  if (g_cbmode == 2 && m->nv > 0) d->qfrc_applied[0] = 1;
}
static void set_cb(int mode) {
  g_cbmode = mode;
  mjcb_time = mode ? cb_time : nullptr;
  mjcb_sensor = mode ? cb_sensor : nullptr;
  mjcb_passive = mode ? cb_passive : nullptr;
  mjcb_control = mode ? cb_control : nullptr;
}

static bool extra(const std::vector<std::string>& t, const std::vector<std::string>& lines, size_t& i) {
  const std::string& op = t[0];
  auto I = [&](size_t k) { if (k >= t.size()) mk_die("missing argument for " + op); return atoi(t[k].c_str()); };
  if (mkx_op(t, lines, i)) return true;
  if (op == "pat") {
    int ds = I(1);
    if (!do_pat(MD(ds), D(ds), t.at(2), I(3))) mk_die("unknown group " + t.at(2));
    printf("ok\n"); return true;
  }
  if (op == "gsave") {
    int bs = I(1), ds = I(2), sig = I(3);
    if (HX_TRY) {
      int n = mj_stateSize(MD(ds), sig); std::vector<mjtNum> b(n > 0 ? n : 1);
      mj_getState(MD(ds), D(ds), b.data(), sig); HX_END;
      g_buf[bs] = {sig, b}; printf("%d\n", n);
    } else drv_err(hx_err);
    return true;
  }
  if (op == "gload") {
    int ds = I(1), bs = I(2);
    if (!g_buf.count(bs)) mk_die("no state buffer");
    if (HX_TRY) { mj_setState(MD(ds), D(ds), g_buf[bs].second.data(), g_buf[bs].first); HX_END; printf("ok\n"); }
    else drv_err(hx_err);
    return true;
  }
  if (op == "defclass") {
    std::vector<ClsFld> v;
    mjModel* m0 = g_model.empty() ? nullptr : g_model.begin()->second;
    if (!m0) mk_die("defclass needs a compiled model");
    mjData* d0 = mj_makeData(m0);
    auto fl = drv_data_fields(m0, d0);
    for (auto& n : drv_csv(t.at(2))) {
      int idx = -1;
      if (pseudo_field(n)) idx = -2;
      else if (!special_field(n)) {
        for (size_t k = 0; k < fl.size(); k++) if (n == fl[k].name) idx = (int)k;
        if (idx < 0) mk_die("unknown data field " + n);
      }
      v.push_back({n, idx});
    }
    mj_deleteData(d0);
    g_cls[t.at(1)] = v; printf("ok\n"); return true;
  }
  if (op == "cc") {
    int a = I(1), b = I(2);
    std::string r = cmp_classes(MD(a), D(a), D(b), drv_csv(t.at(3)));
    if (r.empty()) printf("eq\n"); else printf("ne %s\n", r.c_str());
    return true;
  }
  if (op == "ccs") {
    int a = I(1), b = I(2); std::string out;
    for (auto& c : drv_csv(t.at(3))) {
      std::string r = c == "all" ? cmp_all(MD(a), D(a), D(b)) : cmp_classes(MD(a), D(a), D(b), {c});
      if (r.empty()) { if (!out.empty()) out += " "; out += c; }
    }
    printf("%s\n", out.empty() ? "-" : out.c_str()); return true;
  }
  if (op == "nwarn") { printf("%d\n", hx_nwarn); return true; }
  if (op == "sensdiff") {
    int a = I(1), b = I(2); const mjModel* m = MD(a); mjData *x = D(a), *y = D(b);
    int stage = t.size() > 3 ? I(3) : 0;
    std::string out; int n = 0;
    for (int k = 0; k < m->nsensor; k++)
      if ((stage == 0 || m->sensor_needstage[k] == stage) && memcmp(x->sensordata + m->sensor_adr[k], y->sensordata + m->sensor_adr[k], sizeof(mjtNum) * m->sensor_dim[k])) {
        n++; out += " " + std::to_string(m->sensor_type[k]) + ":" + std::to_string(k);
      }
    printf("%d%s\n", n, out.c_str()); return true;
  }
  if (op == "cmpall") {
    int a = I(1), b = I(2);
    std::string r = cmp_all(MD(a), D(a), D(b));
    if (r.empty()) printf("eq\n"); else printf("ne %s\n", r.c_str());
    return true;
  }
  if (op == "awake") {
    int ds = I(1); const mjModel* m = MD(ds); mjData* d = D(ds);
    int full = 1, asleep = 0;
    for (int k = 0; k < m->ntree; k++) { if (d->tree_asleep[k] != -(1 + mjMINAWAKE)) full = 0; if (d->tree_asleep[k] >= 0) asleep++; }
    if (d->ntree_awake != m->ntree || d->nv_awake != m->nv || d->nbody_awake != m->nbody) full = 0;
    printf("%d %d\n", full, asleep); return true;
  }
  if (op == "flags") {
    mjData* d = D(I(1));
    printf("%d %d %d %d\n", d->flg_energypos, d->flg_energyvel, d->flg_subtreevel, d->flg_rnepost); return true;
  }
  if (op == "const") {
    const std::string& n = t.at(1);
    static const std::map<std::string, long> C = {
      {"mjSENS_USER", mjSENS_USER}, {"mjSENS_E_POTENTIAL", mjSENS_E_POTENTIAL}, {"mjSENS_E_KINETIC", mjSENS_E_KINETIC},
      {"mjSENS_SUBTREELINVEL", mjSENS_SUBTREELINVEL}, {"mjSENS_SUBTREEANGMOM", mjSENS_SUBTREEANGMOM},
      {"mjSENS_ACCELEROMETER", mjSENS_ACCELEROMETER}, {"mjSENS_FORCE", mjSENS_FORCE}, {"mjSENS_TORQUE", mjSENS_TORQUE},
      {"mjSENS_TOUCH", mjSENS_TOUCH}, {"mjSENS_JOINTPOS", mjSENS_JOINTPOS}, {"mjSENS_JOINTVEL", mjSENS_JOINTVEL},
      {"mjSENS_ACTUATORFRC", mjSENS_ACTUATORFRC}, {"mjSENS_FRAMEPOS", mjSENS_FRAMEPOS}, {"mjSENS_FRAMELINACC", mjSENS_FRAMELINACC},
      {"mjSENS_FRAMELINVEL", mjSENS_FRAMELINVEL}, {"mjSENS_CLOCK", mjSENS_CLOCK}, {"mjSENS_GYRO", mjSENS_GYRO},
      {"mjSENS_VELOCIMETER", mjSENS_VELOCIMETER}, {"mjSENS_SUBTREECOM", mjSENS_SUBTREECOM},
      {"mjSENS_JOINTLIMITFRC", mjSENS_JOINTLIMITFRC}, {"mjSENS_TENDONPOS", mjSENS_TENDONPOS},
      {"mjOBJ_BODY", mjOBJ_BODY}, {"mjOBJ_XBODY", mjOBJ_XBODY}, {"mjOBJ_JOINT", mjOBJ_JOINT}, {"mjOBJ_SITE", mjOBJ_SITE},
      {"mjOBJ_ACTUATOR", mjOBJ_ACTUATOR}, {"mjOBJ_TENDON", mjOBJ_TENDON}, {"mjOBJ_GEOM", mjOBJ_GEOM},
      {"mjSTAGE_NONE", mjSTAGE_NONE}, {"mjSTAGE_POS", mjSTAGE_POS}, {"mjSTAGE_VEL", mjSTAGE_VEL}, {"mjSTAGE_ACC", mjSTAGE_ACC},
      {"mjDATATYPE_REAL", mjDATATYPE_REAL}, {"mjMINAWAKE", mjMINAWAKE}, {"mjSLEEP_ALLOWED", mjSLEEP_ALLOWED},
      {"mjSLEEP_NEVER", mjSLEEP_NEVER}, {"mjSLEEP_INIT", mjSLEEP_INIT},
      {"mjSTATE_INTEGRATION", mjSTATE_INTEGRATION}, {"mjSTATE_PHYSICS", mjSTATE_PHYSICS},
      {"mjSTATE_FULLPHYSICS", mjSTATE_FULLPHYSICS}, {"mjSTATE_USER", mjSTATE_USER},
      {"mjEQ_CONNECT", mjEQ_CONNECT}, {"mjEQ_WELD", mjEQ_WELD}, {"mjEQ_JOINT", mjEQ_JOINT},
      {"mjDYN_INTEGRATOR", mjDYN_INTEGRATOR}, {"mjDYN_FILTER", mjDYN_FILTER}, {"mjDYN_FILTEREXACT", mjDYN_FILTEREXACT},
      {"mjGAIN_FIXED", mjGAIN_FIXED}, {"mjBIAS_AFFINE", mjBIAS_AFFINE}, {"mjTRN_JOINT", mjTRN_JOINT}, {"mjTRN_TENDON", mjTRN_TENDON},
    };
    auto it = C.find(n); if (it == C.end()) mk_die("unknown constant " + n);
    printf("%ld\n", it->second); return true;
  }
  if (op == "cb") { set_cb(I(1)); printf("ok\n"); return true; }
  if (op == "tr") {
    if (t.size() < 3) mk_die("tr: missing arguments");
    int ds = I(2);
    g_cur = D(ds); g_events.clear();
    for (int k = 0; k < mjNTIMER; k++) g_snap[k] = g_cur->timer[k].number;
    const std::string& c = t[1];
    const mjModel* m = MD(ds); mjData* d = g_cur;
    bool ok = true;
    if (HX_TRY) {
      if (c == "forward") mj_forward(m, d);
      else if (c == "fwdskip") mj_forwardSkip(m, d, I(3), I(4));
      else if (c == "step") mj_step(m, d);
      else if (c == "step1") mj_step1(m, d);
      else if (c == "step2") mj_step2(m, d);
      else if (c == "inverse") mj_inverse(m, d);
      else if (c == "invskip") mj_inverseSkip(m, d, I(3), I(4));
      else if (c == "fwdPosition") mj_fwdPosition(m, d);
      else if (c == "fwdVelocity") mj_fwdVelocity(m, d);
      else if (c == "fwdActuation") mj_fwdActuation(m, d);
      else if (c == "fwdAcceleration") mj_fwdAcceleration(m, d);
      else if (c == "fwdConstraint") mj_fwdConstraint(m, d);
      else if (c == "sensorPos") mj_sensorPos(m, d);
      else if (c == "sensorVel") mj_sensorVel(m, d);
      else if (c == "sensorAcc") mj_sensorAcc(m, d);
      else if (c == "energyPos") mj_energyPos(m, d);
      else if (c == "energyVel") mj_energyVel(m, d);
      else ok = false;
      HX_END;
    } else { g_cur = nullptr; drv_err(hx_err); return true; }
    if (!ok) mk_die("tr: unknown call " + c);
    flush_timers();
    g_cur = nullptr;
    std::string out;
    for (auto& e : g_events) { if (!out.empty()) out += " "; out += e; }
    printf("ev %s\n", out.c_str()); return true;
  }
  return false;
}

int main() { return drv_main(extra); }
