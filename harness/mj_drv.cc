// /verif harness: generic driver exposing the shared op set of mjdrv_common.h
#include "mjdrv_common.h"
int main() { return drv_main(nullptr); }
