// /verif harness (C32, C36): MJCF writer / reader round trip.  The executable links ALL of /repo/src/xml/*.cc
// compiled against the stand-in /verif/shim/fullxml/tinyxml2.h (the tokenizer/printer is the shim, NOT tinyxml2);
// its mj_parseXML / mj_saveXML / mj_saveLastXML override the stubs in libmujoco_verif.so.
//
// Model description: the kinds of mkmodel.h / mkmodel_ext.h plus class-aware kinds (mjSpec default classes):
//   default name=c1 parent=main                       mjs_addDefault
//   dgeom|djoint|dsite|dcamera|dlight|dpair|dequality|dtendon|dactuator|dmesh|dmaterial class=c1 key=val ...
//                                                     edit the defaults of a class (class=main allowed)
//   cbody name=b parent=world [frame=f] [class=c1] key=val...      mjs_addBody(parent, def)
//   cframe name=f body=b [frame=pf] [class=c1] [anon=1] key=val... mjs_addFrame (+ mjs_setDefault when class given;
//                                                     anon=1: the name is cleared once the description is complete)
//   cgeom|cjoint|csite|ccamera|clight body=b [frame=f] [class=c1] [reclass=c2] key=val...
//                                                     mjs_addX(body, def); reclass: mjs_setDefault afterwards
//   cpair|cequality|ctendon|cactuator|cmesh|cmaterial [class=c1] key=val...
//   freejoint body=b [frame=f] [name=..]              mjs_addFreeJoint
// Ops (besides mjdrv_common.h):
//   rtspec <s> ... end          build a spec (not compiled) -> ok
//   rtmodel <m> ... end         build spec slot m and compile into model slot m -> ok | error msg
//   precision <n>               digits used by the XML writer (default 6)
//   savexml <s>                 mj_saveXMLString of spec slot -> hex text | error msg
//   savefile <s> <hexpath>      mj_saveXML -> ok | error msg
//   parsexml <s> <hexxml>       mj_parseXMLString into spec slot -> ok | error msg
//   parsefile <s> <hexpath>     mj_parseXML -> ok | error msg
//   loadxml <m> <hexpath>       mj_loadXML -> ok | error msg
//   rt <s> <d>                  mj_saveXMLString(spec s) -> mj_parseXMLString -> spec d -> mj_compile -> model d: ok | error <stage>: msg
//   rtfile <s> <d> <hexpath>    the same through mj_saveXML / mj_parseXML and a file
//   names <m> <objtype>         names (and owner body names) of all elements of a type in id order
//   setdir <s> <hexdir>         set spec->modelfiledir (assets of a spec parsed from a string)
//   fld <m> <objtype> <hexname> <field> <perelem> <offset> [viafield]   one entry of a model array, by element name
//   msetn <m> <objtype> <hexname> <field> <perelem> <offset> <value>    write a model array entry by element name
//   dfld <d> <objtype> <hexname> <field> <n>      n numbers of a data array at the element's id
//   trajx <m> <nstep> <type:hexname> ...          qvel kick, n steps, world positions of the named bodies / geoms
//   mcmp / mdiff take a 4th argument with options: nostat (skip mjStatistic), quatsign (q ~ -q in *quat arrays)
//   mcmp <m1> <m2> [tol]        every compiled array, size, option, visual, statistic -> eq | ne <field> <i> <a> <b>
//   mdiff <m1> <m2> [tol]       like mcmp but lists up to 12 differing fields
//   mbytes <m>                  FNV-1a of mj_saveModel bytes
//   traj <m> <nstep> [hexkick]  make data, optional qvel kick "v0,v1,..", step n times -> hex of qpos|qvel|act|time bytes
#include <mujoco/mujoco.h>
#include "mkmodel_ext.h"
#include "xml/xml_numeric_format.h"

static const mjsDefault* rt_def(mjSpec* s, const std::string& nm) {
  if (nm.empty()) return nullptr;
  const mjsDefault* d = nm == "main" ? mjs_getSpecDefault(s) : mjs_findDefault(s, nm.c_str());
  if (!d) mk_die("unknown default class " + nm);
  return d;
}
static mjsFrame* rt_frame(mjSpec* s, const std::string& nm) {
  if (nm.empty()) return nullptr;
  mjsElement* e = mjs_findElement(s, mjOBJ_FRAME, nm.c_str());
  if (!e) mk_die("unknown frame " + nm);
  return mjs_asFrame(e);
}
static mjsBody* rt_body(mjSpec* s, const std::string& nm) {
  mjsBody* b = mjs_findBody(s, nm.c_str());
  if (!b) mk_die("unknown body " + nm);
  return b;
}

// fields that the tables of mkmodel.h do not offer
static const MkField RT_CAMERA[] = {
  MKF(mjsCamera, fovy, 'd', 1), MKF(mjsCamera, ipd, 'd', 1), MKF(mjsCamera, resolution, 'i', 2), MKF(mjsCamera, proj, 'i', 1),
  MKF(mjsCamera, sensor_size, 'f', 2), MKF(mjsCamera, focal_length, 'f', 2), MKF(mjsCamera, userdata, 'v', 1),
  MKFN(mjsCamera, "alt_type", alt.type, 'i', 1), MKFN(mjsCamera, "euler", alt.euler, 'd', 3), {0, 0, 0, 0}};
static const MkField RT_LIGHT[] = {
  MKF(mjsLight, type, 'i', 1), MKF(mjsLight, castshadow, 'b', 1), MKF(mjsLight, bulbradius, 'f', 1), MKF(mjsLight, intensity, 'f', 1),
  MKF(mjsLight, range, 'f', 1), MKF(mjsLight, attenuation, 'f', 3), MKF(mjsLight, cutoff, 'f', 1), MKF(mjsLight, softness, 'f', 1),
  MKF(mjsLight, exponent, 'f', 1), MKF(mjsLight, ambient, 'f', 3), MKF(mjsLight, diffuse, 'f', 3), MKF(mjsLight, specular, 'f', 3),
  MKF(mjsLight, targetbody, 's', 1), {0, 0, 0, 0}};
static const MkField RT_MATERIAL[] = {
  MKF(mjsMaterial, shininess, 'f', 1), MKF(mjsMaterial, reflectance, 'f', 1), MKF(mjsMaterial, metallic, 'f', 1),
  MKF(mjsMaterial, roughness, 'f', 1), MKF(mjsMaterial, texrepeat, 'f', 2), MKF(mjsMaterial, texuniform, 'b', 1), {0, 0, 0, 0}};
static const MkField RT_COMPILER[] = {
  MKF(mjsCompiler, inertiagrouprange, 'i', 2), MKF(mjsCompiler, fitaabb, 'b', 1),
  MKFN(mjsCompiler, "lr_mode", LRopt.mode, 'i', 1), MKFN(mjsCompiler, "lr_useexisting", LRopt.useexisting, 'i', 1),
  MKFN(mjsCompiler, "lr_uselimit", LRopt.uselimit, 'i', 1), MKFN(mjsCompiler, "lr_accel", LRopt.accel, 'd', 1),
  MKFN(mjsCompiler, "lr_maxforce", LRopt.maxforce, 'd', 1), MKFN(mjsCompiler, "lr_timeconst", LRopt.timeconst, 'd', 1),
  MKFN(mjsCompiler, "lr_timestep", LRopt.timestep, 'd', 1), MKFN(mjsCompiler, "lr_inttotal", LRopt.inttotal, 'd', 1),
  MKFN(mjsCompiler, "lr_interval", LRopt.interval, 'd', 1), MKFN(mjsCompiler, "lr_tolrange", LRopt.tolrange, 'd', 1), {0, 0, 0, 0}};
static const MkField RT_NONE[] = {{0, 0, 0, 0}};
static void rt_apply(void* base, const MkField* tab, const MkField* tab2, std::vector<std::pair<std::string, std::string>>& kv, const std::string& kind) {
  for (auto& p : kv) if (!mk_set(base, tab, p.first, p.second) && !mk_set(base, tab2, p.first, p.second)) mk_die("unknown key '" + p.first + "' for " + kind);
}
static std::vector<mjsElement*> rt_anon;     // frames whose name is cleared when the description ends

static bool rt_line(mjSpec* s, const std::string& line) {
  std::string kind; std::vector<std::pair<std::string, std::string>> kv;
  mk_parse_line(line, kind, kv);
  if (kind == "compiler") { rt_apply(&s->compiler, MK_COMPILER, RT_COMPILER, kv, kind); return true; }
  if (kind == "default") {
    std::string nm = mk_take(kv, "name"), par = mk_take(kv, "parent", "main");
    if (!mjs_addDefault(s, nm.c_str(), rt_def(s, par))) mk_die("cannot add default " + nm);
    if (!kv.empty()) mk_die("unknown key for default");
    return true;
  }
#define RT_DEF(KIND, MEMBER, TAB, TAB2) \
  if (kind == KIND) { mjsDefault* d = (mjsDefault*)rt_def(s, mk_take(kv, "class")); rt_apply(d->MEMBER, TAB, TAB2, kv, kind); return true; }
  RT_DEF("dgeom", geom, MK_GEOM, RT_NONE) RT_DEF("djoint", joint, MK_JOINT, RT_NONE) RT_DEF("dsite", site, MK_SITE, RT_NONE)
  RT_DEF("dcamera", camera, MK_CAMERA, RT_CAMERA) RT_DEF("dlight", light, MK_LIGHT, RT_LIGHT) RT_DEF("dpair", pair, MK_PAIR, RT_NONE)
  RT_DEF("dequality", equality, MK_EQUALITY, RT_NONE) RT_DEF("dtendon", tendon, MK_TENDON, RT_NONE)
  RT_DEF("dactuator", actuator, MK_ACTUATOR, RT_NONE) RT_DEF("dmesh", mesh, MK_MESH, RT_NONE) RT_DEF("dmaterial", material, MK_MATERIAL, RT_MATERIAL)
  if (kind == "cbody") {
    std::string nm = mk_take(kv, "name", ""), par = mk_take(kv, "parent", "world"), f = mk_take(kv, "frame", ""), c = mk_take(kv, "class", "");
    mjsBody* b = mjs_addBody(rt_body(s, par), rt_def(s, c));
    if (!nm.empty()) mjs_setName(b->element, nm.c_str());
    if (!f.empty()) mjs_setFrame(b->element, rt_frame(s, f));
    mk_apply(b, MK_BODY, kv, kind); return true;
  }
  if (kind == "cframe") {
    std::string nm = mk_take(kv, "name", ""), par = mk_take(kv, "body", "world"), f = mk_take(kv, "frame", ""), c = mk_take(kv, "class", "");
    std::string anon = mk_take(kv, "anon", "0");
    mjsFrame* fr = mjs_addFrame(rt_body(s, par), rt_frame(s, f));
    if (!nm.empty()) mjs_setName(fr->element, nm.c_str());
    if (anon == "1") rt_anon.push_back(fr->element);
    if (!c.empty()) mjs_setDefault(fr->element, rt_def(s, c));
    mk_apply(fr, MK_FRAME, kv, kind); return true;
  }
#define RT_CHILD(KIND, TYPE, ADD, TAB, TAB2) \
  if (kind == KIND) { std::string b = mk_take(kv, "body", "world"), f = mk_take(kv, "frame", ""), c = mk_take(kv, "class", ""), \
      rc = mk_take(kv, "reclass", ""), nm = mk_take(kv, "name", ""); \
    TYPE* x = ADD(rt_body(s, b), rt_def(s, c)); if (!nm.empty()) mjs_setName(x->element, nm.c_str()); \
    if (!f.empty()) mjs_setFrame(x->element, rt_frame(s, f)); \
    if (!rc.empty()) mjs_setDefault(x->element, rt_def(s, rc)); \
    rt_apply(x, TAB, TAB2, kv, kind); return true; }
  RT_CHILD("cgeom", mjsGeom, mjs_addGeom, MK_GEOM, RT_NONE) RT_CHILD("cjoint", mjsJoint, mjs_addJoint, MK_JOINT, RT_NONE)
  RT_CHILD("csite", mjsSite, mjs_addSite, MK_SITE, RT_NONE) RT_CHILD("ccamera", mjsCamera, mjs_addCamera, MK_CAMERA, RT_CAMERA)
  RT_CHILD("clight", mjsLight, mjs_addLight, MK_LIGHT, RT_LIGHT)
#define RT_TOP(KIND, TYPE, ADD, TAB, TAB2) \
  if (kind == KIND) { std::string c = mk_take(kv, "class", ""), nm = mk_take(kv, "name", ""); \
    TYPE* x = ADD(s, rt_def(s, c)); if (!nm.empty()) mjs_setName(x->element, nm.c_str()); rt_apply(x, TAB, TAB2, kv, kind); return true; }
  RT_TOP("cpair", mjsPair, mjs_addPair, MK_PAIR, RT_NONE) RT_TOP("cequality", mjsEquality, mjs_addEquality, MK_EQUALITY, RT_NONE)
  RT_TOP("ctendon", mjsTendon, mjs_addTendon, MK_TENDON, RT_NONE) RT_TOP("cactuator", mjsActuator, mjs_addActuator, MK_ACTUATOR, RT_NONE)
  RT_TOP("cmesh", mjsMesh, mjs_addMesh, MK_MESH, RT_NONE) RT_TOP("cmaterial", mjsMaterial, mjs_addMaterial, MK_MATERIAL, RT_MATERIAL)
  if (kind == "freejoint") {
    std::string b = mk_take(kv, "body"), f = mk_take(kv, "frame", ""), nm = mk_take(kv, "name", "");
    mjsJoint* j = mjs_addFreeJoint(rt_body(s, b));
    if (!nm.empty()) mjs_setName(j->element, nm.c_str());
    if (!f.empty()) mjs_setFrame(j->element, rt_frame(s, f));
    if (!kv.empty()) mk_die("unknown key for freejoint");
    return true;
  }
  if (kind == "wrapgeom" || kind == "wrappulley") {
    std::string t = mk_take(kv, "tendon");
    mjsElement* e = mjs_findElement(s, mjOBJ_TENDON, t.c_str()); if (!e) mk_die("unknown tendon " + t);
    if (kind == "wrapgeom") { std::string g = mk_take(kv, "geom"), ss = mk_take(kv, "sidesite", ""); mjs_wrapGeom(mjs_asTendon(e), g.c_str(), ss.c_str()); }
    else mjs_wrapPulley(mjs_asTendon(e), mk_nums(mk_take(kv, "divisor", "1")).at(0));
    if (!kv.empty()) mk_die("unknown key for " + kind);
    return true;
  }
  if (kind == "comment") { std::string t = mk_take(kv, "text"); mjs_setString(s->comment, t.c_str()); return true; }
  return false;
}

static mjSpec* rt_spec(const std::vector<std::string>& lines, size_t& i) {
  mkx_register_plugins();
  mjSpec* s = mj_makeSpec();
  rt_anon.clear();
  for (; i < lines.size(); i++) {
    if (lines[i] == "end") { i++; break; }
    if (rt_line(s, lines[i])) continue;
    if (mkx_line(s, lines[i])) continue;
    if (!mk_line(s, lines[i])) mk_die("unknown model line: " + lines[i]);
  }
  for (mjsElement* e : rt_anon) mjs_setName(e, "");
  rt_anon.clear();
  return s;
}

static void rt_replace_spec(int slot, mjSpec* s) {
  if (g_spec.count(slot)) { mj_deleteSpec(g_spec[slot]); g_spec.erase(slot); }
  if (s) g_spec[slot] = s;
}
static void rt_drop_model(int slot) {
  for (auto it = g_data_model.begin(); it != g_data_model.end();) {
    if (it->second == slot) { drv_free_data(it->first); it = g_data_model.erase(it); } else ++it;
  }
  drv_free_model(slot);
}

struct RtDiff { std::string field; size_t idx; double a, b; };
static bool rt_close(double a, double b, double tol) {
  if (a == b) return true;
  if (isnan(a) && isnan(b)) return true;
  if (tol <= 0) return false;
  return fabs(a - b) <= tol * (1 + fabs(a) + fabs(b));
}
// compare every compiled array, size, and the option / visual / statistic structs
static bool rt_nostat = false, rt_quatsign = false;
static std::vector<RtDiff> rt_compare(mjModel* a, mjModel* b, double tol, size_t maxdiff) {
  std::vector<RtDiff> out;
#define X(name) if ((long long)a->name != (long long)b->name && out.size() < maxdiff) out.push_back({#name, 0, (double)a->name, (double)b->name});
  MJMODEL_SIZES
#undef X
  if (!out.empty()) return out;          // arrays have different shapes: report the sizes only
  auto fa = drv_model_fields(a), fb = drv_model_fields(b);
  for (size_t k = 0; k < fa.size() && out.size() < maxdiff; k++) {
    const DrvFld& x = fa[k]; const DrvFld& y = fb[k];
    if (x.count != y.count) { out.push_back({std::string(x.name) + ":count", 0, (double)x.count, (double)y.count}); continue; }
    if (!x.count) continue;
    if (memcmp(x.ptr, y.ptr, x.count * x.elsize) == 0) continue;
    std::string t = x.type;
    // quaternion arrays: q and -q denote the same orientation
    if (rt_quatsign && t == "mjtNum" && strlen(x.name) > 4 && !strcmp(x.name + strlen(x.name) - 4, "quat") && x.count % 4 == 0) {
      for (size_t i = 0; i < x.count; i += 4) {
        const mjtNum* u = (const mjtNum*)x.ptr + i; const mjtNum* v = (const mjtNum*)y.ptr + i;
        bool same = true, neg = true;
        for (int k = 0; k < 4; k++) { if (!rt_close(u[k], v[k], tol)) same = false; if (!rt_close(u[k], -v[k], tol)) neg = false; }
        if (!same && !neg) { out.push_back({x.name, i, u[0], v[0]}); break; }
      }
      continue;
    }
    if (t == "mjtNum" || t == "float") {
      for (size_t i = 0; i < x.count; i++) {
        double u = drv_read(x, i), v = drv_read(y, i);
        bool same = t == "mjtNum" ? memcmp((mjtNum*)x.ptr + i, (mjtNum*)y.ptr + i, sizeof(mjtNum)) == 0
                                  : memcmp((float*)x.ptr + i, (float*)y.ptr + i, sizeof(float)) == 0;
        // float arrays: when a tolerance is allowed at all, it is not finer than single precision
        if (!same && !rt_close(u, v, (t == "float" && tol > 0 && tol < 1e-6) ? 1e-6 : tol)) { out.push_back({x.name, i, u, v}); break; }
      }
    } else {
      for (size_t i = 0; i < x.count * x.elsize; i++) {
        if (((unsigned char*)x.ptr)[i] != ((unsigned char*)y.ptr)[i]) {
          size_t e = i / x.elsize;
          double u = 0, v = 0;
          if (t == "int" || t == "mjtByte" || t == "mjtBool" || t == "char" || t == "mjtSize") { u = drv_read(x, e); v = drv_read(y, e); }
          out.push_back({x.name, e, u, v}); break;
        }
      }
    }
  }
  // option
#define X(type, name, dim) if (out.size() < maxdiff && !rt_close((double)a->opt.name, (double)b->opt.name, tol)) out.push_back({"opt." #name, 0, (double)a->opt.name, (double)b->opt.name});
#define XVEC(type, name, dim) for (int i = 0; i < dim; i++) if (out.size() < maxdiff && !rt_close((double)a->opt.name[i], (double)b->opt.name[i], tol)) { out.push_back({"opt." #name, (size_t)i, (double)a->opt.name[i], (double)b->opt.name[i]}); break; }
  MJOPTION_FIELDS
#undef X
#undef XVEC
  // visual: floats and ints only, no padding
  {
    static_assert(sizeof(mjVisual) % 4 == 0, "mjVisual layout");
    const unsigned char* p = (const unsigned char*)&a->vis; const unsigned char* q = (const unsigned char*)&b->vis;
    for (size_t i = 0; i < sizeof(mjVisual) && out.size() < maxdiff; i += 4) {
      if (memcmp(p + i, q + i, 4)) {
        float u, v; memcpy(&u, p + i, 4); memcpy(&v, q + i, 4);
        int iu, iv; memcpy(&iu, p + i, 4); memcpy(&iv, q + i, 4);
        // ints and floats live in the same struct: tolerance only when both look like ordinary floats
        bool floaty = fabs(u) > 1e-30f && fabs(u) < 1e30f && fabs(v) > 1e-30f && fabs(v) < 1e30f;
        if (floaty && rt_close(u, v, tol)) continue;
        out.push_back({"vis+" + std::to_string(i), 0, floaty ? u : iu, floaty ? v : iv}); break;
      }
    }
  }
  // statistic
  if (!rt_nostat) {
    const mjtNum* p = (const mjtNum*)&a->stat; const mjtNum* q = (const mjtNum*)&b->stat;
    for (size_t i = 0; i < sizeof(mjStatistic) / sizeof(mjtNum) && out.size() < maxdiff; i++)
      if (memcmp(p + i, q + i, sizeof(mjtNum)) && !rt_close(p[i], q[i], tol)) { out.push_back({"stat+" + std::to_string(i), 0, p[i], q[i]}); break; }
  }
  return out;
}

static bool rt_extra(const std::vector<std::string>& t, const std::vector<std::string>& lines, size_t& i) {
  const std::string& op = t[0];
  // queries on a model slot that was never filled (a failed round trip) answer "nomodel" instead of stopping the run
  {
    static const char* one[] = {"traj", "trajx", "names", "fld", "mget", "mbytes", "mscalar", nullptr};
    static const char* two[] = {"mcmp", "mdiff", nullptr};
    for (const char** q = one; *q; q++) if (op == *q && t.size() > 1 && !g_model.count(atoi(t[1].c_str()))) { printf("nomodel\n"); return true; }
    for (const char** q = two; *q; q++) if (op == *q && t.size() > 2 && (!g_model.count(atoi(t[1].c_str())) || !g_model.count(atoi(t[2].c_str())))) { printf("nomodel\n"); return true; }
    if (op == "data" && t.size() > 2 && !g_model.count(atoi(t[2].c_str()))) { printf("nomodel\n"); return true; }
    if ((op == "dfld" || op == "forward" || op == "setConst") && t.size() > 1 && !g_data.count(atoi(t[1].c_str())) && op != "setConst") { printf("nodata\n"); return true; }
  }
  if (mkx_op(t, lines, i)) return true;
  if (op == "rtspec" || op == "rtmodel") {
    int slot = atoi(t.at(1).c_str()); size_t j = i + 1;
    mjSpec* s = rt_spec(lines, j); i = j - 1;
    rt_replace_spec(slot, s);
    if (op == "rtspec") { printf("ok\n"); return true; }
    rt_drop_model(slot);
    mjModel* m = nullptr;
    if (HX_TRY) { m = mj_compile(s, nullptr); HX_END; } else { drv_err(hx_err); return true; }
    if (!m) { drv_err(mjs_getError(s)); return true; }
    g_model[slot] = m; printf("ok\n"); return true;
  }
  if (op == "precision") { mujoco::_mjPRIVATE__set_xml_precision(atoi(t.at(1).c_str())); printf("ok\n"); return true; }
  if (op == "savexml") {
    mjSpec* s = g_spec.at(atoi(t.at(1).c_str()));
    char err[1000] = ""; int r = -2;
    std::vector<char> buf(1 << 16);
    if (HX_TRY) {
      r = mj_saveXMLString(s, buf.data(), (int)buf.size(), err, sizeof err);
      if (r > 0) { buf.resize((size_t)r + 16); err[0] = 0; r = mj_saveXMLString(s, buf.data(), (int)buf.size(), err, sizeof err); }
      HX_END;
    } else { drv_err(hx_err); return true; }
    if (r != 0) { drv_err(err[0] ? err : "mj_saveXMLString failed"); return true; }
    printf("%s\n", tohex(buf.data(), strlen(buf.data())).c_str()); return true;
  }
  if (op == "savefile") {
    mjSpec* s = g_spec.at(atoi(t.at(1).c_str())); std::string path = unhex(t.at(2));
    char err[1000] = ""; int r = -2;
    if (HX_TRY) { r = mj_saveXML(s, path.c_str(), err, sizeof err); HX_END; } else { drv_err(hx_err); return true; }
    if (r != 0) { drv_err(err[0] ? err : "mj_saveXML failed"); return true; }
    printf("ok\n"); return true;
  }
  if (op == "parsexml" || op == "parsefile") {
    int slot = atoi(t.at(1).c_str()); std::string arg = unhex(t.at(2));
    char err[1000] = ""; mjSpec* s = nullptr;
    mkx_register_plugins();
    if (HX_TRY) {
      s = op == "parsexml" ? mj_parseXMLString(arg.c_str(), nullptr, err, sizeof err) : mj_parseXML(arg.c_str(), nullptr, err, sizeof err);
      HX_END;
    } else { drv_err(hx_err); return true; }
    if (!s) { drv_err(err[0] ? err : "parse failed"); return true; }
    rt_replace_spec(slot, s); printf("ok\n"); return true;
  }
  if (op == "rt" || op == "rtfile") {   // rt <s> <d> | rtfile <s> <d> <hexpath>: save spec s, read it back into spec d, compile model d
    mjSpec* src = g_spec.at(atoi(t.at(1).c_str())); int dst = atoi(t.at(2).c_str());
    char err[1000] = ""; mjSpec* ns = nullptr; mjModel* m = nullptr; const char* stage = "save";
    mkx_register_plugins();
    if (HX_TRY) {
      if (op == "rt") {
        std::vector<char> buf(1 << 16);
        int r = mj_saveXMLString(src, buf.data(), (int)buf.size(), err, sizeof err);
        if (r > 0) { buf.resize((size_t)r + 16); err[0] = 0; r = mj_saveXMLString(src, buf.data(), (int)buf.size(), err, sizeof err); }
        if (r != 0) { HX_END; drv_err((std::string("save: ") + err).c_str()); return true; }
        stage = "parse";
        ns = mj_parseXMLString(buf.data(), nullptr, err, sizeof err);
      } else {
        std::string path = unhex(t.at(3));
        if (mj_saveXML(src, path.c_str(), err, sizeof err) != 0) { HX_END; drv_err((std::string("save: ") + err).c_str()); return true; }
        stage = "parse";
        ns = mj_parseXML(path.c_str(), nullptr, err, sizeof err);
      }
      if (!ns) { HX_END; drv_err((std::string("parse: ") + err).c_str()); return true; }
      stage = "compile";
      m = mj_compile(ns, nullptr);
      HX_END;
    } else { drv_err((std::string(stage) + ": " + hx_err).c_str()); if (ns) mj_deleteSpec(ns); return true; }
    if (!m) { std::string e = std::string("compile: ") + mjs_getError(ns); mj_deleteSpec(ns); drv_err(e.c_str()); return true; }
    rt_replace_spec(dst, ns); rt_drop_model(dst); g_model[dst] = m; printf("ok\n"); return true;
  }
  if (op == "names") {     // names <m> <objtype>: "n name:owner ..." in id order (owner: body of a leaf, parent of a body)
    mjModel* m = M(atoi(t.at(1).c_str())); int type = atoi(t.at(2).c_str());
    int n = 0; const int* owner = nullptr;
    switch (type) {
      case mjOBJ_BODY: n = m->nbody; owner = m->body_parentid; break;
      case mjOBJ_JOINT: n = m->njnt; owner = m->jnt_bodyid; break;
      case mjOBJ_GEOM: n = m->ngeom; owner = m->geom_bodyid; break;
      case mjOBJ_SITE: n = m->nsite; owner = m->site_bodyid; break;
      case mjOBJ_CAMERA: n = m->ncam; owner = m->cam_bodyid; break;
      case mjOBJ_LIGHT: n = m->nlight; owner = m->light_bodyid; break;
      case mjOBJ_KEY: n = m->nkey; break;
      case mjOBJ_PAIR: n = m->npair; break;
      case mjOBJ_EQUALITY: n = m->neq; break;
      case mjOBJ_TENDON: n = m->ntendon; break;
      case mjOBJ_ACTUATOR: n = m->nu; break;
      default: mk_die("names: unsupported type");
    }
    printf("%d", n);
    for (int i = 0; i < n; i++) {
      const char* nm = mj_id2name(m, type, i);
      printf(" %s", nm && *nm ? nm : "-");
      if (owner) { const char* o = mj_id2name(m, mjOBJ_BODY, owner[i]); printf(":%s", o && *o ? o : "-"); }
    }
    printf("\n"); return true;
  }
  if (op == "msetn") {    // msetn <m> <objtype> <hexname> <field> <perelem> <offset> <value>: write one model array entry by element name
    mjModel* m = M(atoi(t.at(1).c_str())); int id = mj_name2id(m, atoi(t.at(2).c_str()), unhex(t.at(3)).c_str());
    if (id < 0) { printf("noid\n"); return true; }
    DrvFld f; auto fs = drv_model_fields(m);
    if (!drv_find(fs, t.at(4), f)) mk_die("unknown model field " + t.at(4));
    drv_write(f, (size_t)id * (size_t)atoi(t.at(5).c_str()) + (size_t)atoi(t.at(6).c_str()), drv_num(t.at(7)));
    printf("ok\n"); return true;
  }
  if (op == "dfld") {     // dfld <d> <objtype> <hexname> <field> <n>: n numbers of a data array at the element's id
    int ds = atoi(t.at(1).c_str()); mjModel* m = MD(ds); mjData* d = D(ds);
    int id = mj_name2id(m, atoi(t.at(2).c_str()), unhex(t.at(3)).c_str());
    if (id < 0) { printf("noid\n"); return true; }
    DrvFld f; auto fs = drv_data_fields(m, d);
    if (!drv_find(fs, t.at(4), f)) mk_die("unknown data field " + t.at(4));
    int n = atoi(t.at(5).c_str());
    for (int k = 0; k < n; k++) { if (k) printf(" "); drv_print_num(drv_read(f, (size_t)id * n + k)); }
    printf("\n"); return true;
  }
  if (op == "trajx") {    // trajx <m> <nstep> <type:hexname> ...: step n times, print xpos / geom_xpos of the named elements
    mjModel* m = M(atoi(t.at(1).c_str())); int n = atoi(t.at(2).c_str());
    mjData* d = nullptr; std::string out;
    if (HX_TRY) {
      d = mj_makeData(m);
      for (int q = 0; q < m->nv; q++) d->qvel[q] = 0.25 * (q + 1);
      for (int k = 0; k < n; k++) mj_step(m, d);
      HX_END;
    } else { if (d) mj_deleteData(d); drv_err(hx_err); return true; }
    for (size_t a = 3; a < t.size(); a++) {
      size_t c = t[a].find(':'); int type = atoi(t[a].substr(0, c).c_str());
      int id = mj_name2id(m, type, unhex(t[a].substr(c + 1)).c_str());
      const mjtNum* p = id < 0 ? nullptr : type == mjOBJ_BODY ? d->xpos + 3 * id : type == mjOBJ_GEOM ? d->geom_xpos + 3 * id : nullptr;
      for (int k = 0; k < 3; k++) { printf(a > 3 || k ? " " : ""); if (p) drv_print_num(p[k]); else printf("nan"); }
    }
    if (t.size() <= 3) printf("-");
    printf("\n"); mj_deleteData(d); return true;
  }
  if (op == "setdir") {
    mjSpec* s = g_spec.at(atoi(t.at(1).c_str())); std::string dir = unhex(t.at(2));
    mjs_setString(s->modelfiledir, dir.c_str()); printf("ok\n"); return true;
  }
  if (op == "fld") {      // fld <m> <objtype> <hexname> <field> <perelem> <offset> [via]: model array entry of a named element
    mjModel* m = M(atoi(t.at(1).c_str())); int type = atoi(t.at(2).c_str()); std::string nm = unhex(t.at(3));
    int id = mj_name2id(m, type, nm.c_str());
    if (id < 0) { printf("noid\n"); return true; }
    if (t.size() > 7) {   // indirection through an address array, e.g. jnt_dofadr
      DrvFld v; auto fs = drv_model_fields(m);
      if (!drv_find(fs, t[7], v)) mk_die("unknown model field " + t[7]);
      id = (int)drv_read(v, (size_t)id);
      if (id < 0) { printf("noid\n"); return true; }
    }
    DrvFld f; auto fs = drv_model_fields(m);
    if (!drv_find(fs, t.at(4), f)) mk_die("unknown model field " + t.at(4));
    size_t k = (size_t)id * (size_t)atoi(t.at(5).c_str()) + (size_t)atoi(t.at(6).c_str());
    if (k >= f.count) { printf("range\n"); return true; }
    drv_print_num(drv_read(f, k)); printf("\n"); return true;
  }
  if (op == "loadxml") {
    int slot = atoi(t.at(1).c_str()); std::string path = unhex(t.at(2));
    char err[1000] = ""; mjModel* m = nullptr;
    mkx_register_plugins();
    if (HX_TRY) { m = mj_loadXML(path.c_str(), nullptr, err, sizeof err); HX_END; } else { drv_err(hx_err); return true; }
    if (!m) { drv_err(err[0] ? err : "load failed"); return true; }
    rt_drop_model(slot); g_model[slot] = m; printf("ok\n"); return true;
  }
  if (op == "mcmp" || op == "mdiff") {
    mjModel* a = M(atoi(t.at(1).c_str())); mjModel* b = M(atoi(t.at(2).c_str()));
    double tol = t.size() > 3 ? drv_num(t[3]) : 0;
    rt_nostat = t.size() > 4 && t[4].find("nostat") != std::string::npos;
    rt_quatsign = t.size() > 4 && t[4].find("quatsign") != std::string::npos;
    auto d = rt_compare(a, b, tol, op == "mcmp" ? 1 : 12);
    rt_nostat = rt_quatsign = false;
    if (d.empty()) { printf("eq\n"); return true; }
    printf("ne");
    for (auto& x : d) { printf(" %s %zu ", x.field.c_str(), x.idx); drv_print_num(x.a); printf(" "); drv_print_num(x.b); }
    printf("\n"); return true;
  }
  if (op == "mbytes") {
    mjModel* m = M(atoi(t.at(1).c_str()));
    mjtSize n = mj_sizeModel(m); std::vector<unsigned char> buf((size_t)n);
    mj_saveModel(m, nullptr, buf.data(), (int)n);
    printf("%016llx\n", (unsigned long long)drv_fnv(0xcbf29ce484222325ULL, buf.data(), buf.size())); return true;
  }
  if (op == "traj") {
    mjModel* m = M(atoi(t.at(1).c_str())); int n = atoi(t.at(2).c_str());
    mjData* d = nullptr; std::string out;
    if (HX_TRY) {
      d = mj_makeData(m);
      if (t.size() > 3) { auto k = drv_nums(unhex(t[3])); for (size_t q = 0; q < k.size() && (int)q < m->nv; q++) d->qvel[q] = k[q]; }
      for (int q = 0; q < m->nu; q++) d->ctrl[q] = 0.25 * (q + 1);
      for (int k = 0; k < n; k++) mj_step(m, d);
      out = tohex(d->qpos, sizeof(mjtNum) * m->nq) + "|" + tohex(d->qvel, sizeof(mjtNum) * m->nv) + "|" +
            tohex(d->act, sizeof(mjtNum) * m->na) + "|" + tohex(d->sensordata, sizeof(mjtNum) * m->nsensordata) + "|" + tohex(&d->time, sizeof(mjtNum));
      HX_END;
    } else { if (d) mj_deleteData(d); drv_err(hx_err); return true; }
    mj_deleteData(d);
    printf("%s\n", out.c_str()); return true;
  }
  if (op == "nwarn") {
    std::string w = hx_nwarn ? hx_warn : "-"; for (auto& c : w) if (c == '\n' || c == '\r') c = '|';
    printf("%d %s\n", hx_nwarn, w.c_str()); hx_nwarn = 0; return true;
  }
  return false;
}

int main() { return drv_main(rt_extra); }
