// /verif harness for C31 (tla/MjbFile.tla, checks/c31.py): binary model files.
// The MJB image of a pool model is kept in memory; every load works on a private heap copy of EXACTLY the
// requested length (so the asan build sees any read past the end of the file) after applying byte patches.
//
// ops (in addition to mjdrv_common.h; one output line each):
//   mjbsave <m>                      -> "<bytes written> <mj_sizeModel>"          (image kept for slot m)
//   mjblayout <m>                    -> JSON {"hdr":20,"sizes":[[name,value]..],"structs":n,
//                                             "arrays":[[name,elsize,nrname,cc,cvname,bytes]..]}   cols = cc * (size cvname | 1)
//   mjbload <m> <len|-> <patches|-> [x]   load image[0..len) (len may exceed the image: zero padded junk 0xA5)
//                                    patches = off:hexbytes,... | h<off>:<delta> (add delta to a 32-bit word)
//                                    -> "null w=<nwarn> <hex last warning>" | "error <msg>" |
//                                       "ok w=<nwarn> refs=<ok|bad:array>"   and with x (exercise an accepted
//                                       model: mj_makeData, mj_forward, 2 x mj_step, mj_deleteData):
//                                       "ok w=.. refs=.. ex=<ok|nodata|error:msg>"
//   mjbbatch <n>                     the next n lines are mjbload commands, run in a forked worker; a command at which
//                                    the worker dies (signal, sanitizer report, watchdog after 8 s of CPU time) is answered
//                                    "crash <load|exercise|setup> <what>" and a fresh worker continues after it
//   mjbroundtrip <m>                 -> "eq" | "ne <what>"      load(save(m)) compared with m over every size,
//                                       mjOption/mjVisual/mjStatistic and every array of MJMODEL_POINTERS
//   mjbfile <m> <hexpath>            -> save to a file via mj_saveModel(filename), reload through mju_openResource+mj_loadModelBuffer,
//                                       compare as above -> "eq <filesize>" | "ne <what>"
#include <signal.h>
#include <stdint.h>
#include <sys/mman.h>
#include <sys/time.h>
#include <sys/wait.h>
#include "mjdrv_common.h"
#include "mkmodel_ext.h"      // xmodel op: hfield / tuple / skin element kinds
extern "C" const char* mj_validateReferences(const mjModel* m);

static std::map<int, std::vector<unsigned char>> g_img;
// watchdog: a load or an exercise that does not come back within the limit ends the process with a HANG line
static const char* g_stage = "-";
struct MjbShared { volatile int cur; volatile int stage; };
static MjbShared* g_sh = nullptr;
static void mjb_on_alarm(int) { _exit(g_stage[0] == 'e' ? 72 : 71); }
// the limit is CPU time of the process (ITIMER_PROF), so a loaded machine cannot fake a hang
static void mjb_limit(int seconds) {
  struct itimerval it; memset(&it, 0, sizeof it); it.it_value.tv_sec = seconds;
  signal(SIGPROF, mjb_on_alarm); setitimer(ITIMER_PROF, &it, nullptr);
}

struct ArrInfo { const char* name; size_t elsize; const char* nr; long long nc; size_t bytes; const void* ptr; };
static std::vector<ArrInfo> mjb_arrays(const mjModel* m) {
  std::vector<ArrInfo> v;
  MJMODEL_POINTERS_PREAMBLE(m)
#define X(type, name, nr, nc) v.push_back({#name, sizeof(type), #nr, (long long)(nc), sizeof(type) * (size_t)(m->nr) * (size_t)(nc), (const void*)m->name});
#define XNV X
  MJMODEL_POINTERS
#undef X
#undef XNV
  return v;
}
// column count of every array as  cc * (one of the sizes of MJMODEL_POINTERS_PREAMBLE | 1): evaluated with the
// preamble symbols set to 1 (-> cc) and with one of them set to 2 (doubles the count iff the array depends on it)
static const char* MJB_PRE[13] = {"nuser_body", "nuser_jnt", "nuser_geom", "nuser_site", "nuser_cam", "nuser_tendon",
                                  "nuser_actuator", "nuser_sensor", "nq", "nv", "na", "nu", "nmocap"};
static std::vector<long long> mjb_nc(int which) {
  int v[13]; for (int k = 0; k < 13; k++) v[k] = (k == which) ? 2 : 1;
  int nuser_body = v[0], nuser_jnt = v[1], nuser_geom = v[2], nuser_site = v[3], nuser_cam = v[4], nuser_tendon = v[5],
      nuser_actuator = v[6], nuser_sensor = v[7], nq = v[8], nv = v[9], na = v[10], nu = v[11], nmocap = v[12];
  (void)nuser_body; (void)nuser_jnt; (void)nuser_geom; (void)nuser_site; (void)nuser_cam; (void)nuser_tendon;
  (void)nuser_actuator; (void)nuser_sensor; (void)nq; (void)nv; (void)na; (void)nu; (void)nmocap;
  std::vector<long long> out;
#define X(type, name, nr, nc) out.push_back((long long)(nc));
#define XNV X
  MJMODEL_POINTERS
#undef X
#undef XNV
  return out;
}
static std::string mjb_cmp(const mjModel* a, const mjModel* b) {
#define X(name) if (a->name != b->name) return std::string("size ") + #name;
  MJMODEL_SIZES
#undef X
  if (memcmp(&a->opt, &b->opt, sizeof(mjOption))) return "opt";
  if (memcmp(&a->vis, &b->vis, sizeof(mjVisual))) return "vis";
  if (memcmp(&a->stat, &b->stat, sizeof(mjStatistic))) return "stat";
  if (a->flg_gravcomp != b->flg_gravcomp) return "flg_gravcomp";
  if (a->flg_surfacevel != b->flg_surfacevel) return "flg_surfacevel";
  auto x = mjb_arrays(a), y = mjb_arrays(b);
  for (size_t i = 0; i < x.size(); i++) {
    if (x[i].bytes != y[i].bytes) return std::string("len ") + x[i].name;
    if (x[i].bytes && memcmp(x[i].ptr, y[i].ptr, x[i].bytes)) return std::string("array ") + x[i].name;
  }
  return "";
}
// mj_loadModel lives in src/xml/xml_api.cc (not part of the offline build): same three calls
static mjModel* mjb_loadModel(const char* filename) {
  char error[1024] = "";
  mjResource* r = mju_openResource("", filename, nullptr, error, sizeof error);
  if (!r) { mju_warning("%s", error); return nullptr; }
  const void* buffer = nullptr;
  int n = mju_readResource(r, &buffer);
  if (n < 1) { mju_closeResource(r); return nullptr; }
  mjModel* m = mj_loadModelBuffer(buffer, n);
  mju_closeResource(r);
  return m;
}
static std::string onel(const char* s) { std::string m = s ? s : ""; for (auto& c : m) if (c == '\n' || c == '\r') c = '|'; return m; }

#define MJB_LIMIT 8
static void mjb_do_load(const std::vector<std::string>& t) {
    int ms = atoi(t.at(1).c_str());
    auto it = g_img.find(ms); if (it == g_img.end()) mk_die("no image for slot");
    const std::vector<unsigned char>& img = it->second;
    size_t len = t.at(2) == "-" ? img.size() : (size_t)strtoull(t.at(2).c_str(), 0, 10);
    bool ex = t.size() > 4 && t[4] == "x";
    // patched copy of the full image (extended with junk if len > image)
    std::vector<unsigned char> full(img);
    if (len > full.size()) full.resize(len, 0xA5);
    if (t.size() > 3 && t[3] != "-") {
      for (auto& p : drv_csv(t[3])) {
        size_t c = p.find(':'); if (c == std::string::npos) mk_die("bad patch " + p);
        if (p[0] == 'h') {            // h<off>:<delta>  add delta to the 32-bit word at off
          size_t off = (size_t)strtoull(p.substr(1, c - 1).c_str(), 0, 10); int w; if (off + 4 > full.size()) mk_die("patch outside image");
          memcpy(&w, full.data() + off, 4); w += atoi(p.substr(c + 1).c_str()); memcpy(full.data() + off, &w, 4); continue;
        }
        size_t off = (size_t)strtoull(p.substr(0, c).c_str(), 0, 10); std::string by = unhex(p.substr(c + 1));
        if (off + by.size() > full.size()) mk_die("patch outside image");
        memcpy(full.data() + off, by.data(), by.size());
      }
    }
    unsigned char* buf = (unsigned char*)malloc(len ? len : 1);   // exact-size heap block: asan sees over-reads
    if (len) memcpy(buf, full.data(), len);
    hx_nwarn = 0; hx_warn[0] = 0;
    mjModel* volatile m = nullptr;
    g_stage = "load"; if (g_sh) g_sh->stage = 1; mjb_limit(MJB_LIMIT);
    if (HX_TRY) { m = mj_loadModelBuffer(buf, (int)len); HX_END; }
    else { mjb_limit(0); free(buf); printf("error %s\n", onel(hx_err).c_str()); return; }
    mjb_limit(0);
    free(buf);
    if (!m) { printf("null w=%d %s\n", hx_nwarn, tohex(hx_warn, strlen(hx_warn)).c_str()); return; }
    int w = hx_nwarn;
    std::string refs = "ok";
    std::string exs;
    if (ex) {
      mjData* volatile d = nullptr;
      g_stage = "exercise"; if (g_sh) g_sh->stage = 2; mjb_limit(MJB_LIMIT);
      if (HX_TRY) {
        d = mj_makeData(m);
        if (!d) exs = "nodata";
        else { mj_forward(m, d); mj_step(m, d); mj_step(m, d); mj_deleteData(d); d = nullptr; exs = "ok"; }
        HX_END;
      } else { exs = "error:" + tohex(hx_err, strlen(hx_err)); }
      mjb_limit(0);
    }
    mj_deleteModel(m);
    if (ex) printf("ok w=%d refs=%s ex=%s\n", w, refs.c_str(), exs.c_str());
    else printf("ok w=%d refs=%s\n", w, refs.c_str());
    return;
  }

static bool mjb_extra(const std::vector<std::string>& t, const std::vector<std::string>& lines, size_t& i) {
  const std::string& op = t[0];
  if (mkx_op(t, lines, i)) return true;
  if (op == "mjbsave") {
    int ms = atoi(t.at(1).c_str()); mjModel* m = M(ms);
    mjtSize sz = mj_sizeModel(m);
    std::vector<unsigned char> b((size_t)sz + 64, 0xEE);
    if (HX_TRY) { mj_saveModel(m, nullptr, b.data(), (int)sz); HX_END; } else { drv_err(hx_err); return true; }
    // written length = position of the guard pattern
    size_t w = b.size(); while (w > 0 && b[w - 1] == 0xEE) w--;
    if (w < (size_t)sz) w = (size_t)sz;     // trailing 0xEE bytes that belong to the image cannot be told apart
    b.resize((size_t)sz); g_img[ms] = b;
    printf("%zu %lld\n", w, (long long)sz); return true;
  }
  if (op == "mjblayout") {
    int ms = atoi(t.at(1).c_str()); mjModel* m = M(ms);
    std::string o = "{\"hdr\":20,\"sizes\":[";
    bool first = true;
#define X(name) { char b[128]; snprintf(b, sizeof b, "%s[\"%s\",%lld]", first ? "" : ",", #name, (long long)m->name); o += b; first = false; }
    MJMODEL_SIZES
#undef X
    char b[256]; snprintf(b, sizeof b, "],\"structs\":%zu,\"arrays\":[", sizeof(mjOption) + sizeof(mjVisual) + sizeof(mjStatistic) + 2 * sizeof(mjtBool)); o += b;
    auto a = mjb_arrays(m);
    auto c1 = mjb_nc(-1);
    std::vector<std::vector<long long>> c2; for (int q = 0; q < 13; q++) c2.push_back(mjb_nc(q));
    for (size_t k = 0; k < a.size(); k++) {
      const char* cv = ""; int ndep = 0;
      for (int q = 0; q < 13; q++) if (c2[q][k] != c1[k]) { cv = MJB_PRE[q]; ndep++; if (c2[q][k] != 2 * c1[k]) ndep = 99; }
      if (ndep > 1) mk_die(std::string("column count of ") + a[k].name + " is not cc * one size");
      snprintf(b, sizeof b, "%s[\"%s\",%zu,\"%s\",%lld,\"%s\",%zu]", k ? "," : "", a[k].name, a[k].elsize, a[k].nr, c1[k], cv, a[k].bytes); o += b;
    }
    o += "]}"; printf("%s\n", o.c_str()); return true;
  }
  if (op == "mjbload") { mjb_do_load(t); return true; }        // in process (debugging); batches use mjbbatch
  if (op == "mjbbatch") {
    // the next n lines are mjbload commands.  They run in a forked worker; when the worker dies (signal, sanitizer
    // report, watchdog) the command it was at gets a "crash <stage> <what>" line and a new worker continues
    // with the next one: a crash costs one fork, not the batch.
    int n = atoi(t.at(1).c_str());
    std::vector<std::vector<std::string>> cmds;
    for (int k = 1; k <= n; k++) { if (i + k >= lines.size()) mk_die("mjbbatch: missing lines"); cmds.push_back(split(lines[i + k])); }
    i += n;
    if (!g_sh) g_sh = (MjbShared*)mmap(nullptr, sizeof(MjbShared), PROT_READ | PROT_WRITE, MAP_SHARED | MAP_ANONYMOUS, -1, 0);
    if (g_sh == MAP_FAILED) mk_die("mmap");
    int next = 0;
    while (next < n) {
      fflush(stdout);
      int pfd[2]; if (pipe(pfd)) mk_die("pipe");
      g_sh->cur = next; g_sh->stage = 0;
      pid_t pid = fork();
      if (pid < 0) mk_die("fork");
      if (pid == 0) {
        close(pfd[0]); dup2(pfd[1], 2); close(pfd[1]);
        for (int k = next; k < n; k++) { g_sh->cur = k; g_sh->stage = 0; mjb_do_load(cmds[k]); fflush(stdout); }
        _exit(0);
      }
      close(pfd[1]);
      std::string err; char buf[4096]; ssize_t r;
      while ((r = read(pfd[0], buf, sizeof buf)) > 0) { err.append(buf, (size_t)r); if (err.size() > (1u << 18)) err.erase(0, err.size() - (1u << 17)); }
      close(pfd[0]);
      int st = 0; waitpid(pid, &st, 0);
      if (WIFEXITED(st) && WEXITSTATUS(st) == 0) break;
      std::string why;
      if (WIFSIGNALED(st)) why = std::string("signal ") + strsignal(WTERMSIG(st));
      else if (WEXITSTATUS(st) == 71 || WEXITSTATUS(st) == 72) why = "hang (watchdog)";
      else {
        why = "exit " + std::to_string(WEXITSTATUS(st));
        size_t q = err.rfind("SUMMARY:"); if (q == std::string::npos) q = err.rfind("runtime error:");
        if (q != std::string::npos) { size_t e = err.find('\n', q); why += " " + err.substr(q, (e == std::string::npos ? err.size() : e) - q); }
      }
      for (auto& ch : why) if (ch == '\n' || ch == '\r') ch = ' ';
      printf("crash %s %s\n", g_sh->stage == 2 ? "exercise" : g_sh->stage == 1 ? "load" : "setup", why.c_str());
      next = g_sh->cur + 1;
    }
    return true;
  }
  if (op == "mjbroundtrip") {
    int ms = atoi(t.at(1).c_str()); mjModel* m = M(ms);
    mjtSize sz = mj_sizeModel(m);
    unsigned char* buf = (unsigned char*)malloc((size_t)sz);
    mjModel* volatile m2 = nullptr;
    if (HX_TRY) { mj_saveModel(m, nullptr, buf, (int)sz); m2 = mj_loadModelBuffer(buf, (int)sz); HX_END; }
    else { free(buf); drv_err(hx_err); return true; }
    free(buf);
    if (!m2) { printf("ne load-returned-null %s\n", onel(hx_warn).c_str()); return true; }
    std::string c = mjb_cmp(m, m2);
    // second generation: save(load(save(m))) must be the same bytes
    if (c.empty()) {
      std::vector<unsigned char> b1((size_t)sz), b2((size_t)sz);
      mj_saveModel(m, nullptr, b1.data(), (int)sz); mj_saveModel(m2, nullptr, b2.data(), (int)sz);
      if (mj_sizeModel(m2) != sz) c = "sizeModel"; else if (b1 != b2) c = "image";
    }
    mj_deleteModel(m2);
    if (c.empty()) printf("eq\n"); else printf("ne %s\n", c.c_str());
    return true;
  }
  if (op == "mjbfile") {
    int ms = atoi(t.at(1).c_str()); mjModel* m = M(ms); std::string path = unhex(t.at(2));
    mjModel* volatile m2 = nullptr;
    if (HX_TRY) { mj_saveModel(m, path.c_str(), nullptr, 0); m2 = mjb_loadModel(path.c_str()); HX_END; }
    else { drv_err(hx_err); return true; }
    if (!m2) { printf("ne load-returned-null %s\n", onel(hx_warn).c_str()); return true; }
    std::string c = mjb_cmp(m, m2);
    mj_deleteModel(m2);
    FILE* f = fopen(path.c_str(), "rb"); long fs = -1; if (f) { fseek(f, 0, SEEK_END); fs = ftell(f); fclose(f); }
    if (c.empty() && fs != (long)mj_sizeModel(m)) c = "filesize";
    if (c.empty()) printf("eq %ld\n", fs); else printf("ne %s\n", c.c_str());
    return true;
  }
  return false;
}
int main() { return drv_main(mjb_extra); }
