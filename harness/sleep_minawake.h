// /verif harness (C18): force-included (-include) when src/engine/engine_sleep.c is compiled INTO the white-box
// driver with the compile-time constant mjMINAWAKE replaced by VERIF_MINAWAKE, so that the exhaustive state graph of
// tla/Sleep.tla for MINAWAKE = 1 can be replayed transition by transition into the unchanged source file.
#ifndef VERIF_SLEEP_MINAWAKE_H
#define VERIF_SLEEP_MINAWAKE_H
#include <mujoco/mjmodel.h>
#ifdef VERIF_MINAWAKE
#undef mjMINAWAKE
#define mjMINAWAKE VERIF_MINAWAKE
#endif
#endif
