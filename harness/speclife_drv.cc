// /verif harness for C33 (tla/SpecLifecycle.tla, checks/c33.py): life cycle of mjSpec / mjModel / mjData through the
// public compiler API.  Slots and the generic ops (spec, compile, copymodel, data, recompile, get, set ...) come from
// mjdrv_common.h; added here:
//   sl_reset                      free every spec / model / data slot                       -> ok
//   sl_copyspec <s2> <s>          mj_copySpec                                               -> ok | error ..
//   sl_edit <s> <size|mesh|addchild|delact>   edit through the mjs_* API                    -> ok | error ..
//   sl_thread <s> <0|1>           compiler.usethread                                         -> ok
//   sl_bytes <m>                  mj_saveModel into a buffer                                 -> <nbytes> <fnv1a-64 of the bytes>
//   sl_bytesx <m> <m2>            first differing byte offset of the two saved images       -> same | <offset> | size <a> <b>
//   sl_setstate <d> <v>           time, qpos, qvel, act, ctrl, mocap_pos, mocap_quat := pairwise distinct numbers of version v
//   sl_state <d>                  state by ELEMENT NAME: time=.. <joint>.qpos=a,b <joint>.qvel=.. <joint>.qpos0=..
//                                 <act>.ctrl=.. <act>.act=.. <body>.mpos=.. <body>.mquat=..   (one line)
//   sl_other <d>                  non-state inputs mj_recompile does not promise to keep (informational)
//   sl_vfs <name> <hex bytes>     file served to the compiler from a VFS (compile / recompile below always pass that VFS)
//   sl_cache <off|on|clear>       global asset cache: capacity 0 / default capacity / mj_clearCache      -> ok
//   compile <m> <s>, recompile <s> <m> <d>     as in mjdrv_common.h but with the VFS
#include <string.h>
#include "mjdrv_common.h"

static uint64_t fnv64(const void* p, size_t n) { return drv_fnv(0xcbf29ce484222325ULL, p, n); }
static bool save_bytes(const mjModel* m, std::vector<unsigned char>& buf) {
  mjtSize sz = mj_sizeModel(m);
  buf.assign((size_t)sz, 0xA5);
  mj_saveModel(m, nullptr, buf.data(), sz);
  return true;
}
static void pvals(const char* el, const char* what, const mjtNum* p, int n) {
  printf(" %s.%s=", el, what);
  for (int k = 0; k < n; k++) { if (k) printf(","); drv_print_num(p[k]); }
}

static mjVFS g_vfs; static bool g_vfs_init = false;
static size_t g_cache_cap = 0; static bool g_cache_cap_known = false;
static mjVFS* vfs() { if (!g_vfs_init) { mj_defaultVFS(&g_vfs); g_vfs_init = true; } return &g_vfs; }
static void cache_set(const std::string& how) {
  mjCache* c = mj_getCache();
  if (!g_cache_cap_known) { g_cache_cap = mj_getCacheCapacity(c); g_cache_cap_known = true; }
  if (how == "off") mj_setCacheCapacity(c, 0);
  else if (how == "on") mj_setCacheCapacity(c, g_cache_cap);
  else if (how == "clear") mj_clearCache(c);
  else mk_die("sl_cache: off | on | clear");
}

static bool extra(const std::vector<std::string>& t, const std::vector<std::string>& lines, size_t& i) {
  const std::string& op = t[0];
  auto I = [&](size_t k) { if (k >= t.size()) mk_die("missing argument for " + op); return atoi(t[k].c_str()); };
  if (op == "sl_vfs") {
    std::string nm = t.at(1), b = unhex(t.at(2));
    mj_deleteFileVFS(vfs(), nm.c_str());
    int r = mj_addBufferVFS(vfs(), nm.c_str(), b.data(), (int)b.size());
    if (r) printf("error addBufferVFS %d\n", r); else printf("ok\n");
    return true;
  }
  if (op == "sl_cache") { cache_set(t.at(1)); printf("ok\n"); return true; }
  if (op == "compile") {
    int ms = I(1), ss = I(2); drv_free_model(ms); mjModel* m = nullptr;
    if (HX_TRY) { m = mj_compile(g_spec.at(ss), vfs()); HX_END; } else { drv_err(hx_err); return true; }
    if (!m) { drv_err(mjs_getError(g_spec.at(ss))); return true; }
    g_model[ms] = m; printf("ok\n"); return true;
  }
  if (op == "recompile") {
    int ss = I(1), ms = I(2), ds = I(3); int r = -99;
    if (HX_TRY) { r = mj_recompile(g_spec.at(ss), vfs(), M(ms), D(ds)); HX_END; } else { drv_err(hx_err); return true; }
    printf("%d\n", r); return true;
  }
  if (op == "sl_reset") {
    for (auto& kv : g_data) mj_deleteData(kv.second);
    g_data.clear(); g_data_model.clear();
    for (auto& kv : g_model) mj_deleteModel(kv.second);
    g_model.clear();
    for (auto& kv : g_spec) mj_deleteSpec(kv.second);
    g_spec.clear();
    cache_set("on"); cache_set("clear");      // every behaviour starts with an enabled, empty asset cache
    printf("ok\n"); return true;
  }
  if (op == "sl_copyspec") {
    int a = I(1), b = I(2); mjSpec* c = nullptr;
    if (HX_TRY) { c = mj_copySpec(g_spec.at(b)); HX_END; } else { drv_err(hx_err); return true; }
    if (!c) { drv_err(mjs_getError(g_spec.at(b))); return true; }
    if (g_spec.count(a)) mj_deleteSpec(g_spec[a]);
    g_spec[a] = c; printf("ok\n"); return true;
  }
  if (op == "sl_thread") { g_spec.at(I(1))->compiler.usethread = (mjtByte)I(2); printf("ok\n"); return true; }
  if (op == "sl_edit") {
    mjSpec* s = g_spec.at(I(1)); const std::string& k = t.at(2);
    if (HX_TRY) {
      if (k == "size") {
        mjsElement* e = mjs_findElement(s, mjOBJ_GEOM, "g1"); if (!e) mk_die("no geom g1");
        mjs_asGeom(e)->size[0] = 0.2;
      } else if (k == "mesh") {
        mjsElement* e = mjs_findElement(s, mjOBJ_MESH, "m1"); if (!e) mk_die("no mesh m1");
        mjs_asMesh(e)->scale[0] = -2; mjs_asMesh(e)->scale[2] = 0.5;   // mirrored from now on
      } else if (k == "addchild") {
        mjsBody* p = mjs_findBody(s, "b1"); if (!p) mk_die("no body b1");
        mjsBody* b = mjs_addBody(p, nullptr); mjs_setName(b->element, "bx"); b->pos[2] = 0.3;
        mjsJoint* j = mjs_addJoint(b, nullptr); mjs_setName(j->element, "jx"); j->type = mjJNT_HINGE; j->axis[0] = 1; j->axis[2] = 0;
        mjsGeom* g = mjs_addGeom(b, nullptr); mjs_setName(g->element, "gx"); g->type = mjGEOM_SPHERE; g->size[0] = 0.05;
        mjsActuator* a = mjs_addActuator(s, nullptr); mjs_setName(a->element, "ax");
        a->trntype = mjTRN_JOINT; mjs_setString(a->target, "jx"); a->dyntype = mjDYN_FILTER; a->dynprm[0] = 0.5;
      } else if (k == "delact") {
        mjsElement* e = mjs_firstElement(s, mjOBJ_ACTUATOR); if (!e) mk_die("no actuator");
        if (mjs_delete(s, e) != 0) { HX_END; drv_err(mjs_getError(s)); return true; }
      } else mk_die("unknown edit " + k);
      HX_END;
    } else { drv_err(hx_err); return true; }
    printf("ok\n"); return true;
  }
  if (op == "sl_bytes") {
    std::vector<unsigned char> b; save_bytes(M(I(1)), b);
    printf("%zu %016llx\n", b.size(), (unsigned long long)fnv64(b.data(), b.size())); return true;
  }
  if (op == "sl_bytesx") {
    std::vector<unsigned char> a, b; save_bytes(M(I(1)), a); save_bytes(M(I(2)), b);
    if (a.size() != b.size()) { printf("size %zu %zu\n", a.size(), b.size()); return true; }
    for (size_t k = 0; k < a.size(); k++) if (a[k] != b[k]) { printf("%zu\n", k); return true; }
    printf("same\n"); return true;
  }
  if (op == "sl_setstate") {
    int ds = I(1); mjModel* m = MD(ds); mjData* d = D(ds); double v = I(2);
    d->time = v;
    for (int k = 0; k < m->nq; k++) d->qpos[k] = v * 1000 + 100 + k;
    for (int k = 0; k < m->nv; k++) d->qvel[k] = v * 1000 + 300 + k;
    for (int k = 0; k < m->na; k++) d->act[k] = v * 1000 + 500 + k;
    for (int k = 0; k < m->nu; k++) d->ctrl[k] = v * 1000 + 700 + k;
    for (int k = 0; k < 3 * m->nmocap; k++) d->mocap_pos[k] = v * 1000 + 800 + k;
    for (int k = 0; k < 4 * m->nmocap; k++) d->mocap_quat[k] = v * 1000 + 900 + k;
    // inputs outside the documented state: recompile resets them (informational, see sl_other)
    for (int k = 0; k < m->nv; k++) { d->qfrc_applied[k] = 7; d->qacc_warmstart[k] = 9; }
    printf("ok\n"); return true;
  }
  if (op == "sl_state") {
    int ds = I(1); mjModel* m = MD(ds); mjData* d = D(ds);
    printf("time="); drv_print_num(d->time);
    for (int j = 0; j < m->njnt; j++) {
      const char* nm = mj_id2name(m, mjOBJ_JOINT, j); if (!nm) nm = "?";
      int nq = m->jnt_type[j] == mjJNT_FREE ? 7 : m->jnt_type[j] == mjJNT_BALL ? 4 : 1;
      int nv = m->jnt_type[j] == mjJNT_FREE ? 6 : m->jnt_type[j] == mjJNT_BALL ? 3 : 1;
      pvals(nm, "qpos", d->qpos + m->jnt_qposadr[j], nq); pvals(nm, "qvel", d->qvel + m->jnt_dofadr[j], nv);
      pvals(nm, "qpos0", m->qpos0 + m->jnt_qposadr[j], nq);
    }
    for (int a = 0; a < m->nactuator; a++) {
      const char* nm = mj_id2name(m, mjOBJ_ACTUATOR, a); if (!nm) nm = "?";
      pvals(nm, "ctrl", d->ctrl + m->actuator_ctrladr[a], m->actuator_ctrlnum[a]);
      if (m->actuator_actnum[a] > 0) pvals(nm, "act", d->act + m->actuator_actadr[a], m->actuator_actnum[a]);
    }
    for (int b = 0; b < m->nbody; b++) if (m->body_mocapid[b] >= 0) {
      const char* nm = mj_id2name(m, mjOBJ_BODY, b); if (!nm) nm = "?";
      pvals(nm, "mpos", d->mocap_pos + 3 * m->body_mocapid[b], 3); pvals(nm, "mquat", d->mocap_quat + 4 * m->body_mocapid[b], 4);
      pvals(nm, "mpos0", m->body_pos + 3 * b, 3); pvals(nm, "mquat0", m->body_quat + 4 * b, 4);
    }
    printf(" sizes=%d,%d,%d,%d,%d\n", (int)m->nq, (int)m->nv, (int)m->na, (int)m->nu, (int)m->nmocap); return true;
  }
  if (op == "sl_other") {
    int ds = I(1); mjModel* m = MD(ds); mjData* d = D(ds);
    printf("qfrc_applied0="); drv_print_num(m->nv ? d->qfrc_applied[0] : 0); printf(" warmstart0="); drv_print_num(m->nv ? d->qacc_warmstart[0] : 0);
    printf("\n"); return true;
  }
  return false;
}
int main() { return drv_main(extra); }
