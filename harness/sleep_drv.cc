// /verif harness for C18 (tla/Sleep.tla, SleepApi.tla, SleepTrace.tla; checks/c18.py).
//
// (A) white-box ops on a synthetic mjModel/mjData pair that holds only what src/engine/engine_sleep.c reads:
//     NT trees of one body and one dof each (tree t = body t+1 = dof t = geom t+1), world body 0, a mocap body NT+1,
//     its jointless child NT+2 and grandchild NT+3 (endpoints -2, -3, -4 of contacts / equalities; -1 = world).
//     The phase functions of one mj_step are called exactly as mj_fwdPosition / mj_advance call them
//     (mj_updateSleep only if the function reports a change).
//   wb_new <NT> <never csv|-> <eqs x:y[:k],..|-> <disableflags>    -> ok   (k: 0 weld/bodies 1 connect/bodies 2 weld/SITES 3 connect/SITES)
//   wb_set <v0,v1,..>                                               -> ok             (tree_asleep := .., mj_updateSleep)
//   wb_wake <qpos|qvel|qfrc|xfrc|none> <trees csv|->                -> <ret> <tree_asleep csv> <tree_awake csv>
//   wb_collide <x:y,x:y..|->      (-1 world, -2 mocap)              -> same
//   wb_weq <active flags csv|->                                     -> same
//   wb_sleep <qvel csv> <tree_island csv> <nisland> <nefc> <forced tree|-1>  -> <ret> <ta> <awake> <z: slept trees have zero qvel,qacc>
//   wb_wakeisland <v..> <i> <wakeval>                               -> <ret> <array csv>
//   wb_cycle <v..> <i>                                              -> <ret>
//   wb_update <v..>                                                 -> <ntree_awake> <tree_awake csv> <nbody_awake> <nv_awake> <body_awake csv>
// (B) ops on real models (mjdrv_common.h pools) for code -> spec trace validation:
//   streeinfo <m>                 -> per tree  bodyadr:bodynum:dofadr:dofnum:qposadr:nqpos:policy
//   snudge <d> <field> <index> <delta>                              -> ok
//   sstep <d> <twin d|-1>         one mj_step; prints one JSON object (fields: see tla/SleepTrace.tla)
//   sforget <d>                   forget the qpos snapshot of the slot (after reset / new data)
#include <string.h>
#include "mjdrv_common.h"
extern "C" {
// src/engine/engine_sleep.h (not all of them are MJAPI, all are linkable)
void mj_updateSleep(const mjModel* m, mjData* d);
int mj_sleepCycle(const int* tree_asleep, int ntree, int i);
int mj_wakeIsland(int* tree_asleep, int ntree, int i, int wakeval, const char* reason, mjtNum time);
int mj_wake(const mjModel* m, mjData* d);
int mj_wakeCollision(const mjModel* m, mjData* d);
int mj_wakeEquality(const mjModel* m, mjData* d);
int mj_sleep(const mjModel* m, mjData* d);
}

// ------------------------------------------------------------------------------------------------ white box
struct WB {
  int nt = 0;
  mjModel m; mjData d;
  std::vector<int> body_treeid, body_parentid, body_rootid, body_mocapid, dof_bodyid, tree_bodyadr, tree_bodynum,
      tree_dofadr, tree_dofnum, tree_sleep_policy, geom_bodyid, eq_type, eq_objtype, eq_obj1id, eq_obj2id, dof_treeid, site_bodyid;
  std::vector<mjtNum> dof_length;
  std::vector<int> tree_asleep, tree_awake, body_awake, body_awake_ind, parent_awake_ind, dof_awake_ind,
      island_itreeadr, island_ntree, map_itree2tree, tree_island;
  std::vector<mjtNum> qvel, qacc, xfrc, qfrc;
  mjtBool eq_active[64];
  std::vector<mjContact> contact;
};
static WB* wb = nullptr;
static const int WB_GUARD = 7;   // guard cells around tree_asleep

static std::vector<int> ints(const std::string& s) {
  std::vector<int> v; if (s == "-") return v;
  for (auto& x : drv_csv(s)) v.push_back(atoi(x.c_str()));
  return v;
}
static int wb_body(int z, int nt) { return z >= 0 ? z + 1 : (z == -2 ? nt + 1 : z == -3 ? nt + 2 : z == -4 ? nt + 3 : 0); }

static std::vector<int> g_eqkind;
static void wb_make(int nt, const std::vector<int>& never, const std::vector<std::pair<int, int>>& eqs, int disable) {
  delete wb; wb = new WB; WB& w = *wb; w.nt = nt;
  memset(&w.m, 0, sizeof w.m); memset(&w.d, 0, sizeof w.d);
  int nb = nt + 4, neq = (int)eqs.size();
  w.body_treeid.assign(nb, -1); w.body_parentid.assign(nb, 0); w.body_rootid.assign(nb, 0); w.body_mocapid.assign(nb, -1);
  for (int b = 1; b < nb; b++) w.body_rootid[b] = b;
  for (int t = 0; t < nt; t++) w.body_treeid[t + 1] = t;
  w.body_mocapid[nt + 1] = 0;
  w.body_parentid[nt + 2] = nt + 1; w.body_rootid[nt + 2] = nt + 1;     // jointless child of the mocap body
  w.body_parentid[nt + 3] = nt + 2; w.body_rootid[nt + 3] = nt + 1;     // and grandchild
  w.dof_bodyid.resize(nt); w.dof_treeid.resize(nt); w.tree_bodyadr.resize(nt); w.tree_bodynum.assign(nt, 1);
  w.tree_dofadr.resize(nt); w.tree_dofnum.assign(nt, 1); w.tree_sleep_policy.assign(nt, mjSLEEP_AUTO_ALLOWED);
  w.dof_length.assign(nt, 1.0);
  for (int t = 0; t < nt; t++) { w.dof_bodyid[t] = t + 1; w.dof_treeid[t] = t; w.tree_bodyadr[t] = t + 1; w.tree_dofadr[t] = t; }
  for (int t : never) w.tree_sleep_policy.at(t) = mjSLEEP_NEVER;
  w.geom_bodyid.resize(nb); for (int g = 0; g < nb; g++) w.geom_bodyid[g] = g;
  w.eq_type.assign(neq + 1, mjEQ_WELD); w.eq_objtype.assign(neq + 1, mjOBJ_BODY); w.eq_obj1id.assign(neq + 1, 0); w.eq_obj2id.assign(neq + 1, 0);
  // one site per body, numbered in REVERSE body order so that a site id is never a valid stand-in for its body id
  w.site_bodyid.resize(nb); for (int sid = 0; sid < nb; sid++) w.site_bodyid[sid] = nb - 1 - sid;
  for (int k = 0; k < neq; k++) {
    int kind = k < (int)g_eqkind.size() ? g_eqkind[k] : 0, b1 = wb_body(eqs[k].first, nt), b2 = wb_body(eqs[k].second, nt);
    w.eq_type[k] = (kind & 1) ? mjEQ_CONNECT : mjEQ_WELD;
    w.eq_objtype[k] = (kind & 2) ? mjOBJ_SITE : mjOBJ_BODY;
    w.eq_obj1id[k] = (kind & 2) ? nb - 1 - b1 : b1; w.eq_obj2id[k] = (kind & 2) ? nb - 1 - b2 : b2;
  }
  w.m.nsite = nb;
  if (neq > 60) mk_die("too many equalities");
  memset(w.eq_active, 0, sizeof w.eq_active);
  mjModel& m = w.m;
  m.ntree = nt; m.nbody = nb; m.nv = nt; m.nq = nt; m.ngeom = nb; m.neq = neq; m.nmocap = 1;
  m.opt.enableflags = mjENBL_SLEEP; m.opt.disableflags = disable; m.opt.sleep_tolerance = 0.5; m.opt.timestep = 0.01;
  m.body_treeid = w.body_treeid.data(); m.body_parentid = w.body_parentid.data(); m.body_rootid = w.body_rootid.data();
  m.body_mocapid = w.body_mocapid.data(); m.dof_bodyid = w.dof_bodyid.data(); m.dof_treeid = w.dof_treeid.data();
  m.tree_bodyadr = w.tree_bodyadr.data(); m.tree_bodynum = w.tree_bodynum.data(); m.tree_dofadr = w.tree_dofadr.data();
  m.tree_dofnum = w.tree_dofnum.data(); m.tree_sleep_policy = w.tree_sleep_policy.data(); m.dof_length = w.dof_length.data();
  m.geom_bodyid = w.geom_bodyid.data(); m.eq_type = w.eq_type.data(); m.eq_objtype = w.eq_objtype.data();
  m.eq_obj1id = w.eq_obj1id.data(); m.eq_obj2id = w.eq_obj2id.data(); m.site_bodyid = w.site_bodyid.data();
  w.tree_asleep.assign(nt + 2 * WB_GUARD, -777);
  w.tree_awake.assign(nt, 1); w.body_awake.assign(nb, 1); w.body_awake_ind.assign(nb, 0); w.parent_awake_ind.assign(nb, 0);
  w.dof_awake_ind.assign(nt, 0); w.island_itreeadr.assign(nt + 1, 0); w.island_ntree.assign(nt + 1, 0);
  w.map_itree2tree.assign(nt + 1, 0); w.tree_island.assign(nt + 1, -1);
  w.qvel.assign(nt, 0); w.qacc.assign(nt, 0); w.xfrc.assign(6 * nb, 0); w.qfrc.assign(nt, 0);
  w.contact.resize(64);
  mjData& d = w.d;
  d.tree_asleep = w.tree_asleep.data() + WB_GUARD; d.tree_awake = w.tree_awake.data(); d.body_awake = w.body_awake.data();
  d.body_awake_ind = w.body_awake_ind.data(); d.parent_awake_ind = w.parent_awake_ind.data(); d.dof_awake_ind = w.dof_awake_ind.data();
  d.island_itreeadr = w.island_itreeadr.data(); d.island_ntree = w.island_ntree.data(); d.map_itree2tree = w.map_itree2tree.data();
  d.tree_island = w.tree_island.data();
  d.qvel = w.qvel.data(); d.qacc = w.qacc.data(); d.xfrc_applied = w.xfrc.data(); d.qfrc_applied = w.qfrc.data();
  d.contact = w.contact.data(); d.eq_active = w.eq_active;
  for (int t = 0; t < nt; t++) d.tree_asleep[t] = -(1 + mjMINAWAKE);
  mj_updateSleep(&m, &d);
}
static bool wb_guard_ok() {
  for (int k = 0; k < WB_GUARD; k++) if (wb->tree_asleep[k] != -777 || wb->tree_asleep[WB_GUARD + wb->nt + k] != -777) return false;
  return true;
}
static void wb_print(int ret, const char* extra = nullptr) {
  WB& w = *wb; printf("%d ", ret);
  for (int t = 0; t < w.nt; t++) printf("%s%d", t ? "," : "", w.d.tree_asleep[t]);
  printf(" ");
  for (int t = 0; t < w.nt; t++) printf("%s%d", t ? "," : "", w.d.tree_awake[t]);
  if (extra) printf(" %s", extra);
  if (!wb_guard_ok()) printf(" GUARD-OVERWRITTEN");
  printf("\n");
}

static bool wb_ops(const std::vector<std::string>& t, const std::vector<std::string>&, size_t&) {
  const std::string& op = t[0];
  if (op == "wb_new") {
    std::vector<std::pair<int, int>> eqs;
    g_eqkind.clear();
    if (t.at(3) != "-") for (auto& e : drv_csv(t[3])) {
      size_t c = e.find(':'), c2 = e.find(':', c + 1);
      eqs.push_back({atoi(e.substr(0, c).c_str()), atoi(e.substr(c + 1, c2 == std::string::npos ? std::string::npos : c2 - c - 1).c_str())});
      g_eqkind.push_back(c2 == std::string::npos ? 0 : atoi(e.substr(c2 + 1).c_str()));
    }
    wb_make(atoi(t.at(1).c_str()), ints(t.at(2)), eqs, t.size() > 4 ? atoi(t[4].c_str()) : 0);
    printf("ok\n"); return true;
  }
  if (op == "wb_wakeisland" || op == "wb_cycle") {
    std::vector<int> v = ints(t.at(1)); int n = (int)v.size();
    std::vector<int> buf(n + 2 * WB_GUARD, -777); for (int k = 0; k < n; k++) buf[WB_GUARD + k] = v[k];
    int r = -99;
    if (HX_TRY) {
      if (op == "wb_cycle") r = mj_sleepCycle(buf.data() + WB_GUARD, n, atoi(t.at(2).c_str()));
      else r = mj_wakeIsland(buf.data() + WB_GUARD, n, atoi(t.at(2).c_str()), atoi(t.at(3).c_str()), nullptr, 0);
      HX_END;
    } else { drv_err(hx_err); return true; }
    printf("%d", r);
    if (op == "wb_wakeisland") { printf(" "); for (int k = 0; k < n; k++) printf("%s%d", k ? "," : "", buf[WB_GUARD + k]); }
    for (int k = 0; k < WB_GUARD; k++) if (buf[k] != -777 || buf[WB_GUARD + n + k] != -777) { printf(" GUARD-OVERWRITTEN"); break; }
    printf("\n"); return true;
  }
  if (op.rfind("wb_", 0) != 0) return false;
  if (!wb) mk_die("wb_new first");
  WB& w = *wb; mjModel* m = &w.m; mjData* d = &w.d; int nt = w.nt;
  if (op == "wb_set" || op == "wb_update") {
    std::vector<int> v = ints(t.at(1)); if ((int)v.size() != nt) mk_die("wb_set: wrong length");
    for (int k = 0; k < nt; k++) d->tree_asleep[k] = v[k];
    std::fill(w.qvel.begin(), w.qvel.end(), 0); std::fill(w.qacc.begin(), w.qacc.end(), 0);
    std::fill(w.xfrc.begin(), w.xfrc.end(), 0); std::fill(w.qfrc.begin(), w.qfrc.end(), 0);
    mj_updateSleep(m, d);
    if (op == "wb_set") { printf("ok\n"); return true; }
    printf("%d ", d->ntree_awake);
    for (int k = 0; k < nt; k++) printf("%s%d", k ? "," : "", d->tree_awake[k]);
    printf(" %d %d ", d->nbody_awake, d->nv_awake);
    for (int b = 0; b < m->nbody; b++) printf("%s%d", b ? "," : "", d->body_awake[b]);
    printf("\n"); return true;
  }
  int r = -99;
  if (op == "wb_wake") {
    std::fill(w.xfrc.begin(), w.xfrc.end(), 0); std::fill(w.qfrc.begin(), w.qfrc.end(), 0);
    for (int k = 0; k < nt; k++) if (d->tree_asleep[k] >= 0 && w.qvel[k] != 0) { printf("error harness: sleeping tree %d has velocity\n", k); return true; }
    const std::string& how = t.at(1);
    for (int x : ints(t.at(2))) {
      if (how == "qpos") d->tree_awake[x] = 1;          // the mark mj_kinematics1 leaves on an xpos/xquat mismatch
      else if (how == "qvel") w.qvel[x] = 1e-3;
      else if (how == "qfrc") w.qfrc[x] = -0.0;         // documented: bytewise comparison, -0.0 wakes
      else if (how == "xfrc") w.xfrc[6 * (x + 1) + 4] = 2.5;
      else if (how != "none") mk_die("wb_wake: bad kind");
    }
    if (HX_TRY) { r = mj_wake(m, d); if (r) mj_updateSleep(m, d); HX_END; } else { drv_err(hx_err); return true; }
    wb_print(r); return true;
  }
  if (op == "wb_collide") {
    d->ncon = 0;
    if (t.at(1) != "-") for (auto& e : drv_csv(t[1])) {
      size_t c = e.find(':'); int x = atoi(e.substr(0, c).c_str()), y = atoi(e.substr(c + 1).c_str());
      mjContact& k = w.contact.at(d->ncon++); memset(&k, 0, sizeof k);
      k.geom[0] = k.geom1 = wb_body(x, nt); k.geom[1] = k.geom2 = wb_body(y, nt);
      k.flex[0] = k.flex[1] = k.elem[0] = k.elem[1] = k.vert[0] = k.vert[1] = -1;
    }
    if (HX_TRY) { r = mj_wakeCollision(m, d); if (r) mj_updateSleep(m, d); HX_END; } else { drv_err(hx_err); return true; }
    wb_print(r); return true;
  }
  if (op == "wb_weq") {
    std::vector<int> a = ints(t.at(1)); if ((int)a.size() != m->neq) mk_die("wb_weq: wrong number of flags");
    for (int k = 0; k < m->neq; k++) w.eq_active[k] = a[k] != 0;
    if (HX_TRY) { r = mj_wakeEquality(m, d); if (r) mj_updateSleep(m, d); HX_END; } else { drv_err(hx_err); return true; }
    wb_print(r); return true;
  }
  if (op == "wb_sleep") {
    std::vector<double> qv = drv_nums(t.at(1)); std::vector<int> isl = ints(t.at(2));
    if ((int)qv.size() != nt || (int)isl.size() != nt) mk_die("wb_sleep: wrong length");
    int nisl = atoi(t.at(3).c_str()), nefc = atoi(t.at(4).c_str()), forced = atoi(t.at(5).c_str());
    for (int k = 0; k < nt; k++) { w.qvel[k] = qv[k]; w.qacc[k] = 3.0; }
    if (forced >= 0 && !w.qfrc[forced] && !w.xfrc[6 * (forced + 1) + 4]) w.xfrc[6 * (forced + 1) + 4] = 2.5;
    // island arrays laid out as mj_island does: islands first (trees ascending), then the trees without island
    d->nisland = nisl; d->nefc = nefc;
    std::fill(w.island_ntree.begin(), w.island_ntree.end(), 0);
    for (int k = 0; k < nt; k++) { w.tree_island[k] = nisl ? isl[k] : -1; if (nisl && isl[k] >= 0) w.island_ntree.at(isl[k])++; }
    if (nisl) {
      w.island_itreeadr[0] = 0; for (int i = 1; i < nisl; i++) w.island_itreeadr[i] = w.island_itreeadr[i - 1] + w.island_ntree[i - 1];
      int last = w.island_itreeadr[nisl - 1] + w.island_ntree[nisl - 1];
      std::vector<int> cnt(nisl + 1, 0);
      for (int k = 0; k < nt; k++) { int i = isl[k]; if (i >= 0) w.map_itree2tree[w.island_itreeadr[i] + cnt[i]++] = k; else w.map_itree2tree[last + cnt[nisl]++] = k; }
    }
    std::vector<int> before(d->tree_asleep, d->tree_asleep + nt);
    if (HX_TRY) { r = mj_sleep(m, d); if (r) mj_updateSleep(m, d); HX_END; } else { drv_err(hx_err); return true; }
    int z = 1;
    for (int k = 0; k < nt; k++) if (before[k] < 0 && d->tree_asleep[k] >= 0 && (w.qvel[k] != 0 || w.qacc[k] != 0)) z = 0;
    std::fill(w.xfrc.begin(), w.xfrc.end(), 0); std::fill(w.qfrc.begin(), w.qfrc.end(), 0);
    wb_print(r, z ? "z=1" : "z=0"); return true;
  }
  return false;
}

// ------------------------------------------------------------------------------------------------ real models
static int tree_or_static(const mjModel* m, int body) {
  int t = m->body_treeid[body];
  if (t >= 0) return t;
  if (m->body_mocapid[body] >= 0) return -2;                           // mocap body
  return m->body_mocapid[m->body_rootid[body]] >= 0 ? -3 : -1;         // carried by a mocap body : static
}
static void tree_qpos_range(const mjModel* m, int t, int* adr, int* num) {
  int lo = m->nq, hi = 0;
  for (int b = m->tree_bodyadr[t]; b < m->tree_bodyadr[t] + m->tree_bodynum[t]; b++)
    for (int j = m->body_jntadr[b]; j < m->body_jntadr[b] + m->body_jntnum[b]; j++) {
      int a = m->jnt_qposadr[j], n = m->jnt_type[j] == mjJNT_FREE ? 7 : m->jnt_type[j] == mjJNT_BALL ? 4 : 1;
      if (a < lo) lo = a; if (a + n > hi) hi = a + n;
    }
  *adr = lo; *num = hi > lo ? hi - lo : 0;
}
static bool nonzero_bytes(const void* p, size_t n) { const unsigned char* b = (const unsigned char*)p; for (size_t i = 0; i < n; i++) if (b[i]) return true; return false; }
static void print_set(const char* key, const std::vector<int>& v, bool comma = true) {
  printf("\"%s\":[", key); for (size_t i = 0; i < v.size(); i++) printf("%s%d", i ? "," : "", v[i]); printf("]%s", comma ? "," : "");
}

static std::map<int, std::vector<mjtNum>> lastq;     // qpos at the end of the previous sstep of a data slot
static bool real_ops(const std::vector<std::string>& t, const std::vector<std::string>& lines, size_t& i) {
  const std::string& op = t[0];
  if (op == "streeinfo") {
    mjModel* m = M(atoi(t.at(1).c_str()));
    printf("%d", m->ntree);
    for (int k = 0; k < m->ntree; k++) { int a, n; tree_qpos_range(m, k, &a, &n);
      printf(" %d:%d:%d:%d:%d:%d:%d", m->tree_bodyadr[k], m->tree_bodynum[k], m->tree_dofadr[k], m->tree_dofnum[k], a, n, m->tree_sleep_policy[k]); }
    printf("\n"); return true;
  }
  if (op == "snudge") {
    int ds = atoi(t.at(1).c_str()); DrvFld f; auto v = drv_data_fields(MD(ds), D(ds));
    if (!drv_find(v, t.at(2), f)) mk_die("unknown data field " + t.at(2));
    size_t k = (size_t)atoi(t.at(3).c_str()); drv_write(f, k, drv_read(f, k) + drv_num(t.at(4))); printf("ok\n"); return true;
  }
  if (op == "sforget") { lastq.erase(atoi(t.at(1).c_str())); printf("ok\n"); return true; }
  if (op == "sstep") {
    int ds = atoi(t.at(1).c_str()), tw = atoi(t.at(2).c_str());
    mjModel* m = MD(ds); mjData* d = D(ds); int nt = m->ntree;
    // ---- observations before the step
    std::vector<int> forced, slow, asleep0, pq, nzv0;
    auto lq = lastq.find(ds);
    for (int k = 0; k < nt; k++) {
      bool f = nonzero_bytes(d->xfrc_applied + 6 * m->tree_bodyadr[k], 6 * m->tree_bodynum[k] * sizeof(mjtNum)) ||
               nonzero_bytes(d->qfrc_applied + m->tree_dofadr[k], m->tree_dofnum[k] * sizeof(mjtNum));
      if (f) forced.push_back(k);
      mjtNum mx = 0; for (int j = m->tree_dofadr[k]; j < m->tree_dofadr[k] + m->tree_dofnum[k]; j++) { mjtNum a = m->dof_length[j] * fabs(d->qvel[j]); if (a > mx) mx = a; }
      if (mx < m->opt.sleep_tolerance) slow.push_back(k);
      if (d->tree_asleep[k] >= 0) asleep0.push_back(k);
      if (nonzero_bytes(d->qvel + m->tree_dofadr[k], m->tree_dofnum[k] * sizeof(mjtNum))) nzv0.push_back(k);
      int qa, qn; tree_qpos_range(m, k, &qa, &qn);
      if (lq != lastq.end() && (int)lq->second.size() == m->nq && qn && memcmp(lq->second.data() + qa, d->qpos + qa, qn * sizeof(mjtNum))) pq.push_back(k);
    }
    std::vector<mjtNum> q0(d->qpos, d->qpos + m->nq);
    bool twin = false, twin_eq = true; const char* twin_field = "";
    if (tw >= 0) {
      twin = true;
      if (HX_TRY) { mj_copyData(D(tw), MD(tw), d); HX_END; } else { printf("{\"error\":\"twin copy: %s\"}\n", hx_err); return true; }
    }
    if (HX_TRY) { mj_step(m, d); HX_END; }
    else { std::string e = hx_err; for (auto& c : e) if (c == '"' || c == '\\' || c == '\n') c = ' '; printf("{\"error\":\"%s\"}\n", e.c_str()); return true; }
    if (twin) {
      mjData* d2 = D(tw); mjModel* m2 = MD(tw);
      if (HX_TRY) { mj_step(m2, d2); HX_END; } else { printf("{\"error\":\"twin step: %s\"}\n", hx_err); return true; }
      struct { const char* n; const void* a; const void* b; size_t sz; } F[] = {
        {"qpos", d->qpos, d2->qpos, sizeof(mjtNum) * m->nq}, {"qvel", d->qvel, d2->qvel, sizeof(mjtNum) * m->nv},
        {"act", d->act, d2->act, sizeof(mjtNum) * m->na}, {"time", &d->time, &d2->time, sizeof(mjtNum)},
        {"qacc", d->qacc, d2->qacc, sizeof(mjtNum) * m->nv}, {"qacc_warmstart", d->qacc_warmstart, d2->qacc_warmstart, sizeof(mjtNum) * m->nv},
        {"sensordata", d->sensordata, d2->sensordata, sizeof(mjtNum) * m->nsensordata},
        {"xpos", d->xpos, d2->xpos, sizeof(mjtNum) * 3 * m->nbody}, {"qfrc_constraint", d->qfrc_constraint, d2->qfrc_constraint, sizeof(mjtNum) * m->nv}};
      for (auto& f : F) if (f.sz && memcmp(f.a, f.b, f.sz)) { twin_eq = false; twin_field = f.n; break; }
      if (twin_eq && d->ncon != d2->ncon) { twin_eq = false; twin_field = "ncon"; }
    }
    // ---- observations after the step
    std::vector<int> ta(d->tree_asleep, d->tree_asleep + nt), isl(nt, -1), moved, nzv, awake;
    if (d->nisland > 0 && d->tree_island) for (int k = 0; k < nt; k++) isl[k] = d->tree_island[k];
    for (int k = 0; k < nt; k++) {
      int a, n; tree_qpos_range(m, k, &a, &n);
      if (n && memcmp(q0.data() + a, d->qpos + a, n * sizeof(mjtNum))) moved.push_back(k);
      if (nonzero_bytes(d->qvel + m->tree_dofadr[k], m->tree_dofnum[k] * sizeof(mjtNum))) nzv.push_back(k);
      awake.push_back(d->tree_awake[k]);
    }
    lastq[ds] = std::vector<mjtNum>(d->qpos, d->qpos + m->nq);
    printf("{"); print_set("pq", pq); print_set("nzv0", nzv0); print_set("ta", ta); print_set("isl", isl); print_set("forced", forced); print_set("slow", slow);
    print_set("moved", moved); print_set("nzv", nzv); print_set("awake", awake);
    printf("\"con\":[");
    for (int c = 0; c < d->ncon; c++) {
      const mjContact& k = d->contact[c];
      int x = k.geom[0] >= 0 ? tree_or_static(m, m->geom_bodyid[k.geom[0]]) : -9;
      int y = k.geom[1] >= 0 ? tree_or_static(m, m->geom_bodyid[k.geom[1]]) : -9;
      printf("%s[%d,%d,%d]", c ? "," : "", x, y, k.exclude);
    }
    printf("],\"contw\":[");
    if (twin) {
      mjData* d2 = D(tw);
      for (int c = 0; c < d2->ncon; c++) {
        const mjContact& k = d2->contact[c];
        int x = k.geom[0] >= 0 ? tree_or_static(m, m->geom_bodyid[k.geom[0]]) : -9;
        int y = k.geom[1] >= 0 ? tree_or_static(m, m->geom_bodyid[k.geom[1]]) : -9;
        printf("%s[%d,%d,%d]", c ? "," : "", x, y, k.exclude);
      }
    }
    printf("],\"eqs\":[");
    for (int e = 0; e < m->neq; e++) {
      int x = -3, y = -3, id1 = m->eq_obj1id[e], id2 = m->eq_obj2id[e];
      if (m->eq_type[e] == mjEQ_CONNECT || m->eq_type[e] == mjEQ_WELD) {
        int b1 = m->eq_objtype[e] == mjOBJ_BODY ? id1 : m->site_bodyid[id1], b2 = m->eq_objtype[e] == mjOBJ_BODY ? id2 : m->site_bodyid[id2];
        x = tree_or_static(m, b1); y = tree_or_static(m, b2);
      } else if (m->eq_type[e] == mjEQ_JOINT) {
        x = id1 >= 0 ? tree_or_static(m, m->jnt_bodyid[id1]) : -1; y = id2 >= 0 ? tree_or_static(m, m->jnt_bodyid[id2]) : -1;
      }
      int kind = (m->eq_type[e] == mjEQ_CONNECT ? 1 : 0) + (m->eq_objtype[e] == mjOBJ_SITE ? 2 : 0);
      printf("%s[%d,%d,%d,%d]", e ? "," : "", x, y, d->eq_active[e] ? 1 : 0, kind);
    }
    printf("],\"nisland\":%d,\"nefc\":%d,\"ncon\":%d,\"ntree_awake\":%d,\"twin\":%d,\"twin_field\":\"%s\",\"warn\":%d}\n",
           d->nisland, d->nefc, d->ncon, d->ntree_awake, twin ? (twin_eq ? 1 : 0) : -1, twin_field,
           d->warning[mjWARN_BADQPOS].number + d->warning[mjWARN_BADQVEL].number + d->warning[mjWARN_BADQACC].number + d->warning[mjWARN_CONTACTFULL].number + d->warning[mjWARN_CNSTRFULL].number);
    return true;
  }
  return false;
}

static bool extra(const std::vector<std::string>& t, const std::vector<std::string>& lines, size_t& i) {
  if (wb_ops(t, lines, i)) return true;
  return real_ops(t, lines, i);
}
int main() { return drv_main(extra); }
