// /verif harness for C34 (tla/NameTable.tla, checks/c34.py): name lookup batteries on compiled models.
// Generic ops from mjdrv_common.h (name2id / id2name included), extended model kinds from mkmodel_ext.h.  Added op:
//   nbat <m> <type> <idlo> <idhi> <hexq> ...     -> "r1 r2 ...|n1 n2 ..."  (mj_name2id of every query string, then
//                                                    mj_id2name of every id in idlo..idhi as hex, "null" for NULL)
#include "mkmodel_ext.h"

static bool extra(const std::vector<std::string>& t, const std::vector<std::string>& lines, size_t& i) {
  if (mkx_op(t, lines, i)) return true;
  if (t[0] == "nbat") {
    const mjModel* m = M(atoi(t.at(1).c_str()));
    int type = atoi(t.at(2).c_str()), lo = atoi(t.at(3).c_str()), hi = atoi(t.at(4).c_str());
    std::string out;
    for (size_t k = 5; k < t.size(); k++) {
      std::string q = unhex(t[k]);
      if (k > 5) out += " ";
      out += std::to_string(mj_name2id(m, type, q.c_str()));
    }
    out += "|";
    for (int id = lo; id <= hi; id++) {
      const char* n = mj_id2name(m, type, id);
      if (id > lo) out += " ";
      out += n ? tohex(n, strlen(n)) : std::string("null");
    }
    printf("%s\n", out.c_str());
    return true;
  }
  return false;
}
int main() { return drv_main(extra); }
