// /verif harness for C06, C07, C29, C09 (tla/SmoothLattice.tla, tla/SmoothFwdInv.tla; checks/_smooth.py).
// Generic ops (model/data/forward/get/set/optset ...) come from mjdrv_common.h.  Added ops, all printing ONE line
// "n v1 v2 ..." (%.17g) unless stated otherwise:
//   quatmat <d>                 3x3 matrices computed HERE from xquat (independent formula), all bodies
//   jac <d> <kind> <id>         kind = body | bodycom | site | geom | subtree : jacp (3 x nv) then jacr (3 x nv; zeros for subtree)
//   jacpt <d> <body> x y z      mj_jac at an arbitrary point
//   jacsp <d> <body>            white box: mj_jacSparse over mj_bodyChain at xpos, scattered to dense (jacp, jacr)
//   jacdot <d> <body> x y z     mj_jacDot  (jacp, jacr)
//   objvel <d> <objtype> <id> <local>    mj_objectVelocity (rot:lin)
//   fullm <d>                   mj_fullM dense nv x nv
//   mulm <d> v,..               mj_mulM                     solvem <d> v,..   mj_solveM
//   reconld <d>                 L' D L rebuilt HERE from qLD / qLDiagInv and the sparsity of M, dense nv x nv
//   rne <d> <flg_acc>           mj_rne into a scratch vector
//   intpos <d> <dof> <delta>    mj_integratePos(qpos, e_dof, delta) in place  -> "ok"
//   diffpos <d> dt q1,.. q2,..  mj_differentiatePos
//   stepacc <d>                 copy of d is stepped once; prints (qvel' - qvel) / timestep  (d itself is untouched)
//   efc <d>                     efc_force of all constraint rows
//   fwdinv <d>                  mj_compareFwdInv -> "2 fwdinv0 fwdinv1"
//   eqrows <d> J|pos            first THREE rows (translation residual) of every equality constraint, in equality order:
//                               J: rows of efc_J densified to nv columns (dense or sparse storage);  pos: efc_pos
//   asleep <d>                  one 0/1 per kinematic tree: tree_asleep >= 0
//   ldcheck <d>                 factorisation identities over ALL dofs: max |L'DL - M| (M = mj_fullM), max |qLDiagInv * D - 1|,
//                               max |mj_solveM(mj_mulM(e_i)) - e_i|
//   jacdif <d> <b1> <b2> <sparse> x1 y1 z1 x2 y2 z2
//                               white box: mj_jacDifPair(b1, b2, p1, p2) -> jacdifp (3 x nv) then jacdifr (3 x nv), scattered
//                               to dense through the returned chain; entries the function did not write come out as nan
#include "mjdrv_common.h"
extern "C" {
int mj_bodyChain(const mjModel* m, int body, int* chain);
void mj_jacSparse(const mjModel* m, const mjData* d, mjtNum* jacp, mjtNum* jacr, const mjtNum* point, int body,
                  int NV, const int* chain, int flg_skipcommon);
int mj_isSparse(const mjModel* m);
int mj_jacDifPair(const mjModel* m, const mjData* d, int* chain, int b1, int b2, const mjtNum pos1[3], const mjtNum pos2[3],
                  mjtNum* jac1p, mjtNum* jac2p, mjtNum* jacdifp, mjtNum* jac1r, mjtNum* jac2r, mjtNum* jacdifr,
                  int issparse, int flg_skipcommon);
}

static void pv(const std::vector<mjtNum>& v) {
  printf("%zu", v.size());
  for (mjtNum x : v) { printf(" "); drv_print_num(x); }
  printf("\n");
}
static std::vector<mjtNum> argv_nums(const std::vector<std::string>& t, size_t k, int n) {
  std::vector<mjtNum> x = t.size() > k && t[k] != "-" ? drv_nums(t[k]) : std::vector<mjtNum>();
  if ((int)x.size() != n) mk_die("wrong vector length for " + t[0]);
  return x;
}

static bool extra(const std::vector<std::string>& t, const std::vector<std::string>& lines, size_t& i) {
  const std::string& op = t[0];
  auto I = [&](size_t k) { if (k >= t.size()) mk_die("missing argument for " + op); return atoi(t[k].c_str()); };
  auto F = [&](size_t k) { if (k >= t.size()) mk_die("missing argument for " + op); return drv_num(t[k]); };
  static const char* mine[] = {"quatmat", "jac", "jacpt", "jacsp", "jacdot", "objvel", "fullm", "mulm", "solvem", "reconld",
                               "rne", "intpos", "diffpos", "stepacc", "efc", "fwdinv", "eqrows", "jacdif", "asleep", "ldcheck", nullptr};
  bool is_mine = false;
  for (const char** p = mine; *p; p++) if (op == *p) is_mine = true;
  if (!is_mine) return false;
  int ds = I(1);
  const mjModel* m = MD(ds);
  mjData* d = D(ds);
  int nv = m->nv;
  if (HX_TRY) { } else { drv_err(hx_err); return true; }
  if (op == "quatmat") {
    std::vector<mjtNum> out;
    for (int b = 0; b < m->nbody; b++) {
      const mjtNum* q = d->xquat + 4 * b;
      mjtNum w = q[0], x = q[1], y = q[2], z = q[3];
      mjtNum R[9] = {1 - 2 * (y * y + z * z), 2 * (x * y - w * z), 2 * (x * z + w * y),
                     2 * (x * y + w * z), 1 - 2 * (x * x + z * z), 2 * (y * z - w * x),
                     2 * (x * z - w * y), 2 * (y * z + w * x), 1 - 2 * (x * x + y * y)};
      out.insert(out.end(), R, R + 9);
    }
    HX_END; pv(out); return true;
  }
  if (op == "jac" || op == "jacpt" || op == "jacdot" || op == "jacsp") {
    std::vector<mjtNum> jp(3 * nv + 1, 0), jr(3 * nv + 1, 0);
    if (op == "jac") {
      const std::string& k = t.at(2); int id = I(3);
      if (k == "body") mj_jacBody(m, d, jp.data(), jr.data(), id);
      else if (k == "bodycom") mj_jacBodyCom(m, d, jp.data(), jr.data(), id);
      else if (k == "site") mj_jacSite(m, d, jp.data(), jr.data(), id);
      else if (k == "geom") mj_jacGeom(m, d, jp.data(), jr.data(), id);
      else if (k == "subtree") mj_jacSubtreeCom(m, d, jp.data(), id);
      else mk_die("bad jac kind " + k);
    } else if (op == "jacpt") {
      mjtNum p[3] = {F(3), F(4), F(5)};
      mj_jac(m, d, jp.data(), jr.data(), p, I(2));
    } else if (op == "jacdot") {
      mjtNum p[3] = {F(3), F(4), F(5)};
      mj_jacDot(m, d, jp.data(), jr.data(), p, I(2));
    } else {
      int body = I(2);
      std::vector<int> chain(nv + 1);
      int NV = mj_bodyChain(m, body, chain.data());
      std::vector<mjtNum> sp(3 * NV + 1, 0), sr(3 * NV + 1, 0);
      if (NV) mj_jacSparse(m, d, sp.data(), sr.data(), d->xpos + 3 * body, body, NV, chain.data(), 0);
      for (int r = 0; r < 3; r++) for (int c = 0; c < NV; c++) { jp[r * nv + chain[c]] = sp[r * NV + c]; jr[r * nv + chain[c]] = sr[r * NV + c]; }
    }
    HX_END;
    std::vector<mjtNum> out(jp.begin(), jp.begin() + 3 * nv);
    out.insert(out.end(), jr.begin(), jr.begin() + 3 * nv);
    pv(out); return true;
  }
  if (op == "objvel") {
    mjtNum r[6]; mj_objectVelocity(m, d, I(2), I(3), r, I(4));
    HX_END; pv(std::vector<mjtNum>(r, r + 6)); return true;
  }
  if (op == "fullm") {
    std::vector<mjtNum> M(nv * nv + 1, 0); mj_fullM(m, d, M.data());
    HX_END; M.resize(nv * nv); pv(M); return true;
  }
  if (op == "mulm" || op == "solvem") {
    std::vector<mjtNum> x = argv_nums(t, 2, nv), r(nv + 1, 0);
    if (op == "mulm") mj_mulM(m, d, r.data(), x.data()); else mj_solveM(m, d, r.data(), x.data(), 1);
    HX_END; r.resize(nv); pv(r); return true;
  }
  if (op == "reconld") {
    // M = L' D L with L unit lower triangular stored row-wise in qLD (strict lower part), D = 1 / qLDiagInv
    std::vector<mjtNum> L(nv * nv, 0), out(nv * nv, 0);
    for (int r = 0; r < nv; r++) {
      int adr = m->M_rowadr[r], nnz = m->M_rownnz[r];
      for (int k = 0; k < nnz - 1; k++) L[r * nv + m->M_colind[adr + k]] = d->qLD[adr + k];
      L[r * nv + r] = 1;
    }
    for (int a = 0; a < nv; a++) for (int b = 0; b < nv; b++) {
      mjtNum s = 0;
      for (int k = 0; k < nv; k++) s += L[k * nv + a] * (1 / d->qLDiagInv[k]) * L[k * nv + b];
      out[a * nv + b] = s;
    }
    HX_END; pv(out); return true;
  }
  if (op == "rne") {
    std::vector<mjtNum> r(nv + 1, 0); mj_rne(m, d, I(2), r.data());
    HX_END; r.resize(nv); pv(r); return true;
  }
  if (op == "intpos") {
    std::vector<mjtNum> e(nv + 1, 0); e.at(I(2)) = 1;
    mj_integratePos(m, d->qpos, e.data(), F(3));
    HX_END; printf("ok\n"); return true;
  }
  if (op == "diffpos") {
    std::vector<mjtNum> q1 = argv_nums(t, 3, m->nq), q2 = argv_nums(t, 4, m->nq), r(nv + 1, 0);
    mj_differentiatePos(m, r.data(), F(2), q1.data(), q2.data());
    HX_END; r.resize(nv); pv(r); return true;
  }
  if (op == "stepacc") {
    mjData* c = mj_copyData(nullptr, m, d);
    mj_step(m, c);
    std::vector<mjtNum> r(nv);
    for (int k = 0; k < nv; k++) r[k] = (c->qvel[k] - d->qvel[k]) / m->opt.timestep;
    mj_deleteData(c);
    HX_END; pv(r); return true;
  }
  if (op == "efc") {
    std::vector<mjtNum> f(d->efc_force, d->efc_force + d->nefc);
    HX_END; pv(f); return true;
  }
  if (op == "eqrows") {
    // an equality whose whole Jacobian block is exactly zero may be dropped by the engine (dense storage): its Jacobian rows
    // are reported as zeros; residuals are reported only for the equalities listed in the optional third argument
    bool wantJ = t.at(2) == "J";
    int sparse = mj_isSparse(m);
    std::vector<mjtNum> out;
    std::vector<mjtNum> sel = t.size() > 3 && t[3] != "-" ? drv_nums(t[3]) : std::vector<mjtNum>();
    for (int e = 0; e < m->neq; e++) {
      int r0 = -1;
      for (int r = 0; r < d->nefc; r++) if (d->efc_type[r] == mjCNSTR_EQUALITY && d->efc_id[r] == e) { r0 = r; break; }
      if (!wantJ) {
        bool want = false;
        for (mjtNum x : sel) if ((int)x == e) want = true;
        if (!want) continue;
        if (r0 < 0) mk_die("equality without constraint rows");
        for (int r = r0; r < r0 + 3; r++) out.push_back(d->efc_pos[r]);
        continue;
      }
      for (int k = 0; k < 3; k++) {
        std::vector<mjtNum> row(nv, 0);
        int r = r0 + k;
        if (r0 >= 0) {
          if (sparse) {
            for (int c = 0; c < d->efc_J_rownnz[r]; c++) row.at(d->efc_J_colind[d->efc_J_rowadr[r] + c]) += d->efc_J[d->efc_J_rowadr[r] + c];
          } else {
            for (int c = 0; c < nv; c++) row[c] = d->efc_J[(size_t)r * nv + c];
          }
        }
        out.insert(out.end(), row.begin(), row.end());
      }
    }
    HX_END; pv(out); return true;
  }
  if (op == "jacdif") {
    int b1 = I(2), b2 = I(3), sparse = I(4);
    mjtNum p1[3] = {F(5), F(6), F(7)}, p2[3] = {F(8), F(9), F(10)};
    size_t cap = 6 * (size_t)nv + 32;
    std::vector<mjtNum> j1p(cap, NAN), j2p(cap, NAN), jdp(cap, NAN), j1r(cap, NAN), j2r(cap, NAN), jdr(cap, NAN);
    std::vector<int> chain(nv + 8, -1);
    int NV = mj_jacDifPair(m, d, chain.data(), b1, b2, p1, p2, j1p.data(), j2p.data(), jdp.data(), j1r.data(), j2r.data(),
                           jdr.data(), sparse, 0);
    std::vector<mjtNum> out(6 * nv, 0);
    for (int r = 0; r < 3; r++) for (int c = 0; c < NV; c++) {
      int col = sparse ? chain[c] : c;
      if (col < 0 || col >= nv) mk_die("jacdif: chain entry out of range");
      out[r * nv + col] = jdp[r * NV + c];
      out[3 * nv + r * nv + col] = jdr[r * NV + c];
    }
    HX_END; pv(out); return true;
  }
  if (op == "asleep") {
    std::vector<mjtNum> out;
    for (int k = 0; k < m->ntree; k++) out.push_back(d->tree_asleep[k] >= 0 ? 1 : 0);
    HX_END; pv(out); return true;
  }
  if (op == "ldcheck") {
    std::vector<mjtNum> L(nv * nv, 0), M(nv * nv + 1, 0), D(nv, 0);
    mj_fullM(m, d, M.data());
    mjtNum e1 = 0, e2 = 0, e3 = 0;
    for (int r = 0; r < nv; r++) {
      int adr = m->M_rowadr[r], nnz = m->M_rownnz[r];
      for (int k = 0; k < nnz - 1; k++) L[r * nv + m->M_colind[adr + k]] = d->qLD[adr + k];
      L[r * nv + r] = 1; D[r] = d->qLD[adr + nnz - 1];
      e2 = mju_max(e2, fabs(d->qLDiagInv[r] * D[r] - 1));
    }
    for (int a = 0; a < nv; a++) for (int b = 0; b < nv; b++) {
      mjtNum acc = 0;
      for (int k = 0; k < nv; k++) acc += L[k * nv + a] * D[k] * L[k * nv + b];
      e1 = mju_max(e1, fabs(acc - M[a * nv + b]));
    }
    for (int i = 0; i < nv; i++) {
      std::vector<mjtNum> e(nv, 0), y(nv, 0), x(nv, 0);
      e[i] = 1; mj_mulM(m, d, y.data(), e.data()); mj_solveM(m, d, x.data(), y.data(), 1);
      for (int k = 0; k < nv; k++) e3 = mju_max(e3, fabs(x[k] - e[k]));
    }
    HX_END; pv({e1, e2, e3}); return true;
  }
  if (op == "fwdinv") {
    mj_compareFwdInv(m, d);
    HX_END; pv({d->solver_fwdinv[0], d->solver_fwdinv[1]}); return true;
  }
  HX_END;
  return false;
}

int main() { return drv_main(extra); }
