// /verif harness: shared op interpreter over pools of mjSpec / mjModel / mjData slots.
// A harness main() reads lines, tries its own ops, then falls back to drv_common(tokens, lines, i).
// Every op prints exactly ONE output line. Errors raised through mju_error are caught and printed as
// "error <message>" (the data/model involved is left as is).
//
// ops (slots are small integers):
//   model <m>            following lines up to "end" are a mkmodel.h description; compiles -> "ok" | "error msg"
//   spec <s> / compile <m> <s> / recompile <s> <m> <d>     (spec kept for later edits)
//   copymodel <mdst> <msrc>
//   data <d> <m>         mj_makeData                      copydata <ddst> <dsrc>  (mj_copyData, makes dst if absent)
//   free <d> | freemodel <m>
//   reset <d> | resetkey <d> <k>
//   step <d> [n] | forward <d> | inverse <d> | step1 <d> | step2 <d> | fwdskip <d> <stage> <skipsensor>
//   kinematics <d> ... (see table below for single-stage calls)
//   set <d> <field> <index> <value> | setv <d> <field> v0,v1,...      (mjData array fields by name)
//   get <d> <field>      -> values, %.17g, space separated ("nan"/"inf" printed as such)
//   getx <d> <field>     -> raw bytes in hex
//   mget <m> <field> / mset <m> <field> <index> <value>     (mjModel array fields)
//   dscalar <d> <name>   (ncon nefc nisland time pstack parena ... energy0 energy1 warning<k>)
//   mscalar <m> <name>   (sizes nq nv ... and opt.* via "opt_timestep" etc.)
//   optset <m> <field> <value>   (mjOption fields: timestep integrator solver cone jacobian disableflags enableflags ...)
//   hash <d> f1,f2,...   -> FNV-1a over the bytes of the listed fields
//   cmp <d1> <d2> f1,f2,... -> "eq" or "ne <first differing field>"
//   statesize <m> <sig> | getstate <d> <sig> | setstate <d> <sig> v,... | copystate <ddst> <dsrc> <sig>
//   contacts <d>         -> "n g1:g2:dist ..." (dist %.17g)
//   name2id <m> <type> <hexname> | id2name <m> <type> <id>   (-> hex name or "null")
#ifndef VERIF_MJDRV_COMMON_H
#define VERIF_MJDRV_COMMON_H
#include <math.h>
#include <stdint.h>
#include <mujoco/mjxmacro.h>
#include <map>
#include "hx.h"
#include "mkmodel.h"

struct DrvFld { const char* name; const char* type; void* ptr; size_t count; size_t elsize; };

static std::map<int, mjSpec*> g_spec;
static std::map<int, mjModel*> g_model;
static std::map<int, mjData*> g_data;
static std::map<int, int> g_data_model;   // data slot -> model slot

static inline mjModel* M(int s) { auto it = g_model.find(s); if (it == g_model.end()) mk_die("no model slot"); return it->second; }
static inline mjData* D(int s) { auto it = g_data.find(s); if (it == g_data.end()) mk_die("no data slot"); return it->second; }
static inline mjModel* MD(int s) { return M(g_data_model.at(s)); }

static inline std::vector<DrvFld> drv_data_fields(const mjModel* m, mjData* d) {
  std::vector<DrvFld> v;
#define X(type, name, nr, nc) v.push_back({#name, #type, (void*)d->name, (size_t)m->nr * (size_t)(nc), sizeof(type)});
#define XNV X
  MJDATA_POINTERS
#undef X
#undef MJ_M
#define MJ_M(n) m->n
#undef MJ_D
#define MJ_D(n) d->n
#define X(type, name, nr, nc) v.push_back({#name, #type, (void*)d->name, d->name ? (size_t)(nr) * (size_t)(nc) : 0, sizeof(type)});
  MJDATA_ARENA_POINTERS
#undef X
#undef XNV
#undef MJ_M
#define MJ_M(n) n
#undef MJ_D
#define MJ_D(n) n
  return v;
}
static inline std::vector<DrvFld> drv_model_fields(mjModel* m) {
  std::vector<DrvFld> v;
#undef MJ_M
#define MJ_M(n) m->n
#define X(type, name, nr, nc) v.push_back({#name, #type, (void*)m->name, (size_t)m->nr * (size_t)(nc), sizeof(type)});
#define XNV X
  MJMODEL_POINTERS
#undef X
#undef XNV
#undef MJ_M
#define MJ_M(n) n
  return v;
}
static inline bool drv_find(const std::vector<DrvFld>& v, const std::string& nm, DrvFld& out) {
  for (auto& f : v) if (nm == f.name) { out = f; return true; }
  return false;
}
static inline double drv_read(const DrvFld& f, size_t i) {
  std::string t = f.type;
  if (t == "mjtNum") return ((mjtNum*)f.ptr)[i];
  if (t == "int") return ((int*)f.ptr)[i];
  if (t == "mjtByte" || t == "mjtBool") return ((unsigned char*)f.ptr)[i];
  if (t == "float") return ((float*)f.ptr)[i];
  if (t == "mjtSize") return (double)((mjtSize*)f.ptr)[i];
  if (t == "uintptr_t") return (double)((uintptr_t*)f.ptr)[i];
  if (t == "char") return ((char*)f.ptr)[i];
  mk_die(std::string("unreadable field type ") + f.type); return 0;
}
static inline void drv_write(const DrvFld& f, size_t i, double x) {
  std::string t = f.type;
  if (i >= f.count) mk_die("index out of range for field");
  if (t == "mjtNum") ((mjtNum*)f.ptr)[i] = x;
  else if (t == "int") ((int*)f.ptr)[i] = (int)x;
  else if (t == "mjtByte" || t == "mjtBool") ((unsigned char*)f.ptr)[i] = (unsigned char)x;
  else if (t == "float") ((float*)f.ptr)[i] = (float)x;
  else mk_die(std::string("unwritable field type ") + f.type);
}
static inline double drv_num(const std::string& s) {
  if (s == "nan") return NAN; if (s == "inf") return INFINITY; if (s == "-inf") return -INFINITY;
  char* e; double x = strtod(s.c_str(), &e); if (*e) mk_die("bad number " + s); return x;
}
static inline std::vector<double> drv_nums(const std::string& v) {
  std::vector<double> out; size_t i = 0;
  while (i <= v.size()) { size_t j = v.find(',', i); if (j == std::string::npos) j = v.size();
    if (j > i) out.push_back(drv_num(v.substr(i, j - i))); i = j + 1; }
  return out;
}
static inline void drv_print_num(double x) {
  if (isnan(x)) printf("nan"); else if (isinf(x)) printf(x > 0 ? "inf" : "-inf"); else printf("%.17g", x);
}
static inline std::vector<std::string> drv_csv(const std::string& v) {
  std::vector<std::string> out; size_t i = 0;
  while (i <= v.size()) { size_t j = v.find(',', i); if (j == std::string::npos) j = v.size();
    if (j > i) out.push_back(v.substr(i, j - i)); i = j + 1; }
  return out;
}
static inline uint64_t drv_fnv(uint64_t h, const void* p, size_t n) {
  const unsigned char* b = (const unsigned char*)p;
  for (size_t i = 0; i < n; i++) { h ^= b[i]; h *= 0x100000001b3ULL; }
  return h;
}
// contact fields are compared through a normalised copy (the struct has padding)
static inline void drv_contact_bytes(const mjData* d, std::vector<double>& out) {
  for (int i = 0; i < d->ncon; i++) {
    const mjContact& c = d->contact[i];
    out.push_back(c.dist); for (int k = 0; k < 3; k++) out.push_back(c.pos[k]);
    for (int k = 0; k < 9; k++) out.push_back(c.frame[k]);
    out.push_back(c.includemargin); for (int k = 0; k < 5; k++) out.push_back(c.friction[k]);
    out.push_back(c.dim); out.push_back(c.geom[0]); out.push_back(c.geom[1]); out.push_back(c.exclude);
    out.push_back(c.efc_address);
  }
}
static inline bool drv_field_bytes(const mjModel* m, mjData* d, const std::string& nm, std::vector<unsigned char>& out) {
  out.clear();
  if (nm == "contact") { std::vector<double> c; drv_contact_bytes(d, c); out.resize(c.size() * 8); if (!c.empty()) memcpy(out.data(), c.data(), out.size()); return true; }
  if (nm == "time") { out.resize(8); memcpy(out.data(), &d->time, 8); return true; }
  if (nm == "energy") { out.resize(16); memcpy(out.data(), d->energy, 16); return true; }
  if (nm == "ncon" || nm == "nefc" || nm == "nisland" || nm == "ne" || nm == "nf" || nm == "nl") {
    int v = nm == "ncon" ? d->ncon : nm == "nefc" ? d->nefc : nm == "nisland" ? d->nisland : nm == "ne" ? d->ne : nm == "nf" ? d->nf : d->nl;
    out.resize(4); memcpy(out.data(), &v, 4); return true; }
  DrvFld f; auto v = drv_data_fields(m, d);
  if (!drv_find(v, nm, f)) return false;
  out.resize(f.count * f.elsize); if (!out.empty() && f.ptr) memcpy(out.data(), f.ptr, out.size());
  return true;
}
static inline void drv_free_data(int s) { auto it = g_data.find(s); if (it != g_data.end()) { mj_deleteData(it->second); g_data.erase(it); } }
static inline void drv_free_model(int s) { auto it = g_model.find(s); if (it != g_model.end()) { mj_deleteModel(it->second); g_model.erase(it); } }

static inline void drv_err(const char* msg) {
  std::string m = msg ? msg : ""; for (auto& c : m) if (c == '\n' || c == '\r') c = '|';
  printf("error %s\n", m.c_str());
}
// returns true if the op was handled (one output line printed)
static inline bool drv_common(const std::vector<std::string>& t, const std::vector<std::string>& lines, size_t& i) {
  const std::string& op = t[0];
  auto I = [&](size_t k) { if (k >= t.size()) mk_die("missing argument for " + op); return atoi(t[k].c_str()); };
  if (op == "model" || op == "spec") {
    int slot = I(1); size_t j = i + 1;
    mjSpec* s = mk_spec(lines, j); i = j - 1;
    if (g_spec.count(slot)) { mj_deleteSpec(g_spec[slot]); g_spec.erase(slot); }
    g_spec[slot] = s;
    if (op == "spec") { printf("ok\n"); return true; }
    drv_free_model(slot);
    mjModel* m = nullptr;
    if (HX_TRY) { m = mj_compile(s, nullptr); HX_END; } else { drv_err(hx_err); return true; }
    if (!m) { drv_err(mjs_getError(s)); return true; }
    g_model[slot] = m; printf("ok\n"); return true;
  }
  if (op == "compile") {
    int ms = I(1), ss = I(2); drv_free_model(ms); mjModel* m = nullptr;
    if (HX_TRY) { m = mj_compile(g_spec.at(ss), nullptr); HX_END; } else { drv_err(hx_err); return true; }
    if (!m) { drv_err(mjs_getError(g_spec.at(ss))); return true; }
    g_model[ms] = m; printf("ok\n"); return true;
  }
  if (op == "recompile") {
    int ss = I(1), ms = I(2), ds = I(3); int r = -99;
    if (HX_TRY) { r = mj_recompile(g_spec.at(ss), nullptr, M(ms), D(ds)); HX_END; } else { drv_err(hx_err); return true; }
    printf("%d\n", r); return true;
  }
  if (op == "copymodel") { int a = I(1), b = I(2); drv_free_model(a); g_model[a] = mj_copyModel(nullptr, M(b)); printf("ok\n"); return true; }
  if (op == "data") {
    int ds = I(1), ms = I(2); drv_free_data(ds); mjData* d = nullptr;
    if (HX_TRY) { d = mj_makeData(M(ms)); HX_END; } else { drv_err(hx_err); return true; }
    if (!d) { printf("error null\n"); return true; }
    g_data[ds] = d; g_data_model[ds] = ms; printf("ok\n"); return true;
  }
  if (op == "copydata") {
    int a = I(1), b = I(2); mjData* dst = g_data.count(a) ? g_data[a] : nullptr;
    mjData* r = nullptr;
    if (HX_TRY) { r = mj_copyData(dst, MD(b), D(b)); HX_END; } else { drv_err(hx_err); return true; }
    g_data[a] = r; g_data_model[a] = g_data_model.at(b); printf("ok\n"); return true;
  }
  if (op == "free") { drv_free_data(I(1)); printf("ok\n"); return true; }
  if (op == "freemodel") { drv_free_model(I(1)); printf("ok\n"); return true; }
  // ---- pipeline calls
  {
    int ds = t.size() > 1 ? atoi(t[1].c_str()) : 0;
    bool handled = true;
    if (HX_TRY) {
      if (op == "reset") mj_resetData(MD(ds), D(ds));
      else if (op == "resetkey") mj_resetDataKeyframe(MD(ds), D(ds), I(2));
      else if (op == "step") { int n = t.size() > 2 ? I(2) : 1; for (int k = 0; k < n; k++) mj_step(MD(ds), D(ds)); }
      else if (op == "forward") mj_forward(MD(ds), D(ds));
      else if (op == "inverse") mj_inverse(MD(ds), D(ds));
      else if (op == "step1") mj_step1(MD(ds), D(ds));
      else if (op == "step2") mj_step2(MD(ds), D(ds));
      else if (op == "fwdskip") mj_forwardSkip(MD(ds), D(ds), I(2), I(3));
      else if (op == "invskip") mj_inverseSkip(MD(ds), D(ds), I(2), I(3));
      else if (op == "kinematics") mj_kinematics(MD(ds), D(ds));
      else if (op == "fwdPosition") mj_fwdPosition(MD(ds), D(ds));
      else if (op == "fwdVelocity") mj_fwdVelocity(MD(ds), D(ds));
      else if (op == "fwdActuation") mj_fwdActuation(MD(ds), D(ds));
      else if (op == "fwdAcceleration") mj_fwdAcceleration(MD(ds), D(ds));
      else if (op == "fwdConstraint") mj_fwdConstraint(MD(ds), D(ds));
      else if (op == "sensorPos") mj_sensorPos(MD(ds), D(ds));
      else if (op == "sensorVel") mj_sensorVel(MD(ds), D(ds));
      else if (op == "sensorAcc") mj_sensorAcc(MD(ds), D(ds));
      else if (op == "energyPos") mj_energyPos(MD(ds), D(ds));
      else if (op == "energyVel") mj_energyVel(MD(ds), D(ds));
      else if (op == "checkPos") mj_checkPos(MD(ds), D(ds));
      else if (op == "checkVel") mj_checkVel(MD(ds), D(ds));
      else if (op == "checkAcc") mj_checkAcc(MD(ds), D(ds));
      else if (op == "Euler") mj_Euler(MD(ds), D(ds));
      else if (op == "RungeKutta") mj_RungeKutta(MD(ds), D(ds), I(2));
      else if (op == "implicit") mj_implicit(MD(ds), D(ds));
      else if (op == "setConst") mj_setConst(M(ds), D(I(2)));
      else handled = false;
      HX_END;
    } else { drv_err(hx_err); return true; }
    if (handled) { printf("ok\n"); return true; }
  }
  if (op == "set" || op == "setv" || op == "get" || op == "getx") {
    int ds = I(1); DrvFld f; auto v = drv_data_fields(MD(ds), D(ds));
    if (!drv_find(v, t.at(2), f)) mk_die("unknown data field " + t.at(2));
    if (op == "set") { drv_write(f, (size_t)I(3), drv_num(t.at(4))); printf("ok\n"); }
    else if (op == "setv") { auto x = drv_nums(t.size() > 3 ? t[3] : ""); for (size_t k = 0; k < x.size(); k++) drv_write(f, k, x[k]); printf("ok\n"); }
    else if (op == "get") { printf("%zu", f.count); for (size_t k = 0; k < f.count; k++) { printf(" "); drv_print_num(drv_read(f, k)); } printf("\n"); }
    else { printf("%s\n", tohex(f.ptr, f.count * f.elsize).c_str()); }
    return true;
  }
  if (op == "mget" || op == "mset") {
    int ms = I(1); DrvFld f; auto v = drv_model_fields(M(ms));
    if (!drv_find(v, t.at(2), f)) mk_die("unknown model field " + t.at(2));
    if (op == "mset") { drv_write(f, (size_t)I(3), drv_num(t.at(4))); printf("ok\n"); }
    else { printf("%zu", f.count); for (size_t k = 0; k < f.count; k++) { printf(" "); drv_print_num(drv_read(f, k)); } printf("\n"); }
    return true;
  }
  if (op == "dscalar") {
    mjData* d = D(I(1)); const std::string& n = t.at(2);
#define X(type, name) if (n == #name) { drv_print_num((double)d->name); printf("\n"); return true; }
    MJDATA_SCALAR
#undef X
    if (n == "energy0") { drv_print_num(d->energy[0]); printf("\n"); return true; }
    if (n == "energy1") { drv_print_num(d->energy[1]); printf("\n"); return true; }
    if (n.rfind("warning", 0) == 0) { printf("%d\n", d->warning[atoi(n.c_str() + 7)].number); return true; }
    mk_die("unknown data scalar " + n);
  }
  if (op == "mscalar") {
    mjModel* m = M(I(1)); const std::string& n = t.at(2);
#define X(name) if (n == #name) { printf("%lld\n", (long long)m->name); return true; }
    MJMODEL_SIZES
#undef X
#define X(type, name, dim) if (n == "opt_" #name) { drv_print_num((double)m->opt.name); printf("\n"); return true; }
#define XVEC(type, name, dim)
    MJOPTION_FIELDS
#undef X
#undef XVEC
    mk_die("unknown model scalar " + n);
  }
  if (op == "optset") {
    mjModel* m = M(I(1)); const std::string& n = t.at(2);
    if (n == "gravity") { auto g = drv_nums(t.at(3)); for (int k = 0; k < 3; k++) m->opt.gravity[k] = g.at(k); printf("ok\n"); return true; }
    { double x = drv_num(t.at(3));
#define X(type, name, dim) if (n == #name) { m->opt.name = (type)x; printf("ok\n"); return true; }
#define XVEC(type, name, dim)
    MJOPTION_FIELDS
#undef X
#undef XVEC
    }
    mk_die("unknown option " + n);
  }
  if (op == "hash" || op == "cmp") {
    if (op == "hash") {
      int ds = I(1); uint64_t h = 0xcbf29ce484222325ULL; std::vector<unsigned char> b;
      for (auto& nm : drv_csv(t.at(2))) { if (!drv_field_bytes(MD(ds), D(ds), nm, b)) mk_die("unknown field " + nm); h = drv_fnv(h, b.data(), b.size()); }
      printf("%016llx\n", (unsigned long long)h); return true;
    }
    int a = I(1), b = I(2); std::vector<unsigned char> x, y;
    for (auto& nm : drv_csv(t.at(3))) {
      if (!drv_field_bytes(MD(a), D(a), nm, x) || !drv_field_bytes(MD(b), D(b), nm, y)) mk_die("unknown field " + nm);
      if (x != y) { printf("ne %s\n", nm.c_str()); return true; }
    }
    printf("eq\n"); return true;
  }
  if (op == "statesize") { printf("%d\n", mj_stateSize(M(I(1)), (unsigned)strtoul(t.at(2).c_str(), 0, 10))); return true; }
  if (op == "getstate" || op == "setstate") {
    int ds = I(1); unsigned sig = (unsigned)strtoul(t.at(2).c_str(), 0, 10);
    if (HX_TRY) {
      int n = mj_stateSize(MD(ds), sig); std::vector<mjtNum> buf(n > 0 ? n : 1);
      if (op == "getstate") { mj_getState(MD(ds), D(ds), buf.data(), sig); HX_END; printf("%d", n); for (int k = 0; k < n; k++) { printf(" "); drv_print_num(buf[k]); } printf("\n"); }
      else { auto x = drv_nums(t.size() > 3 ? t[3] : ""); if ((int)x.size() != n) mk_die("setstate: wrong length"); for (int k = 0; k < n; k++) buf[k] = x[k]; mj_setState(MD(ds), D(ds), buf.data(), sig); HX_END; printf("ok\n"); }
    } else drv_err(hx_err);
    return true;
  }
  if (op == "copystate") {
    int a = I(1), b = I(2); unsigned sig = (unsigned)strtoul(t.at(3).c_str(), 0, 10);
    if (HX_TRY) { mj_copyState(MD(a), D(b), D(a), sig); HX_END; printf("ok\n"); } else drv_err(hx_err);
    return true;
  }
  if (op == "contacts") {
    mjData* d = D(I(1)); printf("%d", d->ncon);
    for (int k = 0; k < d->ncon; k++) { printf(" %d:%d:", d->contact[k].geom[0], d->contact[k].geom[1]); drv_print_num(d->contact[k].dist); }
    printf("\n"); return true;
  }
  if (op == "name2id") { std::string n = unhex(t.at(3)); printf("%d\n", mj_name2id(M(I(1)), I(2), n.c_str())); return true; }
  if (op == "id2name") { const char* n = mj_id2name(M(I(1)), I(2), I(3)); if (!n) printf("null\n"); else printf("%s\n", tohex(n, strlen(n)).c_str()); return true; }
  return false;
}

// standard main loop; `extra` may be null
typedef bool (*DrvExtra)(const std::vector<std::string>& t, const std::vector<std::string>& lines, size_t& i);
static inline int drv_main(DrvExtra extra) {
  hx_install();
  std::vector<std::string> lines; std::string line;
  { char buf[1 << 16]; std::string acc;
    size_t n; while ((n = fread(buf, 1, sizeof buf, stdin)) > 0) acc.append(buf, n);
    size_t p = 0; while (p < acc.size()) { size_t q = acc.find('\n', p); if (q == std::string::npos) q = acc.size(); lines.push_back(acc.substr(p, q - p)); p = q + 1; } }
  for (size_t i = 0; i < lines.size(); i++) {
    auto t = split(lines[i]);
    if (t.empty()) continue;
    if (t[0] == "echo") { printf("%s\n", lines[i].c_str()); fflush(stdout); continue; }
    if (extra && extra(t, lines, i)) { fflush(stdout); continue; }
    if (drv_common(t, lines, i)) { fflush(stdout); continue; }
    printf("?unknown-op %s\n", t[0].c_str()); fflush(stdout);
  }
  return 0;
}
#endif
