// /verif harness (C13, C14, C16): collision pair selection, contact geometry, geom distance and ray casting.
// Shared ops of mjdrv_common.h plus (objects are addressed by NAME, so that the specification's numbering does
// not depend on the id order chosen by the compiler):
//   cpairs <d>                          -> "n g1:g2:excl ..."            contact list: geom names, in-gap flag
//   cinfo <d>                           -> "n g1:g2:dist:nx,ny,nz:px,py,pz:orth:incl:excl ..."
//                                          orth = 1 iff frame rows are orthonormal (1e-12) and right handed
//   movebody <d> <body> <x> <y> <z>     first slide/free joint qpos or mocap_pos of the body := value -> "ok"
//   slide <d> <body> <q>                qpos of the body's first joint := q                        -> "ok"
//   gdist <d> <g1> <g2> <distmax>       -> "dist fx,fy,fz,tx,ty,tz"      mj_geomDistance
//   ray <d> px,py,pz vx,vy,vz <groups|-> <flg_static> <bodyexclude name|-> -> "dist geom nx,ny,nz"
//                                          groups: 6 characters 0/1 (mjNGROUP), "-" = NULL pointer
//   rayn <d> ...same...                 mj_ray with normal == NULL, geomid == NULL -> "dist"
//   multiray <d> px,py,pz v1x,v1y,v1z;v2...  <groups|-> <flg_static> <bodyexclude|-> <cutoff>
//                                       -> "n dist:geom:nx,ny,nz ..."
//   raygeom <d> <geom> px,py,pz vx,vy,vz -> "dist nx,ny,nz"              mju_rayGeom on the geom's pose and size
#include "mjdrv_common.h"

static const char* gname(const mjModel* m, int g) {
  if (g < 0) return "-";
  const char* n = mj_id2name(m, mjOBJ_GEOM, g);
  return n ? n : "?";
}
static int gid(const mjModel* m, const std::string& n) {
  int g = mj_name2id(m, mjOBJ_GEOM, n.c_str());
  if (g < 0) mk_die("unknown geom " + n);
  return g;
}
static int bid(const mjModel* m, const std::string& n) {
  if (n == "-") return -1;
  int b = mj_name2id(m, mjOBJ_BODY, n.c_str());
  if (b < 0) mk_die("unknown body " + n);
  return b;
}
static void p3(const mjtNum* v) { drv_print_num(v[0]); printf(","); drv_print_num(v[1]); printf(","); drv_print_num(v[2]); }
static bool v3(const std::string& s, mjtNum* out) {
  auto x = drv_nums(s); if (x.size() != 3) mk_die("need 3 numbers: " + s);
  out[0] = x[0]; out[1] = x[1]; out[2] = x[2]; return true;
}
static const mjtByte* groups(const std::string& s, mjtByte* buf) {
  if (s == "-") return nullptr;
  if ((int)s.size() != mjNGROUP) mk_die("group mask needs mjNGROUP characters");
  for (int i = 0; i < mjNGROUP; i++) buf[i] = (mjtByte)(s[i] == '1');
  return buf;
}
static int orthonormal(const mjtNum* f) {
  for (int i = 0; i < 3; i++) for (int j = 0; j < 3; j++) {
    mjtNum dot = f[3*i]*f[3*j] + f[3*i+1]*f[3*j+1] + f[3*i+2]*f[3*j+2];
    if (fabs(dot - (i == j ? 1.0 : 0.0)) > 1e-12) return 0;
  }
  mjtNum c[3] = {f[1]*f[5] - f[2]*f[4], f[2]*f[3] - f[0]*f[5], f[0]*f[4] - f[1]*f[3]};   // row0 x row1
  for (int k = 0; k < 3; k++) if (fabs(c[k] - f[6+k]) > 1e-12) return 0;
  return 1;
}

static bool extra(const std::vector<std::string>& t, const std::vector<std::string>& lines, size_t& i) {
  const std::string& op = t[0];
  auto I = [&](size_t k) { if (k >= t.size()) mk_die("missing argument for " + op); return atoi(t[k].c_str()); };
  if (op == "cpairs") {
    mjData* d = D(I(1)); const mjModel* m = MD(I(1));
    printf("%d", d->ncon);
    for (int k = 0; k < d->ncon; k++)
      printf(" %s:%s:%d", gname(m, d->contact[k].geom[0]), gname(m, d->contact[k].geom[1]), d->contact[k].exclude);
    printf("\n"); return true;
  }
  if (op == "cinfo") {
    mjData* d = D(I(1)); const mjModel* m = MD(I(1));
    printf("%d", d->ncon);
    for (int k = 0; k < d->ncon; k++) {
      const mjContact& c = d->contact[k];
      printf(" %s:%s:", gname(m, c.geom[0]), gname(m, c.geom[1])); drv_print_num(c.dist);
      printf(":"); p3(c.frame); printf(":"); p3(c.pos);
      printf(":%d:", orthonormal(c.frame)); drv_print_num(c.includemargin); printf(":%d", c.exclude);
    }
    printf("\n"); return true;
  }
  if (op == "movebody" || op == "slide") {
    mjData* d = D(I(1)); const mjModel* m = MD(I(1)); int b = bid(m, t.at(2));
    if (op == "slide") {
      if (m->body_jntnum[b] < 1) mk_die("slide: body has no joint");
      d->qpos[m->jnt_qposadr[m->body_jntadr[b]]] = drv_num(t.at(3)); printf("ok\n"); return true;
    }
    mjtNum p[3] = {drv_num(t.at(3)), drv_num(t.at(4)), drv_num(t.at(5))};
    if (m->body_mocapid[b] >= 0) { for (int k = 0; k < 3; k++) d->mocap_pos[3*m->body_mocapid[b]+k] = p[k]; }
    else if (m->body_jntnum[b] >= 1 && m->jnt_type[m->body_jntadr[b]] == mjJNT_FREE) {
      for (int k = 0; k < 3; k++) d->qpos[m->jnt_qposadr[m->body_jntadr[b]]+k] = p[k];
    } else mk_die("movebody: body is neither mocap nor free");
    printf("ok\n"); return true;
  }
  if (op == "gdist") {
    mjData* d = D(I(1)); const mjModel* m = MD(I(1));
    int g1 = gid(m, t.at(2)), g2 = gid(m, t.at(3)); mjtNum ft[6];
    mjtNum r = 0;
    if (HX_TRY) { r = mj_geomDistance(m, d, g1, g2, drv_num(t.at(4)), ft); HX_END; } else { drv_err(hx_err); return true; }
    drv_print_num(r); printf(" "); p3(ft); printf(","); p3(ft + 3); printf("\n"); return true;
  }
  if (op == "ray" || op == "rayn") {
    mjData* d = D(I(1)); const mjModel* m = MD(I(1));
    mjtNum pnt[3], vec[3], nrm[3] = {9, 9, 9}; v3(t.at(2), pnt); v3(t.at(3), vec);
    mjtByte gb[mjNGROUP]; const mjtByte* gg = groups(t.at(4), gb);
    int flg = I(5), bx = bid(m, t.at(6)), g = -7; mjtNum r = 0;
    if (HX_TRY) {
      if (op == "ray") r = mj_ray(m, d, pnt, vec, gg, (mjtBool)flg, bx, &g, nrm);
      else r = mj_ray(m, d, pnt, vec, gg, (mjtBool)flg, bx, nullptr, nullptr);
      HX_END;
    } else { drv_err(hx_err); return true; }
    drv_print_num(r);
    if (op == "ray") { printf(" %s ", g == -7 ? "unset" : gname(m, g)); p3(nrm); }
    printf("\n"); return true;
  }
  if (op == "multiray") {
    mjData* d = D(I(1)); const mjModel* m = MD(I(1));
    mjtNum pnt[3]; v3(t.at(2), pnt);
    std::vector<mjtNum> vec; { size_t p = 0; const std::string& s = t.at(3);
      while (p <= s.size()) { size_t q = s.find(';', p); if (q == std::string::npos) q = s.size();
        if (q > p) { mjtNum v[3]; v3(s.substr(p, q - p), v); vec.insert(vec.end(), v, v + 3); } p = q + 1; } }
    int n = (int)vec.size() / 3;
    mjtByte gb[mjNGROUP]; const mjtByte* gg = groups(t.at(4), gb);
    int flg = I(5), bx = bid(m, t.at(6)); mjtNum cutoff = drv_num(t.at(7));
    std::vector<int> g(n, -7); std::vector<mjtNum> dist(n, -77), nrm(3 * n, 9);
    if (HX_TRY) { mj_multiRay(m, d, pnt, vec.data(), gg, (mjtBool)flg, bx, g.data(), dist.data(), nrm.data(), n, cutoff); HX_END; }
    else { drv_err(hx_err); return true; }
    printf("%d", n);
    for (int k = 0; k < n; k++) { printf(" "); drv_print_num(dist[k]); printf(":%s:", g[k] == -7 ? "unset" : gname(m, g[k])); p3(&nrm[3*k]); }
    printf("\n"); return true;
  }
  if (op == "raygeom") {
    mjData* d = D(I(1)); const mjModel* m = MD(I(1)); int g = gid(m, t.at(2));
    mjtNum pnt[3], vec[3], nrm[3] = {9, 9, 9}; v3(t.at(3), pnt); v3(t.at(4), vec); mjtNum r = 0;
    if (HX_TRY) { r = mju_rayGeom(d->geom_xpos + 3*g, d->geom_xmat + 9*g, m->geom_size + 3*g, pnt, vec, m->geom_type[g], nrm); HX_END; }
    else { drv_err(hx_err); return true; }
    drv_print_num(r); printf(" "); p3(nrm); printf("\n"); return true;
  }
  return false;
}
int main() { return drv_main(extra); }
