// /verif harness for the exact-rational "law" checks C05 (tla/Integrators.tla), C27 (tla/Actuation.tla) and
// C51 (tla/Pid.tla): tiny slide-joint models, state written field by field, one mj_step / mj_forward per case,
// results printed with %.17g (round-trip exact) so the comparer can decide exact equality against the rationals
// TLC computed.
//
// ops in addition to mjdrv_common.h (one output line each):
//   lmodel <m> ... end        mkmodel.h description; extra lines
//                               xpid actuator=<name> [kp=..] [ki=..] [kd=..] [imax=..] [slewmax=..]
//                             attach an instance of the first-party plugin mujoco.pid (registered from the working
//                             tree's plugin/actuator/pid.cc) to the named actuator, config given as strings
//                             -> "ok nq nv nu na nplugin" | "error <msg>"
//                               xcable bodies=<b1,b2,..> twist=.. bend=.. flat=true|false vmax=0
//                             put the listed bodies under one instance of mujoco.elasticity.cable (registered from
//                             the working tree's plugin/elasticity/cable.cc, compiled into this harness)
//   ldata <d> <m>             mj_makeData -> "ok" | "error <msg>" (plugin init failure is reported, not fatal)
//   st <d> k=v ...            mj_resetData, then write: time=<x> and any mjData array field (qpos=1,2 ctrl=.. act=..)
//   stk <d> k=v ...           same without the reset (keeps the rest of mjData: multi-step behaviours)
//   obs <d> f1,f2,...         -> values of the fields (time and array fields) "f1:v,v|f2:v|..."
//   sobs <d> <n> f1,f2,...    n x mj_step, then obs (error -> "error <msg>")
//   fobs <d> f1,f2,...        mj_forward, then obs
//   wobs <d> f1,f2,...        number of warnings raised so far | obs  (bad-ctrl etc.)
#include "mjdrv_common.h"
#include "pid.h"
#include "cable.h"

static mjSpec* l_spec(const std::vector<std::string>& desc) {
  std::vector<std::string> plain, pid, cable;
  for (auto& l : desc) (l.rfind("xpid ", 0) == 0 ? pid : l.rfind("xcable ", 0) == 0 ? cable : plain).push_back(l);
  plain.push_back("end");
  size_t j = 0; mjSpec* s = mk_spec(plain, j);
  int n = 0;
  for (auto& l : pid) {
    std::string kind; std::vector<std::pair<std::string, std::string>> kv; mk_parse_line(l, kind, kv);
    std::string an = mk_take(kv, "actuator");
    mjsElement* e = mjs_findElement(s, mjOBJ_ACTUATOR, an.c_str()); if (!e) mk_die("xpid: unknown actuator " + an);
    if (mjs_activatePlugin(s, "mujoco.pid")) mk_die("xpid: plugin mujoco.pid is not registered");
    mjsPlugin* p = mjs_addPlugin(s);
    std::string in = "pid" + std::to_string(n++);
    mjs_setName(p->element, in.c_str());
    mjs_setString(p->plugin_name, "mujoco.pid");
    p->active = 1;
    std::map<std::string, std::string, std::less<>> attr;
    for (auto& q : kv) attr[q.first] = q.second;
    mjs_setPluginAttributes(p, &attr);
    mjsActuator* a = mjs_asActuator(e);
    mjs_setString(a->plugin.plugin_name, "mujoco.pid");
    mjs_setString(a->plugin.name, in.c_str());
    a->plugin.active = 1;
  }
  int nc = 0;
  for (auto& l : cable) {
    std::string kind; std::vector<std::pair<std::string, std::string>> kv; mk_parse_line(l, kind, kv);
    std::string bodies = mk_take(kv, "bodies");
    if (mjs_activatePlugin(s, "mujoco.elasticity.cable")) mk_die("xcable: plugin mujoco.elasticity.cable is not registered");
    mjsPlugin* p = mjs_addPlugin(s);
    std::string in = "cable" + std::to_string(nc++);
    mjs_setName(p->element, in.c_str());
    mjs_setString(p->plugin_name, "mujoco.elasticity.cable");
    p->active = 1;
    std::map<std::string, std::string, std::less<>> attr;
    for (auto& q : kv) attr[q.first] = q.second;
    mjs_setPluginAttributes(p, &attr);
    for (auto& bn : drv_csv(bodies)) {
      mjsBody* b = mjs_findBody(s, bn.c_str()); if (!b) mk_die("xcable: unknown body " + bn);
      mjs_setString(b->plugin.plugin_name, "mujoco.elasticity.cable");
      mjs_setString(b->plugin.name, in.c_str());
      b->plugin.active = 1;
    }
  }
  return s;
}

static void l_obs(int ds, const std::string& flds) {
  mjModel* m = MD(ds); mjData* d = D(ds);
  auto v = drv_data_fields(m, d);
  bool first = true;
  for (auto& nm : drv_csv(flds)) {
    if (!first) printf("|"); first = false;
    printf("%s:", nm.c_str());
    if (nm == "time") { drv_print_num(d->time); continue; }
    DrvFld f; if (!drv_find(v, nm, f)) mk_die("unknown data field " + nm);
    for (size_t k = 0; k < f.count; k++) { if (k) printf(","); drv_print_num(drv_read(f, k)); }
  }
  printf("\n");
}

static bool l_extra(const std::vector<std::string>& t, const std::vector<std::string>& lines, size_t& i) {
  const std::string& op = t[0];
  if (op == "lmodel") {
    int slot = atoi(t.at(1).c_str());
    std::vector<std::string> desc; size_t j = i + 1;
    for (; j < lines.size() && lines[j] != "end"; j++) desc.push_back(lines[j]);
    i = j;
    mjSpec* s = l_spec(desc);
    // data slots built on the old model of this slot must go first
    std::vector<int> dead; for (auto& kv : g_data_model) if (kv.second == slot && g_data.count(kv.first)) dead.push_back(kv.first);
    for (int ds : dead) drv_free_data(ds);
    if (g_spec.count(slot)) mj_deleteSpec(g_spec[slot]);
    g_spec[slot] = s; drv_free_model(slot);
    mjModel* m = nullptr;
    if (HX_TRY) { m = mj_compile(s, nullptr); HX_END; } else { drv_err(hx_err); return true; }
    if (!m) { drv_err(mjs_getError(s)); return true; }
    g_model[slot] = m;
    printf("ok %lld %lld %lld %lld %lld\n", (long long)m->nq, (long long)m->nv, (long long)m->nu, (long long)m->na,
           (long long)m->nplugin);
    return true;
  }
  if (op == "ldata") {
    int ds = atoi(t.at(1).c_str()), ms = atoi(t.at(2).c_str()); drv_free_data(ds); mjData* d = nullptr;
    if (HX_TRY) { d = mj_makeData(M(ms)); HX_END; } else { drv_err(hx_err); return true; }
    if (!d) { printf("error null\n"); return true; }
    g_data[ds] = d; g_data_model[ds] = ms; printf("ok\n"); return true;
  }
  if (op == "st" || op == "stk") {
    int ds = atoi(t.at(1).c_str()); mjModel* m = MD(ds); mjData* d = D(ds);
    if (op == "st") {
      if (HX_TRY) { mj_resetData(m, d); HX_END; } else { drv_err(hx_err); return true; }
    }
    auto v = drv_data_fields(m, d);
    for (size_t k = 2; k < t.size(); k++) {
      size_t e = t[k].find('='); if (e == std::string::npos) mk_die("st: token without '='");
      std::string key = t[k].substr(0, e), val = t[k].substr(e + 1);
      if (key == "time") { d->time = drv_num(val); continue; }
      DrvFld f; if (!drv_find(v, key, f)) mk_die("unknown data field " + key);
      auto x = drv_nums(val);
      if (x.size() != f.count) mk_die("st: wrong length for " + key);
      for (size_t q = 0; q < x.size(); q++) drv_write(f, q, x[q]);
    }
    printf("ok\n"); return true;
  }
  if (op == "obs") { l_obs(atoi(t.at(1).c_str()), t.at(2)); return true; }
  if (op == "sobs") {
    int ds = atoi(t.at(1).c_str()), n = atoi(t.at(2).c_str());
    if (HX_TRY) { for (int k = 0; k < n; k++) mj_step(MD(ds), D(ds)); HX_END; } else { drv_err(hx_err); return true; }
    l_obs(ds, t.at(3)); return true;
  }
  if (op == "fobs") {
    int ds = atoi(t.at(1).c_str());
    if (HX_TRY) { mj_forward(MD(ds), D(ds)); HX_END; } else { drv_err(hx_err); return true; }
    l_obs(ds, t.at(2)); return true;
  }
  if (op == "wobs") {
    int ds = atoi(t.at(1).c_str()); mjData* d = D(ds); int n = 0;
    for (int k = 0; k < mjNWARNING; k++) n += d->warning[k].number;
    printf("%d|", n); l_obs(ds, t.at(2)); return true;
  }
  return false;
}

int main() {
  mujoco::plugin::actuator::Pid::RegisterPlugin();
  mujoco::plugin::elasticity::Cable::RegisterPlugin();
  return drv_main(l_extra);
}
