// /verif harness for C22 (tla/Sort.tla, checks/c22.py): instantiates mjSORT / mjPARTIAL_SORT from the UNMODIFIED
// header src/engine/engine_sort.h for several values of _mjRUNSIZE (macros expand at instantiation, so the
// macro is redefined between instantiations) and two element types, and calls mju_insertionSort(Int).
//
// protocol (one output line per command):
//   sort  <run> <keys>     mjSORT over a 24-byte struct {key, tag, pay}, comparator on key   run in {2,3,4,32}
//   sorti <run> <keys>     mjSORT over int (value = key * 4096 + tag, comparator on value >> 12)
//   psort <k> <keys>       mjPARTIAL_SORT over the struct, buf has exactly k cells
//   isortd <keys> | isorti <keys>     mju_insertionSort / mju_insertionSortInt on the plain keys
// <keys> = comma separated integers or "-" for the empty array; element i gets tag i.
// answer: "ok <tags> <keys>" (the n output cells, for psort the first k; "-" when empty; isort*: tags "-")
//      or "bad <reason>" when a guard cell around arr/buf was overwritten, an output element is not an intact
//         input element (payload/key do not belong to its tag), or the comparator got a wrong context.
#include <string.h>
#include <math.h>
#include <iostream>
#include <string>
#include <vector>
#include "hx.h"
#include "engine/engine_sort.h"

struct Elem { int key; int tag; double pay; };
struct Ctx { int magic; long ncmp; int bad; };
static inline int elemcmp(const Elem* a, const Elem* b, void* context) {
  Ctx* c = (Ctx*)context;
  if (!c || c->magic != 0x5eed) { if (c) c->bad = 1; return 0; }
  c->ncmp++;
  return (a->key > b->key) - (a->key < b->key);
}
static inline int intcmp(const int* a, const int* b, void* context) {
  Ctx* c = (Ctx*)context;
  if (!c || c->magic != 0x5eed) { if (c) c->bad = 1; return 0; }
  c->ncmp++;
  int x = *a >> 12, y = *b >> 12;
  return (x > y) - (x < y);
}

// the header's own run size (32)
mjSORT(sortE_hdr, Elem, elemcmp);
mjSORT(sortI_hdr, int, intcmp);
mjPARTIAL_SORT(psortE, Elem, elemcmp);
static const int kHeaderRun = _mjRUNSIZE;
#undef _mjRUNSIZE
#define _mjRUNSIZE 2
mjSORT(sortE_2, Elem, elemcmp);
mjSORT(sortI_2, int, intcmp);
#undef _mjRUNSIZE
#define _mjRUNSIZE 3
mjSORT(sortE_3, Elem, elemcmp);
mjSORT(sortI_3, int, intcmp);
#undef _mjRUNSIZE
#define _mjRUNSIZE 4
mjSORT(sortE_4, Elem, elemcmp);
mjSORT(sortI_4, int, intcmp);
#undef _mjRUNSIZE
#define _mjRUNSIZE 32

static std::vector<int> csv(const std::string& s) {
  std::vector<int> v; if (s == "-") return v;
  size_t i = 0;
  while (i <= s.size()) { size_t j = s.find(',', i); if (j == std::string::npos) j = s.size();
    if (j > i) v.push_back(atoi(s.substr(i, j - i).c_str())); i = j + 1; }
  return v;
}
static void print_list(const std::vector<int>& v) {
  if (v.empty()) { printf("-"); return; }
  for (size_t i = 0; i < v.size(); i++) printf(i ? ",%d" : "%d", v[i]);
}
static const int G = 4;                      // guard cells on each side
static const Elem GUARD_E = {0x7a7a7a7a, -7, -7.5};
static const int GUARD_I = 0x7b7b7b7b;
static double pay_of(int key, int tag) { return key * 1000.0 + tag + 0.25; }

int main() {
  hx_install();
  std::string line;
  while (std::getline(std::cin, line)) {
    auto t = split(line);
    if (t.empty()) continue;
    const std::string& op = t[0];
    Ctx ctx = {0x5eed, 0, 0};
    if (op == "sort" || op == "psort") {
      int prm = atoi(t.at(1).c_str());
      std::vector<int> keys = csv(t.at(2));
      int n = (int)keys.size();
      int nbuf = op == "sort" ? n : ((prm >= 1 && prm <= n) ? prm : 0);
      std::vector<Elem> a(n + 2 * G, GUARD_E), b(nbuf + 2 * G, GUARD_E);
      for (int i = 0; i < n; i++) a[G + i] = Elem{keys[i], i, pay_of(keys[i], i)};
      for (int i = 0; i < nbuf; i++) b[G + i] = Elem{-99, -99, -99.0};     // "uninitialised" scratch
      if (op == "sort") {
        if (prm == 2) sortE_2(a.data() + G, b.data() + G, n, &ctx);
        else if (prm == 3) sortE_3(a.data() + G, b.data() + G, n, &ctx);
        else if (prm == 4) sortE_4(a.data() + G, b.data() + G, n, &ctx);
        else if (prm == kHeaderRun) sortE_hdr(a.data() + G, b.data() + G, n, &ctx);
        else { printf("bad unsupported-run\n"); fflush(stdout); continue; }
      } else {
        psortE(a.data() + G, b.data() + G, n, prm, &ctx);
      }
      const char* bad = nullptr;
      for (int i = 0; i < G; i++) {
        if (memcmp(&a[i], &GUARD_E, sizeof(Elem)) || memcmp(&a[G + n + i], &GUARD_E, sizeof(Elem))) bad = "guard-arr";
        if (memcmp(&b[i], &GUARD_E, sizeof(Elem)) || memcmp(&b[G + nbuf + i], &GUARD_E, sizeof(Elem))) bad = "guard-buf";
      }
      if (ctx.bad) bad = "context";
      int nout = op == "sort" ? n : nbuf;
      std::vector<int> tags, okeys;
      for (int i = 0; i < nout; i++) {
        const Elem& e = a[G + i];
        if (e.tag < 0 || e.tag >= n || keys[e.tag] != e.key || e.pay != pay_of(e.key, e.tag)) bad = "element-not-from-input";
        tags.push_back(e.tag); okeys.push_back(e.key);
      }
      if (bad) { printf("bad %s\n", bad); fflush(stdout); continue; }
      printf("ok "); print_list(tags); printf(" "); print_list(okeys); printf("\n");
    } else if (op == "sorti") {
      int prm = atoi(t.at(1).c_str());
      std::vector<int> keys = csv(t.at(2));
      int n = (int)keys.size();
      std::vector<int> a(n + 2 * G, GUARD_I), b(n + 2 * G, GUARD_I);
      for (int i = 0; i < n; i++) { a[G + i] = keys[i] * 4096 + i; b[G + i] = -1; }
      if (prm == 2) sortI_2(a.data() + G, b.data() + G, n, &ctx);
      else if (prm == 3) sortI_3(a.data() + G, b.data() + G, n, &ctx);
      else if (prm == 4) sortI_4(a.data() + G, b.data() + G, n, &ctx);
      else if (prm == kHeaderRun) sortI_hdr(a.data() + G, b.data() + G, n, &ctx);
      else { printf("bad unsupported-run\n"); fflush(stdout); continue; }
      const char* bad = nullptr;
      for (int i = 0; i < G; i++) {
        if (a[i] != GUARD_I || a[G + n + i] != GUARD_I) bad = "guard-arr";
        if (b[i] != GUARD_I || b[G + n + i] != GUARD_I) bad = "guard-buf";
      }
      if (ctx.bad) bad = "context";
      std::vector<int> tags, okeys;
      for (int i = 0; i < n; i++) {
        int v = a[G + i], tag = v & 4095, key = v >> 12;
        if (v < 0 || tag >= n || keys[tag] != key) bad = "element-not-from-input";
        tags.push_back(tag); okeys.push_back(key);
      }
      if (bad) { printf("bad %s\n", bad); fflush(stdout); continue; }
      printf("ok "); print_list(tags); printf(" "); print_list(okeys); printf("\n");
    } else if (op == "isortd" || op == "isorti") {
      std::vector<int> keys = csv(t.at(1));
      int n = (int)keys.size();
      std::vector<int> okeys;
      const char* bad = nullptr;
      if (op == "isortd") {
        std::vector<mjtNum> a(n + 2 * G, -7.5);
        for (int i = 0; i < n; i++) a[G + i] = keys[i];
        mju_insertionSort(a.data() + G, n);
        for (int i = 0; i < G; i++) if (a[i] != -7.5 || a[G + n + i] != -7.5) bad = "guard-arr";
        for (int i = 0; i < n; i++) { if (a[G + i] != floor(a[G + i])) bad = "element-not-from-input"; okeys.push_back((int)a[G + i]); }
      } else {
        std::vector<int> a(n + 2 * G, GUARD_I);
        for (int i = 0; i < n; i++) a[G + i] = keys[i];
        mju_insertionSortInt(a.data() + G, n);
        for (int i = 0; i < G; i++) if (a[i] != GUARD_I || a[G + n + i] != GUARD_I) bad = "guard-arr";
        for (int i = 0; i < n; i++) okeys.push_back(a[G + i]);
      }
      if (bad) { printf("bad %s\n", bad); fflush(stdout); continue; }
      printf("ok - "); print_list(okeys); printf("\n");
    } else {
      printf("?\n");
    }
    fflush(stdout);
  }
  return 0;
}
