// /verif harness: build an mjSpec from a small line-based model description (one element per line,
// `kind key=value ...`, numbers comma separated), through the public mjSpec C API only.
//
//   option timestep=0.25 gravity=0,0,-1 integrator=0 disableflags=0 enableflags=0 ...   (any mjOption field below)
//   size memory=4096 nuserdata=2 nkey=0
//   compiler fusestatic=0 usethread=1 ...
//   body name=b1 parent=world pos=0,0,1 quat=1,0,0,0 mocap=0 gravcomp=0 mass=.. ipos=.. inertia=..
//   joint body=b1 name=j1 type=2 axis=0,0,1 ...          (type: 0 free 1 ball 2 slide 3 hinge)
//   geom body=b1 name=g1 type=2 size=1,0,0 ...           (type: 0 plane 2 sphere 3 capsule 4 ellipsoid 5 cylinder 6 box 7 mesh)
//   site body=b1 name=s1 pos=..
//   mesh name=m1 uservert=... userface=...
//   actuator name=a1 trntype=0 target=j1 gaintype=0 gainprm=1 ...
//   sensor name=s type=.. objtype=.. objname=..
//   equality name=e type=.. objtype=.. name1=.. name2=.. data=..
//   pair geomname1=.. geomname2=..      exclude bodyname1=.. bodyname2=..
//   tendon name=t  + wrapjoint tendon=t joint=j coef=1 | wrapsite tendon=t site=s
//   key name=k time=0 qpos=.. qvel=.. act=.. ctrl=.. mpos=.. mquat=..
//   numeric name=n size=3 data=1,2,3     text name=t data=abc
// Unknown kinds or keys are a hard error (the harness prints MKMODEL-ERROR and exits 4): never silently ignored.
#ifndef VERIF_MKMODEL_H
#define VERIF_MKMODEL_H
#include <mujoco/mujoco.h>
#include <stddef.h>
#include <stdio.h>
#include <stdlib.h>
#include <string.h>
#include <map>
#include <string>
#include <vector>

struct MkField { const char* name; char kind; size_t off; int n; };
#define MKF(S, f, k, n) {#f, k, offsetof(S, f), n}
#define MKFN(S, nm, f, k, n) {nm, k, offsetof(S, f), n}

static inline void mk_die(const std::string& msg) {
  printf("MKMODEL-ERROR %s\n", msg.c_str()); fflush(stdout); exit(4);
}
static inline std::vector<double> mk_nums(const std::string& v) {
  std::vector<double> out; size_t i = 0;
  while (i <= v.size()) {
    size_t j = v.find(',', i); if (j == std::string::npos) j = v.size();
    std::string t = v.substr(i, j - i);
    if (!t.empty()) {
      char* e = nullptr; double x = strtod(t.c_str(), &e);
      if (*e) mk_die("bad number '" + t + "'");
      out.push_back(x);
    }
    i = j + 1;
  }
  return out;
}
static inline bool mk_set(void* base, const MkField* tab, const std::string& key, const std::string& val) {
  for (const MkField* f = tab; f->name; f++) {
    if (key != f->name) continue;
    char* p = (char*)base + f->off;
    switch (f->kind) {
      case 'd': { auto x = mk_nums(val); if ((int)x.size() > f->n) mk_die("too many values for " + key);
                  for (size_t i = 0; i < x.size(); i++) ((double*)p)[i] = x[i]; break; }
      case 'f': { auto x = mk_nums(val); if ((int)x.size() > f->n) mk_die("too many values for " + key);
                  for (size_t i = 0; i < x.size(); i++) ((float*)p)[i] = (float)x[i]; break; }
      case 'i': { auto x = mk_nums(val); if ((int)x.size() > f->n) mk_die("too many values for " + key);
                  for (size_t i = 0; i < x.size(); i++) ((int*)p)[i] = (int)x[i]; break; }
      case 'b': { auto x = mk_nums(val); *(unsigned char*)p = (unsigned char)x.at(0); break; }
      case 'z': { auto x = mk_nums(val); *(mjtSize*)p = (mjtSize)x.at(0); break; }
      case 's': mjs_setString(*(mjString**)p, val.c_str()); break;
      case 'v': { auto x = mk_nums(val); mjs_setDouble(*(mjDoubleVec**)p, x.data(), (int)x.size()); break; }
      case 'F': { auto x = mk_nums(val); std::vector<float> y(x.begin(), x.end());
                  mjs_setFloat(*(mjFloatVec**)p, y.data(), (int)y.size()); break; }
      case 'I': { auto x = mk_nums(val); std::vector<int> y; for (double d : x) y.push_back((int)d);
                  mjs_setInt(*(mjIntVec**)p, y.data(), (int)y.size()); break; }
      default: mk_die("bad field kind");
    }
    return true;
  }
  return false;
}

static const MkField MK_OPTION[] = {
  MKF(mjOption, timestep, 'd', 1), MKF(mjOption, impratio, 'd', 1), MKF(mjOption, tolerance, 'd', 1),
  MKF(mjOption, ls_tolerance, 'd', 1), MKF(mjOption, noslip_tolerance, 'd', 1), MKF(mjOption, ccd_tolerance, 'd', 1),
  MKF(mjOption, sleep_tolerance, 'd', 1),
  MKF(mjOption, gravity, 'd', 3), MKF(mjOption, wind, 'd', 3), MKF(mjOption, magnetic, 'd', 3),
  MKF(mjOption, density, 'd', 1), MKF(mjOption, viscosity, 'd', 1),
  MKF(mjOption, o_margin, 'd', 1), MKF(mjOption, o_solref, 'd', 2), MKF(mjOption, o_solimp, 'd', 5),
  MKF(mjOption, o_friction, 'd', 5),
  MKF(mjOption, integrator, 'i', 1), MKF(mjOption, cone, 'i', 1), MKF(mjOption, jacobian, 'i', 1),
  MKF(mjOption, solver, 'i', 1), MKF(mjOption, iterations, 'i', 1), MKF(mjOption, ls_iterations, 'i', 1),
  MKF(mjOption, noslip_iterations, 'i', 1), MKF(mjOption, ccd_iterations, 'i', 1),
  MKF(mjOption, disableflags, 'i', 1), MKF(mjOption, enableflags, 'i', 1), MKF(mjOption, disableactuator, 'i', 1),
  MKF(mjOption, sdf_initpoints, 'i', 1), MKF(mjOption, sdf_iterations, 'i', 1), {0, 0, 0, 0}};
static const MkField MK_SIZE[] = {
  MKF(mjSpec, memory, 'z', 1), MKF(mjSpec, nemax, 'i', 1), MKF(mjSpec, nuserdata, 'i', 1), MKF(mjSpec, nuser_body, 'i', 1),
  MKF(mjSpec, nuser_jnt, 'i', 1), MKF(mjSpec, nuser_geom, 'i', 1), MKF(mjSpec, nuser_site, 'i', 1),
  MKF(mjSpec, nuser_actuator, 'i', 1), MKF(mjSpec, nuser_sensor, 'i', 1), MKF(mjSpec, nkey, 'i', 1),
  MKF(mjSpec, njmax, 'i', 1), MKF(mjSpec, nconmax, 'i', 1), MKF(mjSpec, modelname, 's', 1), {0, 0, 0, 0}};
static const MkField MK_COMPILER[] = {
  MKF(mjsCompiler, autolimits, 'b', 1), MKF(mjsCompiler, boundmass, 'd', 1), MKF(mjsCompiler, boundinertia, 'd', 1),
  MKF(mjsCompiler, settotalmass, 'd', 1), MKF(mjsCompiler, balanceinertia, 'b', 1), MKF(mjsCompiler, degree, 'b', 1),
  MKF(mjsCompiler, discardvisual, 'b', 1), MKF(mjsCompiler, usethread, 'b', 1), MKF(mjsCompiler, fusestatic, 'b', 1),
  MKF(mjsCompiler, inertiafromgeom, 'i', 1), MKF(mjsCompiler, alignfree, 'b', 1), MKF(mjsCompiler, saveinertial, 'b', 1),
  {0, 0, 0, 0}};
static const MkField MK_BODY[] = {
  MKF(mjsBody, pos, 'd', 3), MKF(mjsBody, quat, 'd', 4), MKF(mjsBody, mass, 'd', 1), MKF(mjsBody, ipos, 'd', 3),
  MKF(mjsBody, iquat, 'd', 4), MKF(mjsBody, inertia, 'd', 3), MKF(mjsBody, fullinertia, 'd', 6),
  MKF(mjsBody, mocap, 'b', 1), MKF(mjsBody, gravcomp, 'd', 1), MKF(mjsBody, sleep, 'i', 1),
  MKF(mjsBody, explicitinertial, 'b', 1), MKF(mjsBody, userdata, 'v', 1), MKF(mjsBody, childclass, 's', 1),
  MKFN(mjsBody, "alt_type", alt.type, 'i', 1), MKFN(mjsBody, "axisangle", alt.axisangle, 'd', 4),
  MKFN(mjsBody, "xyaxes", alt.xyaxes, 'd', 6), MKFN(mjsBody, "zaxis", alt.zaxis, 'd', 3),
  MKFN(mjsBody, "euler", alt.euler, 'd', 3), {0, 0, 0, 0}};
static const MkField MK_FRAME[] = {
  MKF(mjsFrame, pos, 'd', 3), MKF(mjsFrame, quat, 'd', 4), MKF(mjsFrame, childclass, 's', 1),
  MKFN(mjsFrame, "alt_type", alt.type, 'i', 1), MKFN(mjsFrame, "axisangle", alt.axisangle, 'd', 4),
  MKFN(mjsFrame, "xyaxes", alt.xyaxes, 'd', 6), MKFN(mjsFrame, "zaxis", alt.zaxis, 'd', 3),
  MKFN(mjsFrame, "euler", alt.euler, 'd', 3), {0, 0, 0, 0}};
static const MkField MK_JOINT[] = {
  MKF(mjsJoint, type, 'i', 1), MKF(mjsJoint, pos, 'd', 3), MKF(mjsJoint, axis, 'd', 3), MKF(mjsJoint, ref, 'd', 1),
  MKF(mjsJoint, align, 'i', 1), MKF(mjsJoint, stiffness, 'd', mjNPOLY + 1), MKF(mjsJoint, springref, 'd', 1),
  MKF(mjsJoint, springdamper, 'd', 2), MKF(mjsJoint, limited, 'i', 1), MKF(mjsJoint, range, 'd', 2),
  MKF(mjsJoint, margin, 'd', 1), MKF(mjsJoint, solref_limit, 'd', mjNREF), MKF(mjsJoint, solimp_limit, 'd', mjNIMP),
  MKF(mjsJoint, actfrclimited, 'i', 1), MKF(mjsJoint, actfrcrange, 'd', 2), MKF(mjsJoint, armature, 'd', 1),
  MKF(mjsJoint, damping, 'd', mjNPOLY + 1), MKF(mjsJoint, frictionloss, 'd', 1),
  MKF(mjsJoint, solref_friction, 'd', mjNREF), MKF(mjsJoint, solimp_friction, 'd', mjNIMP),
  MKF(mjsJoint, group, 'i', 1), MKF(mjsJoint, actgravcomp, 'b', 1), MKF(mjsJoint, userdata, 'v', 1), {0, 0, 0, 0}};
static const MkField MK_GEOM[] = {
  MKF(mjsGeom, type, 'i', 1), MKF(mjsGeom, pos, 'd', 3), MKF(mjsGeom, quat, 'd', 4), MKF(mjsGeom, fromto, 'd', 6),
  MKF(mjsGeom, size, 'd', 3), MKF(mjsGeom, contype, 'i', 1), MKF(mjsGeom, conaffinity, 'i', 1),
  MKF(mjsGeom, condim, 'i', 1), MKF(mjsGeom, priority, 'i', 1), MKF(mjsGeom, friction, 'd', 3),
  MKF(mjsGeom, solmix, 'd', 1), MKF(mjsGeom, solref, 'd', mjNREF), MKF(mjsGeom, solimp, 'd', mjNIMP),
  MKF(mjsGeom, margin, 'd', 1), MKF(mjsGeom, gap, 'd', 1), MKF(mjsGeom, mass, 'd', 1), MKF(mjsGeom, density, 'd', 1),
  MKF(mjsGeom, typeinertia, 'i', 1), MKF(mjsGeom, material, 's', 1), MKF(mjsGeom, rgba, 'f', 4),
  MKF(mjsGeom, group, 'i', 1), MKF(mjsGeom, meshname, 's', 1), MKF(mjsGeom, hfieldname, 's', 1),
  MKF(mjsGeom, fitscale, 'd', 1), MKF(mjsGeom, userdata, 'v', 1),
  MKFN(mjsGeom, "alt_type", alt.type, 'i', 1), MKFN(mjsGeom, "axisangle", alt.axisangle, 'd', 4),
  MKFN(mjsGeom, "xyaxes", alt.xyaxes, 'd', 6), MKFN(mjsGeom, "zaxis", alt.zaxis, 'd', 3),
  MKFN(mjsGeom, "euler", alt.euler, 'd', 3), {0, 0, 0, 0}};
static const MkField MK_SITE[] = {
  MKF(mjsSite, pos, 'd', 3), MKF(mjsSite, quat, 'd', 4), MKF(mjsSite, fromto, 'd', 6), MKF(mjsSite, size, 'd', 3),
  MKF(mjsSite, type, 'i', 1), MKF(mjsSite, group, 'i', 1), MKF(mjsSite, rgba, 'f', 4), MKF(mjsSite, userdata, 'v', 1),
  MKFN(mjsSite, "alt_type", alt.type, 'i', 1), MKFN(mjsSite, "euler", alt.euler, 'd', 3), {0, 0, 0, 0}};
static const MkField MK_CAMERA[] = {
  MKF(mjsCamera, pos, 'd', 3), MKF(mjsCamera, quat, 'd', 4), MKF(mjsCamera, mode, 'i', 1),
  MKF(mjsCamera, targetbody, 's', 1), {0, 0, 0, 0}};
static const MkField MK_LIGHT[] = {
  MKF(mjsLight, pos, 'd', 3), MKF(mjsLight, dir, 'd', 3), MKF(mjsLight, mode, 'i', 1), MKF(mjsLight, active, 'b', 1),
  {0, 0, 0, 0}};
static const MkField MK_MESH[] = {
  MKF(mjsMesh, refpos, 'd', 3), MKF(mjsMesh, refquat, 'd', 4), MKF(mjsMesh, scale, 'd', 3), MKF(mjsMesh, inertia, 'i', 1),
  MKF(mjsMesh, smoothnormal, 'b', 1), MKF(mjsMesh, maxhullvert, 'i', 1), MKF(mjsMesh, uservert, 'F', 1),
  MKF(mjsMesh, usernormal, 'F', 1), MKF(mjsMesh, userface, 'I', 1), MKF(mjsMesh, file, 's', 1), {0, 0, 0, 0}};
static const MkField MK_TEXTURE[] = {
  MKF(mjsTexture, type, 'i', 1), MKF(mjsTexture, builtin, 'i', 1), MKF(mjsTexture, rgb1, 'd', 3),
  MKF(mjsTexture, rgb2, 'd', 3), MKF(mjsTexture, width, 'i', 1), MKF(mjsTexture, height, 'i', 1),
  MKF(mjsTexture, nchannel, 'i', 1), MKF(mjsTexture, random, 'd', 1), {0, 0, 0, 0}};
static const MkField MK_MATERIAL[] = {
  MKF(mjsMaterial, rgba, 'f', 4), MKF(mjsMaterial, emission, 'f', 1), MKF(mjsMaterial, specular, 'f', 1), {0, 0, 0, 0}};
static const MkField MK_PAIR[] = {
  MKF(mjsPair, geomname1, 's', 1), MKF(mjsPair, geomname2, 's', 1), MKF(mjsPair, condim, 'i', 1),
  MKF(mjsPair, solref, 'd', mjNREF), MKF(mjsPair, solreffriction, 'd', mjNREF), MKF(mjsPair, solimp, 'd', mjNIMP),
  MKF(mjsPair, margin, 'd', 1), MKF(mjsPair, gap, 'd', 1), MKF(mjsPair, friction, 'd', 5), {0, 0, 0, 0}};
static const MkField MK_EXCLUDE[] = {
  MKF(mjsExclude, bodyname1, 's', 1), MKF(mjsExclude, bodyname2, 's', 1), {0, 0, 0, 0}};
static const MkField MK_EQUALITY[] = {
  MKF(mjsEquality, type, 'i', 1), MKF(mjsEquality, data, 'd', mjNEQDATA), MKF(mjsEquality, active, 'b', 1),
  MKF(mjsEquality, name1, 's', 1), MKF(mjsEquality, name2, 's', 1), MKF(mjsEquality, objtype, 'i', 1),
  MKF(mjsEquality, solref, 'd', mjNREF), MKF(mjsEquality, solimp, 'd', mjNIMP), {0, 0, 0, 0}};
static const MkField MK_TENDON[] = {
  MKF(mjsTendon, stiffness, 'd', mjNPOLY + 1), MKF(mjsTendon, springlength, 'd', 2), MKF(mjsTendon, damping, 'd', mjNPOLY + 1),
  MKF(mjsTendon, frictionloss, 'd', 1), MKF(mjsTendon, armature, 'd', 1), MKF(mjsTendon, limited, 'i', 1),
  MKF(mjsTendon, range, 'd', 2), MKF(mjsTendon, margin, 'd', 1), MKF(mjsTendon, actfrclimited, 'i', 1),
  MKF(mjsTendon, actfrcrange, 'd', 2), MKF(mjsTendon, solref_limit, 'd', mjNREF), MKF(mjsTendon, solimp_limit, 'd', mjNIMP),
  MKF(mjsTendon, group, 'i', 1), {0, 0, 0, 0}};
static const MkField MK_ACTUATOR[] = {
  MKF(mjsActuator, gaintype, 'i', 1), MKF(mjsActuator, gainprm, 'd', mjNGAIN), MKF(mjsActuator, biastype, 'i', 1),
  MKF(mjsActuator, biasprm, 'd', mjNBIAS), MKF(mjsActuator, dyntype, 'i', 1), MKF(mjsActuator, dynprm, 'd', mjNDYN),
  MKF(mjsActuator, actdim, 'i', 1), MKF(mjsActuator, ctrlspec, 'i', 1), MKF(mjsActuator, actearly, 'b', 1),
  MKF(mjsActuator, trntype, 'i', 1), MKF(mjsActuator, gear, 'd', 6), MKF(mjsActuator, target, 's', 1),
  MKF(mjsActuator, refsite, 's', 1), MKF(mjsActuator, slidersite, 's', 1), MKF(mjsActuator, cranklength, 'd', 1),
  MKF(mjsActuator, lengthrange, 'd', 2), MKF(mjsActuator, inheritrange, 'd', 1),
  MKF(mjsActuator, damping, 'd', mjNPOLY + 1), MKF(mjsActuator, armature, 'd', 1),
  MKF(mjsActuator, ctrllimited, 'i', 1), MKF(mjsActuator, ctrlrange, 'd', 2), MKF(mjsActuator, forcelimited, 'i', 1),
  MKF(mjsActuator, forcerange, 'd', 2), MKF(mjsActuator, actlimited, 'i', 1), MKF(mjsActuator, actrange, 'd', 2),
  MKF(mjsActuator, velrange, 'd', 2), MKF(mjsActuator, ffrange, 'd', 2),
  MKF(mjsActuator, group, 'i', 1), MKF(mjsActuator, nsample, 'i', 1), MKF(mjsActuator, interp, 'i', 1),
  MKF(mjsActuator, delay, 'd', 1), MKF(mjsActuator, userdata, 'v', 1),
  MKFN(mjsActuator, "plugin_name", plugin.plugin_name, 's', 1), MKFN(mjsActuator, "plugin_instance", plugin.name, 's', 1),
  MKFN(mjsActuator, "plugin_active", plugin.active, 'b', 1), {0, 0, 0, 0}};
static const MkField MK_SENSOR[] = {
  MKF(mjsSensor, type, 'i', 1), MKF(mjsSensor, objtype, 'i', 1), MKF(mjsSensor, objname, 's', 1),
  MKF(mjsSensor, reftype, 'i', 1), MKF(mjsSensor, refname, 's', 1), MKF(mjsSensor, intprm, 'i', mjNSENS),
  MKF(mjsSensor, datatype, 'i', 1), MKF(mjsSensor, needstage, 'i', 1), MKF(mjsSensor, dim, 'i', 1),
  MKF(mjsSensor, cutoff, 'd', 1), MKF(mjsSensor, noise, 'd', 1), MKF(mjsSensor, nsample, 'i', 1),
  MKF(mjsSensor, interp, 'i', 1), MKF(mjsSensor, delay, 'd', 1), MKF(mjsSensor, interval, 'd', 2),
  MKF(mjsSensor, userdata, 'v', 1), {0, 0, 0, 0}};
static const MkField MK_NUMERIC[] = {MKF(mjsNumeric, data, 'v', 1), MKF(mjsNumeric, size, 'i', 1), {0, 0, 0, 0}};
static const MkField MK_TEXT[] = {MKF(mjsText, data, 's', 1), {0, 0, 0, 0}};
static const MkField MK_KEY[] = {
  MKF(mjsKey, time, 'd', 1), MKF(mjsKey, qpos, 'v', 1), MKF(mjsKey, qvel, 'v', 1), MKF(mjsKey, act, 'v', 1),
  MKF(mjsKey, mpos, 'v', 1), MKF(mjsKey, mquat, 'v', 1), MKF(mjsKey, ctrl, 'v', 1), {0, 0, 0, 0}};

typedef std::map<std::string, std::string> MkKV;
static inline void mk_parse_line(const std::string& line, std::string& kind, std::vector<std::pair<std::string, std::string>>& kv) {
  kv.clear(); kind.clear();
  size_t i = 0, n = line.size();
  while (i < n) {
    while (i < n && line[i] == ' ') i++;
    size_t j = i; while (j < n && line[j] != ' ') j++;
    if (j > i) {
      std::string tok = line.substr(i, j - i);
      if (kind.empty()) kind = tok;
      else {
        size_t e = tok.find('=');
        if (e == std::string::npos) mk_die("token without '=': " + tok);
        kv.push_back({tok.substr(0, e), tok.substr(e + 1)});
      }
    }
    i = j;
  }
}
static inline std::string mk_take(std::vector<std::pair<std::string, std::string>>& kv, const char* key, const char* dflt = nullptr) {
  for (size_t i = 0; i < kv.size(); i++) if (kv[i].first == key) { std::string v = kv[i].second; kv.erase(kv.begin() + i); return v; }
  if (!dflt) mk_die(std::string("missing key ") + key);
  return dflt;
}
static inline bool mk_has(const std::vector<std::pair<std::string, std::string>>& kv, const char* key) {
  for (auto& p : kv) if (p.first == key) return true;
  return false;
}
static inline void mk_apply(void* base, const MkField* tab, std::vector<std::pair<std::string, std::string>>& kv, const std::string& kind) {
  for (auto& p : kv) if (!mk_set(base, tab, p.first, p.second)) mk_die("unknown key '" + p.first + "' for " + kind);
}

// apply one description line to a spec; returns false if the kind is not a model element (caller handles it)
static inline bool mk_line(mjSpec* s, const std::string& line) {
  std::string kind; std::vector<std::pair<std::string, std::string>> kv;
  mk_parse_line(line, kind, kv);
  if (kind.empty() || kind[0] == '#') return true;
  auto findbody = [&](const std::string& nm) -> mjsBody* {
    mjsBody* b = (nm == "world") ? mjs_findBody(s, "world") : mjs_findBody(s, nm.c_str());
    if (!b) mk_die("unknown body " + nm);
    return b;
  };
  auto findparent = [&](std::vector<std::pair<std::string, std::string>>& kvs, mjsFrame** fr) -> mjsBody* {
    *fr = nullptr;
    std::string f = mk_take(kvs, "frame", "");
    if (!f.empty()) { mjsElement* e = mjs_findElement(s, mjOBJ_FRAME, f.c_str()); if (!e) mk_die("unknown frame " + f); *fr = mjs_asFrame(e); }
    return findbody(mk_take(kvs, "body", "world"));
  };
  if (kind == "option") { mk_apply(&s->option, MK_OPTION, kv, kind); return true; }
  if (kind == "size") { mk_apply(s, MK_SIZE, kv, kind); return true; }
  if (kind == "compiler") { mk_apply(&s->compiler, MK_COMPILER, kv, kind); return true; }
  if (kind == "body") {
    std::string nm = mk_take(kv, "name"), par = mk_take(kv, "parent", "world"), f = mk_take(kv, "frame", "");
    mjsBody* b = mjs_addBody(findbody(par), nullptr);
    mjs_setName(b->element, nm.c_str());
    if (!f.empty()) { mjsElement* e = mjs_findElement(s, mjOBJ_FRAME, f.c_str()); if (!e) mk_die("unknown frame " + f); mjs_setFrame(b->element, mjs_asFrame(e)); }
    mk_apply(b, MK_BODY, kv, kind); return true;
  }
  if (kind == "frame") {
    std::string nm = mk_take(kv, "name"), par = mk_take(kv, "body", "world"), pf = mk_take(kv, "frame", "");
    mjsFrame* pfr = nullptr;
    if (!pf.empty()) { mjsElement* e = mjs_findElement(s, mjOBJ_FRAME, pf.c_str()); if (!e) mk_die("unknown frame " + pf); pfr = mjs_asFrame(e); }
    mjsFrame* fr = mjs_addFrame(findbody(par), pfr);
    mjs_setName(fr->element, nm.c_str());
    mk_apply(fr, MK_FRAME, kv, kind); return true;
  }
#define MK_CHILD(KIND, TYPE, ADD, TAB) \
  if (kind == KIND) { mjsFrame* fr; mjsBody* b = findparent(kv, &fr); std::string nm = mk_take(kv, "name", ""); \
    TYPE* x = ADD(b, nullptr); if (!nm.empty()) mjs_setName(x->element, nm.c_str()); \
    if (fr) mjs_setFrame(x->element, fr); mk_apply(x, TAB, kv, kind); return true; }
  MK_CHILD("joint", mjsJoint, mjs_addJoint, MK_JOINT)
  MK_CHILD("geom", mjsGeom, mjs_addGeom, MK_GEOM)
  MK_CHILD("site", mjsSite, mjs_addSite, MK_SITE)
  MK_CHILD("camera", mjsCamera, mjs_addCamera, MK_CAMERA)
  MK_CHILD("light", mjsLight, mjs_addLight, MK_LIGHT)
#define MK_TOP(KIND, TYPE, ADDEXPR, TAB) \
  if (kind == KIND) { std::string nm = mk_take(kv, "name", ""); TYPE* x = ADDEXPR; \
    if (!nm.empty()) mjs_setName(x->element, nm.c_str()); mk_apply(x, TAB, kv, kind); return true; }
  if (kind == "mesh" && mk_has(kv, "plate")) {   // builtin plate mesh: plate=RX,RY (RX*RY vertices)
    std::string nm = mk_take(kv, "name", ""); mjsMesh* x = mjs_addMesh(s, nullptr);
    if (!nm.empty()) mjs_setName(x->element, nm.c_str());
    std::vector<double> pr = mk_nums(mk_take(kv, "plate"));
    if (mjs_makeMesh(x, mjMESH_BUILTIN_PLATE, pr.data(), (int)pr.size())) mk_die(std::string("makeMesh: ") + mjs_getError(s));
    mk_apply(x, MK_MESH, kv, kind); return true;
  }
  MK_TOP("mesh", mjsMesh, mjs_addMesh(s, nullptr), MK_MESH)
  MK_TOP("texture", mjsTexture, mjs_addTexture(s), MK_TEXTURE)
  MK_TOP("material", mjsMaterial, mjs_addMaterial(s, nullptr), MK_MATERIAL)
  MK_TOP("pair", mjsPair, mjs_addPair(s, nullptr), MK_PAIR)
  MK_TOP("exclude", mjsExclude, mjs_addExclude(s), MK_EXCLUDE)
  MK_TOP("equality", mjsEquality, mjs_addEquality(s, nullptr), MK_EQUALITY)
  MK_TOP("tendon", mjsTendon, mjs_addTendon(s, nullptr), MK_TENDON)
  MK_TOP("actuator", mjsActuator, mjs_addActuator(s, nullptr), MK_ACTUATOR)
  MK_TOP("sensor", mjsSensor, mjs_addSensor(s), MK_SENSOR)
  MK_TOP("numeric", mjsNumeric, mjs_addNumeric(s), MK_NUMERIC)
  MK_TOP("text", mjsText, mjs_addText(s), MK_TEXT)
  MK_TOP("key", mjsKey, mjs_addKey(s), MK_KEY)
  if (kind == "wrapjoint" || kind == "wrapsite") {
    std::string t = mk_take(kv, "tendon");
    mjsElement* e = mjs_findElement(s, mjOBJ_TENDON, t.c_str()); if (!e) mk_die("unknown tendon " + t);
    mjsTendon* td = mjs_asTendon(e);
    if (kind == "wrapjoint") { std::string j = mk_take(kv, "joint"); double c = mk_nums(mk_take(kv, "coef", "1")).at(0); mjs_wrapJoint(td, j.c_str(), c); }
    else { std::string st = mk_take(kv, "site"); mjs_wrapSite(td, st.c_str()); }
    if (!kv.empty()) mk_die("unknown key for " + kind);
    return true;
  }
  return false;
}

// build a spec from lines[begin..) until a line "end"; returns the index after "end"
static inline mjSpec* mk_spec(const std::vector<std::string>& lines, size_t& i) {
  mjSpec* s = mj_makeSpec();
  for (; i < lines.size(); i++) {
    if (lines[i] == "end") { i++; break; }
    if (!mk_line(s, lines[i])) mk_die("unknown model line: " + lines[i]);
  }
  return s;
}
#endif
