// /verif harness for C17 (tla/Islands*.tla, checks/c17.py): white-box driver of src/engine/engine_island.c
//
//   dnew <n>                     parent[0..n) = -1                                   -> ok
//   dmerge <a> <b>               mj_dsuMerge(parent, a, b)                           -> <roots>
//   droot <t>                    mj_dsuRoot(parent, t)                               -> <ret> <roots>
//   dassign <dofnum,...>         mj_dsuAssign(island, parent, dofnum, n, &nidof)     -> <nisland> <nidof> <island,...> <roots>
//        <roots> = root of every tree found by a NON-mutating walk of parent ("-1" inactive), or "cycle"/"range"
//        when the array is not a forest over 0..n-1 (the projection the property talks about: partition and roots,
//        never the raw parent array)
//   flood <nr> <rownnz,..> <rowadr,..> <colind,..>      mj_floodFill, stack has exactly nnz cells between guards
//                                                       -> <nisland> <island,...>   | bad <reason>
//   tog <d> eq|pair|tfric|trange|jfric|jrange <name> <value>     run-time switch of one constraint (object by name)
//   islands <d>                  everything mj_island published in mjData slot d, as one JSON object
// plus all generic ops of mjdrv_common.h (model / data / forward / set / mset ...).
#include <string>
#include <vector>
#include "mjdrv_common.h"
#include "engine/engine_island.h"

static std::vector<int> g_parent;

static std::vector<int> icsv(const std::string& s) {
  std::vector<int> v; if (s == "-") return v;
  size_t i = 0;
  while (i <= s.size()) { size_t j = s.find(',', i); if (j == std::string::npos) j = s.size();
    if (j > i) v.push_back(atoi(s.substr(i, j - i).c_str())); i = j + 1; }
  return v;
}
static void plist(const std::vector<int>& v) {
  if (v.empty()) { printf("-"); return; }
  for (size_t i = 0; i < v.size(); i++) printf(i ? ",%d" : "%d", v[i]);
}
static void print_roots() {
  int n = (int)g_parent.size();
  std::vector<int> r(n);
  for (int t = 0; t < n; t++) {
    if (g_parent[t] == -1) { r[t] = -1; continue; }
    int x = t, steps = 0;
    while (true) {
      if (x < 0 || x >= n) { printf("range"); return; }
      if (g_parent[x] == x) break;
      x = g_parent[x];
      if (++steps > n) { printf("cycle"); return; }
    }
    r[t] = x;
  }
  plist(r);
}
static void jarr(const char* name, const int* p, int n, bool first = false) {
  printf("%s\"%s\":[", first ? "" : ",", name);
  for (int i = 0; i < n; i++) printf(i ? ",%d" : "%d", p ? p[i] : -99);
  printf("]");
}

static bool extra(const std::vector<std::string>& t, const std::vector<std::string>& lines, size_t& i) {
  const std::string& op = t[0];
  if (op == "dnew") { g_parent.assign(atoi(t.at(1).c_str()), -1); printf("ok\n"); return true; }
  if (op == "dmerge") {
    if (HX_TRY) { mj_dsuMerge(g_parent.data(), atoi(t.at(1).c_str()), atoi(t.at(2).c_str())); HX_END; }
    else { drv_err(hx_err); return true; }
    print_roots(); printf("\n"); return true;
  }
  if (op == "droot") {
    int r = mj_dsuRoot(g_parent.data(), atoi(t.at(1).c_str()));
    printf("%d ", r); print_roots(); printf("\n"); return true;
  }
  if (op == "dassign") {
    std::vector<int> dofnum = icsv(t.at(1));
    int n = (int)g_parent.size();
    if ((int)dofnum.size() != n) mk_die("dassign: wrong dofnum length");
    std::vector<int> island(n + 2, 0x7c7c7c7c);
    int nidof = -12345;
    int ni = mj_dsuAssign(island.data() + 1, g_parent.data(), dofnum.data(), n, &nidof);
    if (island[0] != 0x7c7c7c7c || island[n + 1] != 0x7c7c7c7c) { printf("bad guard-island\n"); return true; }
    printf("%d %d ", ni, nidof); plist(std::vector<int>(island.begin() + 1, island.begin() + 1 + n));
    printf(" "); print_roots(); printf("\n"); return true;
  }
  if (op == "flood") {
    int nr = atoi(t.at(1).c_str());
    std::vector<int> rownnz = icsv(t.at(2)), rowadr = icsv(t.at(3)), colind = icsv(t.at(4));
    if ((int)rownnz.size() != nr || (int)rowadr.size() != nr) mk_die("flood: wrong row array length");
    int nnz = (int)colind.size();
    const int G = 8, GV = 0x7d7d7d7d;
    std::vector<int> stack(nnz + 2 * G, GV), island(nr + 2 * G, GV);
    for (int k = 0; k < nnz; k++) stack[G + k] = -7;
    colind.push_back(GV);   // never read
    int ni = mj_floodFill(island.data() + G, nr, rownnz.data(), rowadr.data(), colind.data(), stack.data() + G);
    const char* bad = nullptr;
    for (int k = 0; k < G; k++) {
      if (stack[k] != GV || stack[G + nnz + k] != GV) bad = "guard-stack";
      if (island[k] != GV || island[G + nr + k] != GV) bad = "guard-island";
    }
    if (bad) { printf("bad %s\n", bad); return true; }
    printf("%d ", ni); plist(std::vector<int>(island.begin() + G, island.begin() + G + nr)); printf("\n");
    return true;
  }
  if (op == "tog") {
    // tog <d> <what> <name> <value>: run-time switch of one constraint, object found by name
    int ds = atoi(t.at(1).c_str()); mjData* d = D(ds); mjModel* m = MD(ds);
    const std::string& what = t.at(2); const char* nm = t.at(3).c_str(); double v = atof(t.at(4).c_str());
    int id = -1;
    if (what == "eq") { id = mj_name2id(m, mjOBJ_EQUALITY, nm); if (id >= 0) d->eq_active[id] = (mjtByte)v; }
    else if (what == "pair") { id = mj_name2id(m, mjOBJ_PAIR, nm); if (id >= 0) m->pair_margin[id] = v; }
    else if (what == "tfric") { id = mj_name2id(m, mjOBJ_TENDON, nm); if (id >= 0) m->tendon_frictionloss[id] = v; }
    else if (what == "trange") { id = mj_name2id(m, mjOBJ_TENDON, nm); if (id >= 0) m->tendon_range[2 * id] = v; }
    else if (what == "jfric") { id = mj_name2id(m, mjOBJ_JOINT, nm); if (id >= 0) m->dof_frictionloss[m->jnt_dofadr[id]] = v; }
    else if (what == "jrange") { id = mj_name2id(m, mjOBJ_JOINT, nm); if (id >= 0) m->jnt_range[2 * id] = v; }
    else mk_die("tog: unknown switch " + what);
    if (id < 0) mk_die(std::string("tog: no object named ") + nm);
    printf("ok\n"); return true;
  }
  if (op == "islands") {
    int ds = atoi(t.at(1).c_str());
    mjData* d = D(ds); const mjModel* m = MD(ds);
    int ni = d->nisland, nefc = d->nefc, nv = m->nv, ntree = m->ntree;
    bool have = ni > 0 && d->tree_island;
    printf("{\"nisland\":%d,\"nidof\":%d,\"ntree\":%d,\"nv\":%d,\"nefc\":%d,\"ne\":%d,\"nf\":%d,\"have\":%d", ni, d->nidof, ntree,
           nv, nefc, d->ne, d->nf, have ? 1 : 0);
    jarr("dof_treeid", m->dof_treeid, nv);
    jarr("tree_dofnum", m->tree_dofnum, ntree);
    jarr("tree_dofadr", m->tree_dofadr, ntree);
    jarr("efc_type", d->efc_type, nefc);
    jarr("efc_id", d->efc_id, nefc);
    // identity of the object behind every row, by name: equality / joint (of the dof) / tendon
    printf(",\"efc_obj\":[");
    for (int r = 0; r < nefc; r++) {
      int ty = d->efc_type[r], id = d->efc_id[r];
      const char* nm = nullptr;
      if (ty == mjCNSTR_EQUALITY) nm = mj_id2name(m, mjOBJ_EQUALITY, id);
      else if (ty == mjCNSTR_FRICTION_DOF) nm = mj_id2name(m, mjOBJ_JOINT, m->dof_jntid[id]);
      else if (ty == mjCNSTR_LIMIT_JOINT) nm = mj_id2name(m, mjOBJ_JOINT, id);
      else if (ty == mjCNSTR_FRICTION_TENDON || ty == mjCNSTR_LIMIT_TENDON) nm = mj_id2name(m, mjOBJ_TENDON, id);
      printf("%s\"%s\"", r ? "," : "", nm ? nm : "");
    }
    printf("]");
    // contact rows: names of the two geoms (constraint identity by construction)
    printf(",\"efc_geoms\":[");
    for (int r = 0; r < nefc; r++) {
      int ty = d->efc_type[r];
      if (r) printf(",");
      if (ty == mjCNSTR_CONTACT_FRICTIONLESS || ty == mjCNSTR_CONTACT_PYRAMIDAL || ty == mjCNSTR_CONTACT_ELLIPTIC) {
        const mjContact& c = d->contact[d->efc_id[r]];
        const char* a = c.geom[0] >= 0 ? mj_id2name(m, mjOBJ_GEOM, c.geom[0]) : nullptr;
        const char* b = c.geom[1] >= 0 ? mj_id2name(m, mjOBJ_GEOM, c.geom[1]) : nullptr;
        printf("[\"%s\",\"%s\"]", a ? a : "", b ? b : "");
      } else printf("[]");
    }
    printf("]");
    if (have) {
      jarr("tree_island", d->tree_island, ntree);
      jarr("island_ntree", d->island_ntree, ni);
      jarr("island_itreeadr", d->island_itreeadr, ni);
      jarr("map_itree2tree", d->map_itree2tree, ntree);
      jarr("dof_island", d->dof_island, nv);
      jarr("island_nv", d->island_nv, ni);
      jarr("island_idofadr", d->island_idofadr, ni);
      jarr("island_dofadr", d->island_dofadr, ni);
      jarr("map_dof2idof", d->map_dof2idof, nv);
      jarr("map_idof2dof", d->map_idof2dof, nv);
      jarr("efc_island", d->efc_island, nefc);
      jarr("island_ne", d->island_ne, ni);
      jarr("island_nf", d->island_nf, ni);
      jarr("island_nefc", d->island_nefc, ni);
      jarr("island_iefcadr", d->island_iefcadr, ni);
      jarr("map_efc2iefc", d->map_efc2iefc, nefc);
      jarr("map_iefc2efc", d->map_iefc2efc, nefc);
      jarr("iefc_type", d->iefc_type, nefc);
      jarr("iefc_id", d->iefc_id, nefc);
    }
    printf("}\n");
    return true;
  }
  return false;
}

int main() { return drv_main(extra); }
