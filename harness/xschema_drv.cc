// /verif harness for C37 (schema clause): builds an mjXSchema (src/xml/xml_util.cc, compiled against the
// DOM-only tinyxml2 shim) from a table and validates documents constructed through the DOM API.
//   table synth | table real     select the schema (synthetic table of tla/XSchema.tla, or the real MJCF[] table)
//   doc <roottag>                 start a new document
//   node <path> <tag>             add element; path = dot-separated child indices of the parent ("-" = root), e.g. 1.2
//   attr <path> <name>            add attribute (value "1") to the element at path
//   check                         -> "accept" | "reject <message>"
#include <iostream>
#include <map>
#include <memory>
#include "hx.h"
#include "xml/xml_util.h"

static std::vector<const char*> SYNTH[] = {
  {"m", "!", "model"},
  {"<"},
    {"opt", "?", "a", "b", "c"},
    {"req", "!", "x"},
    {"body", "R", "name", "pos", "quat", "euler"},
    {"<"},
      {"inertial", "?", "mass", "pos"},
      {"geom", "*", "size", "type", "fromto"},
      {"site", "*", "pos"},
    {">"},
    {"conn", "*", "s1", "s2", "b1", "b2", "an"},
  {">"}};
static const mjXConstraintDef SYNTH_CONS[] = {
  {2, 'e', "a|b"}, {2, 'r', "c|a"}, {4, 'e', "quat|euler"}, {7, 'o', "size|fromto"}, {7, 't', "size type"},
  // bundles of several attributes, as on <connect>
  {10, 'o', "s1 s2|b1 an"}, {10, 'e', "s1 s2|b1 b2 an"}, {10, 't', "s1|s2"}};

namespace real {
#include "xml/generated/mjcf_table.inc"
}

int main() {
  hx_install();
  std::unique_ptr<mjXSchema> schema;
  tinyxml2::XMLDocument doc;
  std::map<std::string, tinyxml2::XMLElement*> at;
  std::string line;
  while (std::getline(std::cin, line)) {
    auto t = split(line); if (t.empty()) continue;
    if (t[0] == "table") {
      if (t[1] == "synth") schema.reset(new mjXSchema(SYNTH, sizeof(SYNTH) / sizeof(SYNTH[0]), SYNTH_CONS, sizeof(SYNTH_CONS) / sizeof(SYNTH_CONS[0])));
      else schema.reset(new mjXSchema(real::MJCF, real::nMJCF, real::MJCF_constraints, real::nMJCF_constraints));
      std::string e = schema->GetError();
      printf("%s\n", e.empty() ? "ok" : ("schemaerror " + e).c_str());
    } else if (t[0] == "doc") { at.clear(); at["-"] = doc.NewRoot(t[1].c_str()); printf("ok\n"); }
    else if (t[0] == "node") {
      std::string parent = "-"; size_t k = t[1].rfind('.');
      if (k != std::string::npos) parent = t[1].substr(0, k);
      auto it = at.find(parent);
      if (it == at.end()) { printf("?noparent\n"); } else { at[t[1]] = it->second->AddChild(t[2].c_str(), (int)at.size()); printf("ok\n"); }
    } else if (t[0] == "attr") {
      auto it = at.find(t[1]);
      if (it == at.end()) printf("?nonode\n"); else { it->second->SetAttribute(t[2].c_str(), "1"); printf("ok\n"); }
    } else if (t[0] == "check") {
      tinyxml2::XMLElement* bad = schema->Check(doc.RootElement(), 0);
      if (!bad) printf("accept\n");
      else { std::string e = schema->GetError(); for (auto& c : e) if (c == '\n') c = ' '; printf("reject %s at <%s>\n", e.c_str(), bad->Value()); }
    } else printf("?\n");
    fflush(stdout);
  }
}
