// /verif harness for C26 (tla/StateAPI.tla, checks/c26.py): the state-vector API driven with guarded buffers.
// Generic ops come from mjdrv_common.h, extended model kinds from mkmodel_ext.h.  Added ops:
//   sz <m> <sig>                         mj_stateSize                    -> "<n>" | "error msg"
//   gs <d> <sig>                         mj_getState into a guarded buffer -> "<n> v..." | "OVERRUN ..." | "error msg"
//   ss <d> <sig> v,...                   mj_setState from exactly the given vector -> "ok" | "error msg"
//   xs <m> <srcsig> <dstsig> v,...       mj_extractState (src = given vector) -> "<n> v..." | "OVERRUN" | "error msg"
//   settime <d> <t>
//   obs <d>                              all 14 state components: "c1 | c2 | ... | c14" (bit order of mjtState)
//   dfresh <d> <dref>                    names of all mjData fields that differ between the two instances -> "a,b" | "-"
#include "mkmodel_ext.h"

static const double kGuard = 7.25e77;
static const int kPad = 16;

static int full_size(const mjModel* m) {
  return 1 + m->nq + 3 * m->nv + m->na + m->nhistory + m->nu + 6 * m->nbody + m->neq + 7 * m->nmocap +
         m->nuserdata + m->npluginstate;
}
static void print_vec(int n, const std::vector<mjtNum>& b) {
  printf("%d", n);
  for (int k = 0; k < n && k < (int)b.size(); k++) { printf(" "); drv_print_num(b[k]); }
  printf("\n");
}
// the 14 state components in bit order, as (pointer, count, is_byte)
struct Comp { const void* p; int n; bool byte; };
static std::vector<Comp> comps(const mjModel* m, const mjData* d) {
  return {{&d->time, 1, false}, {d->qpos, (int)m->nq, false}, {d->qvel, (int)m->nv, false}, {d->act, (int)m->na, false},
          {d->history, (int)m->nhistory, false}, {d->qacc_warmstart, (int)m->nv, false}, {d->ctrl, (int)m->nu, false},
          {d->qfrc_applied, (int)m->nv, false}, {d->xfrc_applied, 6 * (int)m->nbody, false},
          {d->eq_active, (int)m->neq, true}, {d->mocap_pos, 3 * (int)m->nmocap, false},
          {d->mocap_quat, 4 * (int)m->nmocap, false}, {d->userdata, (int)m->nuserdata, false},
          {d->plugin_state, (int)m->npluginstate, false}};
}

static bool extra(const std::vector<std::string>& t, const std::vector<std::string>& lines, size_t& i) {
  const std::string& op = t[0];
  if (mkx_op(t, lines, i)) return true;
  if (op == "sz") {
    int r = -1;
    if (HX_TRY) { r = mj_stateSize(M(atoi(t.at(1).c_str())), atoi(t.at(2).c_str())); HX_END; printf("%d\n", r); }
    else drv_err(hx_err);
    return true;
  }
  if (op == "gs") {
    int ds = atoi(t.at(1).c_str()); int sig = atoi(t.at(2).c_str());
    const mjModel* m = MD(ds);
    int cap = full_size(m) + kPad;
    std::vector<mjtNum> b(cap, kGuard);
    if (HX_TRY) {
      int n = mj_stateSize(m, sig);
      mj_getState(m, D(ds), b.data(), sig);
      HX_END;
      if (n < 0 || n > cap) { printf("BADSIZE %d\n", n); return true; }
      for (int k = n; k < cap; k++) if (b[k] != kGuard) { printf("OVERRUN size %d but index %d written\n", n, k); return true; }
      print_vec(n, b);
    } else drv_err(hx_err);
    return true;
  }
  if (op == "ss") {
    int ds = atoi(t.at(1).c_str()); int sig = atoi(t.at(2).c_str());
    std::vector<mjtNum> b = drv_nums(t.size() > 3 ? t[3] : "");
    b.resize(b.size() + full_size(MD(ds)) + kPad, kGuard);      // reads past the vector see the guard value
    if (HX_TRY) { mj_setState(MD(ds), D(ds), b.data(), sig); HX_END; printf("ok\n"); } else drv_err(hx_err);
    return true;
  }
  if (op == "xs") {
    const mjModel* m = M(atoi(t.at(1).c_str()));
    int srcsig = atoi(t.at(2).c_str()), dstsig = atoi(t.at(3).c_str());
    std::vector<mjtNum> src = drv_nums(t.size() > 4 ? t[4] : "");
    src.resize(src.size() + full_size(m) + kPad, kGuard);
    int cap = full_size(m) + kPad;
    std::vector<mjtNum> dst(cap, -kGuard);
    if (HX_TRY) {
      mj_extractState(m, src.data(), srcsig, dst.data(), dstsig);
      int n = mj_stateSize(m, dstsig);
      HX_END;
      if (n < 0 || n > cap) { printf("BADSIZE %d\n", n); return true; }
      for (int k = n; k < cap; k++) if (dst[k] != -kGuard) { printf("OVERRUN size %d but index %d written\n", n, k); return true; }
      print_vec(n, dst);
    } else drv_err(hx_err);
    return true;
  }
  if (op == "settime") { D(atoi(t.at(1).c_str()))->time = drv_num(t.at(2)); printf("ok\n"); return true; }
  if (op == "obs") {
    int ds = atoi(t.at(1).c_str());
    auto cs = comps(MD(ds), D(ds));
    for (size_t c = 0; c < cs.size(); c++) {
      if (c) printf(" |");
      for (int k = 0; k < cs[c].n; k++) {
        printf(" ");
        drv_print_num(cs[c].byte ? (double)((const unsigned char*)cs[c].p)[k] : ((const mjtNum*)cs[c].p)[k]);
      }
    }
    printf("\n");
    return true;
  }
  if (op == "dfresh") {
    int a = atoi(t.at(1).c_str()), b = atoi(t.at(2).c_str());
    const mjModel* m = MD(a);
    mjData* x = D(a); mjData* y = D(b);
    std::string out;
    auto add = [&](const char* nm) { if (!out.empty()) out += ","; out += nm; };
    auto fa = drv_data_fields(m, x), fb = drv_data_fields(m, y);
    for (size_t k = 0; k < fa.size(); k++) {
      size_t na = fa[k].count * fa[k].elsize, nb = fb[k].count * fb[k].elsize;
      bool diff = na != nb || (fa[k].ptr == nullptr) != (fb[k].ptr == nullptr);
      if (!diff && na && fa[k].ptr) diff = memcmp(fa[k].ptr, fb[k].ptr, na) != 0;
      if (diff) add(fa[k].name);
    }
#define X(type, name) if (std::string(#name) != "threadpool" && memcmp(&x->name, &y->name, sizeof(type)) != 0) add(#name);
    MJDATA_SCALAR
#undef X
    for (int k = 0; k < mjNWARNING; k++)
      if (x->warning[k].number != y->warning[k].number || x->warning[k].lastinfo != y->warning[k].lastinfo) { add("warning"); break; }
    for (int k = 0; k < mjNTIMER; k++)
      if (x->timer[k].number != y->timer[k].number || x->timer[k].duration != y->timer[k].duration) { add("timer"); break; }
    if (memcmp(x->energy, y->energy, sizeof x->energy)) add("energy");
    if (memcmp(x->solver_niter, y->solver_niter, sizeof x->solver_niter)) add("solver_niter");
    if (memcmp(x->solver_nnz, y->solver_nnz, sizeof x->solver_nnz)) add("solver_nnz");
    if (memcmp(x->solver_fwdinv, y->solver_fwdinv, sizeof x->solver_fwdinv)) add("solver_fwdinv");
    if (x->signature != y->signature) add("signature");
    printf("%s\n", out.empty() ? "-" : out.c_str());
    return true;
  }
  return false;
}

int main() { return drv_main(extra); }
