// /verif harness helpers: line protocol with hex-encoded strings, error/warning capture via longjmp.
#ifndef VERIF_HX_H
#define VERIF_HX_H
#include <mujoco/mujoco.h>
#include <setjmp.h>
#include <stdio.h>
#include <stdlib.h>
#include <string.h>
#include <unistd.h>
#include <string>
#include <vector>
#include <sstream>
static inline std::string unhex(const std::string& h) {
  if (h == "-") return std::string();
  std::string o;
  for (size_t i = 0; i + 1 < h.size(); i += 2) o.push_back((char)strtol(h.substr(i, 2).c_str(), nullptr, 16));
  return o;
}
static inline std::string tohex(const void* p, size_t n) {
  static const char* d = "0123456789abcdef";
  const unsigned char* b = (const unsigned char*)p;
  std::string o;
  for (size_t i = 0; i < n; i++) { o.push_back(d[b[i] >> 4]); o.push_back(d[b[i] & 15]); }
  if (o.empty()) o = "-";
  return o;
}
static inline std::vector<std::string> split(const std::string& s) {
  std::vector<std::string> v; std::istringstream is(s); std::string t;
  while (is >> t) v.push_back(t);
  return v;
}
static jmp_buf hx_jmp;
static int hx_armed = 0;
static char hx_err[1024];
static int hx_nwarn = 0;
static char hx_warn[1024];
static void hx_on_error(const char* msg) {
  snprintf(hx_err, sizeof hx_err, "%s", msg);
  if (hx_armed) longjmp(hx_jmp, 1);
  fprintf(stdout, "FATAL %s\n", msg); fflush(stdout); _exit(3);
}
static void hx_on_warning(const char* msg) { hx_nwarn++; snprintf(hx_warn, sizeof hx_warn, "%s", msg); }
static inline void hx_install() { mju_user_error = hx_on_error; mju_user_warning = hx_on_warning; }
// usage: if (HX_TRY) { ... code that may mju_error ... HX_END; } else { ... error path, hx_err ... }
#define HX_TRY (hx_armed = 1, setjmp(hx_jmp) == 0)
#define HX_END (hx_armed = 0)
#endif
