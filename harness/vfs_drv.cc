// /verif harness: drives the public VFS API from an op script (see checks/c39.py, tla/Vfs.tla)
#include <unistd.h>
#include <iostream>
#include "hx.h"
int main() {
  hx_install();
  mjVFS vfs; bool have = false;
  std::string line;
  while (std::getline(std::cin, line)) {
    auto t = split(line);
    if (t.empty()) continue;
    const std::string& op = t[0];
    if (op == "new") {
      if (have) mj_deleteVFS(&vfs);
      mj_defaultVFS(&vfs); have = true;
      printf("ok\n");
    } else if (op == "addbuf") {
      std::string n = unhex(t[1]), c = unhex(t[2]);
      printf("%d\n", mj_addBufferVFS(&vfs, n.c_str(), c.data(), (int)c.size()));
    } else if (op == "addfile") {
      std::string d = unhex(t[1]), n = unhex(t[2]);
      printf("%d\n", mj_addFileVFS(&vfs, d.empty() ? nullptr : d.c_str(), n.c_str()));
    } else if (op == "delete") {
      std::string n = unhex(t[1]);
      printf("%d\n", mj_deleteFileVFS(&vfs, n.c_str()));
    } else if (op == "cb") {
      std::string n = unhex(t[1]);
      printf("%d\n", mj_containsBufferVFS(&vfs, n.c_str()));
    } else if (op == "cf") {
      std::string d = unhex(t[1]), n = unhex(t[2]);
      printf("%d\n", mj_containsFileVFS(&vfs, d.empty() ? nullptr : d.c_str(), n.c_str()));
    } else if (op == "read") {
      std::string n = unhex(t[1]);
      char err[256] = "";
      mjResource* r = mju_openResource(nullptr, n.c_str(), &vfs, err, sizeof err);
      if (!r) { printf("none\n"); }
      else {
        const void* buf = nullptr;
        int nb = mju_readResource(r, &buf);
        if (nb < 0) printf("rderr\n"); else printf("%s\n", tohex(buf, nb).c_str());
        mju_closeResource(r);
      }
    } else if (op == "chdir") {
      std::string d = unhex(t[1]);
      printf("%d\n", chdir(d.c_str()));
    } else {
      printf("?\n");
    }
    fflush(stdout);
  }
  if (have) mj_deleteVFS(&vfs);
  return 0;
}
