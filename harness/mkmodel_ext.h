// /verif harness (C26, C34): element kinds that mkmodel.h does not offer, built through the public mjSpec
// C API only, and a small test plugin ("verif.state") that owns plugin state.
//
//   activate plugin=verif.state                        mjs_activatePlugin
//   plugin name=<instance> plugin=verif.state          explicit plugin instance (mjs_addPlugin)
//   bodyplugin body=b1 plugin=verif.state [instance=<name>]   passive plugin attached to a body (explicit
//                                                      instance, default name vp_<body>, created on first use)
//   hfield name=h nrow=2 ncol=2 size=1,1,1,1 userdata=0,0,0,0
//   tuple  name=t objtype=1,1 objname=b1,b2 objprm=0,0
//   skin   name=s body=b1                              one-bone triangle skin
//   flex   name=f bodies=f1,f2 dim=1                   dim 1: chain of edges over the listed bodies
//   tendonj name=t joint=j1 coef=1                     fixed tendon over one joint (name optional)
//   ubody parent=world pos=..                          body without a name (mkmodel.h's body needs one)
// Everything else is handed to mk_line (mkmodel.h).  Op added to the drivers that include this header:
//   xmodel <m> ... end      like "model" of mjdrv_common.h, with the extra kinds -> "ok" | "error msg"
#ifndef VERIF_MKMODEL_EXT_H
#define VERIF_MKMODEL_EXT_H
#include <mujoco/mjplugin.h>
#include "mjdrv_common.h"

// ---- test plugin: VSTATE_N numbers of state per instance; reset writes 11, 12, 13 ...
#define VSTATE_N 3
static int vstate_nstate(const mjModel*, int) { return VSTATE_N; }
static int vstate_init(const mjModel*, mjData* d, int instance) { d->plugin_data[instance] = 0; return 0; }
static void vstate_reset(const mjModel*, mjtNum* st, void*, int instance) {
  for (int k = 0; k < VSTATE_N; k++) st[k] = 11 + k + 100 * instance;
}
static void vstate_compute(const mjModel*, mjData*, int, int) {}
static inline void mkx_register_plugins() {
  static bool done = false;
  if (done) return;
  done = true;
  mjpPlugin p;
  mjp_defaultPlugin(&p);
  p.name = "verif.state";
  p.capabilityflags |= mjPLUGIN_PASSIVE;
  p.nstate = vstate_nstate;
  p.init = vstate_init;
  p.reset = vstate_reset;
  p.compute = vstate_compute;
  mjp_registerPlugin(&p);
}

static inline std::vector<std::string> mkx_csv(const std::string& v) { return drv_csv(v); }

// returns true if the line was one of the extra kinds
static inline bool mkx_line(mjSpec* s, const std::string& line) {
  std::string kind; std::vector<std::pair<std::string, std::string>> kv;
  mk_parse_line(line, kind, kv);
  auto done = [&]() { if (!kv.empty()) mk_die("unknown key '" + kv[0].first + "' for " + kind); return true; };
  if (kind == "activate") {
    std::string p = mk_take(kv, "plugin");
    if (mjs_activatePlugin(s, p.c_str()) != 0) mk_die("cannot activate plugin " + p);
    return done();
  }
  if (kind == "plugin") {
    std::string nm = mk_take(kv, "name", ""), p = mk_take(kv, "plugin");
    mjsPlugin* x = mjs_addPlugin(s);
    if (!nm.empty()) mjs_setName(x->element, nm.c_str());
    mjs_setString(x->plugin_name, p.c_str());
    x->active = 1;
    return done();
  }
  if (kind == "bodyplugin") {
    std::string b = mk_take(kv, "body"), p = mk_take(kv, "plugin"), inst = mk_take(kv, "instance", "");
    mjsBody* body = mjs_findBody(s, b.c_str());
    if (!body) mk_die("unknown body " + b);
    if (inst.empty()) inst = "vp_" + b;
    if (!mjs_findElement(s, mjOBJ_PLUGIN, inst.c_str())) {       // explicit instance, created on first use
      mjsPlugin* x = mjs_addPlugin(s);
      mjs_setName(x->element, inst.c_str());
      mjs_setString(x->plugin_name, p.c_str());
      x->active = 1;
    }
    mjs_setString(body->plugin.plugin_name, p.c_str());
    mjs_setString(body->plugin.name, inst.c_str());
    body->plugin.active = 1;
    return done();
  }
  if (kind == "hfield") {
    std::string nm = mk_take(kv, "name", "");
    mjsHField* h = mjs_addHField(s);
    if (!nm.empty()) mjs_setName(h->element, nm.c_str());
    h->nrow = (int)mk_nums(mk_take(kv, "nrow", "2")).at(0);
    h->ncol = (int)mk_nums(mk_take(kv, "ncol", "2")).at(0);
    auto sz = mk_nums(mk_take(kv, "size", "1,1,1,1"));
    for (int k = 0; k < 4; k++) h->size[k] = sz.at(k);
    auto ud = mk_nums(mk_take(kv, "userdata", ""));
    std::vector<float> f(ud.begin(), ud.end());
    if (f.empty()) f.assign((size_t)h->nrow * h->ncol, 0.f);
    mjs_setFloat(h->userdata, f.data(), (int)f.size());
    return done();
  }
  if (kind == "tuple") {
    std::string nm = mk_take(kv, "name", "");
    mjsTuple* t = mjs_addTuple(s);
    if (!nm.empty()) mjs_setName(t->element, nm.c_str());
    auto ty = mk_nums(mk_take(kv, "objtype"));
    std::vector<int> tyi; for (double d : ty) tyi.push_back((int)d);
    mjs_setInt(t->objtype, tyi.data(), (int)tyi.size());
    for (auto& n : mkx_csv(mk_take(kv, "objname"))) mjs_appendString(t->objname, n.c_str());
    auto prm = mk_nums(mk_take(kv, "objprm", ""));
    if (prm.empty()) prm.assign(tyi.size(), 0.0);
    mjs_setDouble(t->objprm, prm.data(), (int)prm.size());
    return done();
  }
  if (kind == "skin") {
    std::string nm = mk_take(kv, "name", ""), b = mk_take(kv, "body");
    mjsSkin* k = mjs_addSkin(s);
    if (!nm.empty()) mjs_setName(k->element, nm.c_str());
    float vert[9] = {0, 0, 0, 1, 0, 0, 0, 1, 0};
    int face[3] = {0, 1, 2};
    mjs_setFloat(k->vert, vert, 9);
    mjs_setInt(k->face, face, 3);
    mjs_appendString(k->bodyname, b.c_str());
    float bp[3] = {0, 0, 0}, bq[4] = {1, 0, 0, 0};
    mjs_setFloat(k->bindpos, bp, 3);
    mjs_setFloat(k->bindquat, bq, 4);
    int vid[3] = {0, 1, 2};
    float vw[3] = {1, 1, 1};
    mjs_appendIntVec(k->vertid, vid, 3);
    mjs_appendFloatVec(k->vertweight, vw, 3);
    return done();
  }
  if (kind == "ubody") {
    std::string par = mk_take(kv, "parent", "world");
    mjsBody* pb = mjs_findBody(s, par.c_str());
    if (!pb) mk_die("unknown body " + par);
    mjsBody* b = mjs_addBody(pb, nullptr);
    mk_apply(b, MK_BODY, kv, kind);
    return true;
  }
  if (kind == "tendonj") {
    std::string nm = mk_take(kv, "name", ""), j = mk_take(kv, "joint");
    double c = mk_nums(mk_take(kv, "coef", "1")).at(0);
    mjsTendon* t = mjs_addTendon(s, nullptr);
    if (!nm.empty()) mjs_setName(t->element, nm.c_str());
    mjs_wrapJoint(t, j.c_str(), c);
    return done();
  }
  if (kind == "flex") {
    std::string nm = mk_take(kv, "name", "");
    mjsFlex* f = mjs_addFlex(s);
    if (!nm.empty()) mjs_setName(f->element, nm.c_str());
    f->dim = (int)mk_nums(mk_take(kv, "dim", "1")).at(0);
    auto bodies = mkx_csv(mk_take(kv, "bodies"));
    for (auto& b : bodies) mjs_appendString(f->vertbody, b.c_str());
    std::vector<int> elem;
    if (f->dim != 1) mk_die("flex: only dim=1 is supported by this harness");
    for (size_t k = 0; k + 1 < bodies.size(); k++) { elem.push_back((int)k); elem.push_back((int)k + 1); }
    mjs_setInt(f->elem, elem.data(), (int)elem.size());
    f->radius = 0.01;
    return done();
  }
  return false;
}

static inline mjSpec* mkx_spec(const std::vector<std::string>& lines, size_t& i) {
  mkx_register_plugins();
  mjSpec* s = mj_makeSpec();
  for (; i < lines.size(); i++) {
    if (lines[i] == "end") { i++; break; }
    if (mkx_line(s, lines[i])) continue;
    if (!mk_line(s, lines[i])) mk_die("unknown model line: " + lines[i]);
  }
  return s;
}

// "xmodel <m>": returns true if handled
static inline bool mkx_op(const std::vector<std::string>& t, const std::vector<std::string>& lines, size_t& i) {
  if (t[0] != "xmodel") return false;
  int slot = atoi(t.at(1).c_str()); size_t j = i + 1;
  mjSpec* s = mkx_spec(lines, j); i = j - 1;
  if (g_spec.count(slot)) { mj_deleteSpec(g_spec[slot]); g_spec.erase(slot); }
  g_spec[slot] = s;
  for (auto it = g_data_model.begin(); it != g_data_model.end();) {      // data of the replaced model
    if (it->second == slot) { drv_free_data(it->first); it = g_data_model.erase(it); } else ++it;
  }
  drv_free_model(slot);
  mjModel* m = nullptr;
  if (HX_TRY) { m = mj_compile(s, nullptr); HX_END; } else { drv_err(hx_err); return true; }
  if (!m) { drv_err(mjs_getError(s)); return true; }
  g_model[slot] = m; printf("ok\n"); return true;
}
#endif
