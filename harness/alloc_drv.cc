// /verif harness for C21 (tla/AllocLifecycle.tla, tla/AllocLifecycleTrace.tla, checks/c21.py):
// fault injection through MuJoCo's public allocator hooks.  Every block handed out by mju_user_malloc gets a
// fresh small id; freed blocks are quarantined until the end of the run (content destroyed, poisoned under
// AddressSanitizer), so a second free of the same block, a free of a block that was never handed out, or a
// use after free is seen as such and never reaches the C library.
//
// ops (one output line each; the generic ops of mjdrv_common.h are available too, allocator events are
// recorded only inside `arun`):
//   amodel <slot> ... end      mkmodel.h description; extra line  `xpid actuator=<name> kp=.. ki=.. kd=..`
//                              attaches an instance of the first-party PID plugin (plugin data, temporary blocks)
//   arun <scenario> <slot> <faults|->   run a scenario program with the listed allocation attempts failing
//                              (1-based ordinals over the whole run, comma separated)
//                              -> {"nalloc":N,"trace":[event,..]}   every event has the same fields:
//        {"op","api","p","o","res","tg":[..],"owns":[{"o":..,"b":[..]},..],"dead":[..]}
//   op: call(api, o = owner object or 0, tg = objects the call may modify/destroy)   alloc(p)   allocfail
//       free(p)  (p > 0: id handed out earlier, live or already freed; p = 0: pointer never handed out)
//       error   warn   ret(res = obj|null|err|void, o = new object, owns = blocks the listed mjModel/mjData
//       objects consist of now, read off the objects; dead = objects destroyed by the call)   end
// A crash (signal / sanitizer report) ends the process; the last output line is
//   CRASH in=<api of the call in progress> after-failed-allocation-in=<api|->
#include <signal.h>
#include <stdint.h>
#include <set>
#include "mjdrv_common.h"
#include "pid.h"

struct AOwn { int o; std::vector<int> b; };
struct AEvent { const char* op; const char* api; int p; int o; const char* res; std::vector<int> tg; std::vector<AOwn> owns; std::vector<int> dead; };
static std::vector<AEvent> a_ev;
static bool a_rec = false;
static int a_natt = 0;                   // allocation attempts in this run
static int a_nextid = 0;
static std::set<int> a_faults;
static std::map<void*, int> a_live;      // pointer -> id (handed out, not freed)
static std::map<void*, int> a_quar;      // pointer -> id (freed, memory kept until the end of the run)
static std::set<void*> a_outside;        // blocks handed out while not recording
static std::map<void*, size_t> a_size;

#if defined(__SANITIZE_ADDRESS__)
#define A_HAVE_ASAN 1
#elif defined(__has_feature)
#if __has_feature(address_sanitizer)
#define A_HAVE_ASAN 1
#endif
#endif
#ifdef A_HAVE_ASAN
extern "C" void __asan_poison_memory_region(void const volatile* addr, size_t size);
extern "C" void __asan_unpoison_memory_region(void const volatile* addr, size_t size);
#endif
static void a_scrub(void* q) {
  size_t n = a_size[q];
#ifdef A_HAVE_ASAN
  __asan_unpoison_memory_region(q, n);      // the library poisons parts of the arena itself
#endif
  memset(q, 0xDD, n);
#ifdef A_HAVE_ASAN
  __asan_poison_memory_region(q, n);
#endif
}
static void a_release(void* q) {
#ifdef A_HAVE_ASAN
  __asan_unpoison_memory_region(q, a_size[q]);
#endif
  a_size.erase(q); free(q);
}
static const char* a_cur_api = "";       // call in progress
static const char* a_fail_api = "";      // call in which the most recent failed allocation happened
static AEvent* a_push(const char* op, const char* api = "", int p = 0, int o = 0, const char* res = "") {
  static AEvent dummy;
  if (!a_rec) return &dummy;
  if (op[0] == 'c') a_cur_api = api;
  if (!strcmp(op, "allocfail")) a_fail_api = a_cur_api;
  a_ev.push_back({op, api, p, o, res, {}, {}, {}});
  return &a_ev.back();
}
static void a_crash_line() {
  char b[256]; int n = snprintf(b, sizeof b, "\nCRASH in=%s after-failed-allocation-in=%s\n", a_cur_api[0] ? a_cur_api : "-", a_fail_api[0] ? a_fail_api : "-");
  if (n > 0) { ssize_t w = write(1, b, (size_t)n); (void)w; }
}
static void a_on_signal(int sig) { a_crash_line(); _exit(70); }
extern "C" void __sanitizer_set_death_callback(void (*cb)(void)) __attribute__((weak));

static void* a_malloc(size_t sz) {
  size_t rs = sz ? ((sz + 63) / 64) * 64 : 64;
  if (!a_rec) { void* q = aligned_alloc(64, rs); a_outside.insert(q); return q; }
  // a request for zero bytes may legitimately yield NULL: it is served, never counted as a fault candidate
  if (sz) a_natt++;
  if (sz && a_faults.count(a_natt)) { a_push("allocfail"); return nullptr; }
  void* q = aligned_alloc(64, rs);
  if (!q) { fprintf(stdout, "FATAL out of memory\n"); fflush(stdout); _exit(5); }
  memset(q, 0xCD, rs);
  int id = ++a_nextid; a_live[q] = id; a_size[q] = rs; a_push("alloc", "", id);
  return q;
}
static void a_free(void* q) {
  if (!q) return;
  auto it = a_live.find(q);
  if (it != a_live.end()) { a_push("free", "", it->second); a_quar[q] = it->second; a_live.erase(it); a_scrub(q); return; }
  auto iq = a_quar.find(q);
  if (iq != a_quar.end()) { a_push("free", "", iq->second); return; }            // double free: not forwarded
  auto io = a_outside.find(q);
  if (io != a_outside.end()) { a_push("free", "", 0); a_outside.erase(io); free(q); return; }
  a_push("free", "", 0);                                                          // unknown pointer: not forwarded
}
static void a_on_error(const char* msg) {
  snprintf(hx_err, sizeof hx_err, "%s", msg); a_push("error");
  if (hx_armed) longjmp(hx_jmp, 1);
  fprintf(stdout, "FATAL %s\n", msg); fflush(stdout); _exit(3);
}
static void a_on_warning(const char* msg) { hx_nwarn++; a_push("warn"); }

// ---- ground truth: the blocks an object of public layout consists of --------------------------------------
static void a_add(std::vector<int>& b, const void* q) { auto it = a_live.find((void*)q); if (q && it != a_live.end()) b.push_back(it->second); }
static AOwn a_blocks(int o, const mjModel* m) { AOwn w{o, {}}; a_add(w.b, m); if (a_live.count((void*)m)) a_add(w.b, m->buffer); return w; }
static AOwn a_blocks(int o, const mjData* d) { AOwn w{o, {}}; a_add(w.b, d); if (a_live.count((void*)d)) { a_add(w.b, d->buffer); a_add(w.b, d->arena); } return w; }

// ---- scenario programs ---------------------------------------------------------------------------
static int a_obj = 0;
static void a_call(const char* api, int owner, std::vector<int> tg) { a_push("call", api, 0, owner)->tg = tg; }
// creating call: `stmt` assigns `ptr`; a new object of public layout gets its blocks from a_blocks
#define A_CREATE(api, owner, tgs, ptr, stmt) do { a_call(api, owner, tgs); ptr = nullptr; \
    if (HX_TRY) { stmt; HX_END; if (ptr) { ++a_obj; a_push("ret", "", 0, a_obj, "obj")->owns = {a_blocks(a_obj, ptr)}; } else a_push("ret", "", 0, 0, "null"); } \
    else { ptr = nullptr; a_push("ret", "", 0, 0, "err"); } } while (0)
// call without result that neither owns nor destroys (stepping, saving): no targets
#define A_RUN(api, stmt) do { a_call(api, 0, {}); \
    if (HX_TRY) { stmt; HX_END; a_push("ret", "", 0, 0, "void"); } else a_push("ret", "", 0, 0, "err"); } while (0)
// call that works on object o in place; afterwards the object consists of a_blocks(o, ptr)
#define A_INPLACE(api, o, ptr, stmt) do { a_call(api, 0, {o}); \
    if (HX_TRY) { stmt; HX_END; a_push("ret", "", 0, 0, "void")->owns = {a_blocks(o, ptr)}; } else a_push("ret", "", 0, 0, "err")->owns = {a_blocks(o, ptr)}; } while (0)
#define A_DELETE(api, o, stmt) do { a_call(api, 0, {o}); \
    if (HX_TRY) { stmt; HX_END; a_push("ret", "", 0, 0, "void")->dead = {o}; } else a_push("ret", "", 0, 0, "err"); } while (0)
#define NOTG std::vector<int>()

static void sc_makedata(mjModel* m) {
  mjData* volatile d1; mjData* volatile d2; int o1, o2;
  A_CREATE("mj_makeData", 0, NOTG, d1, d1 = mj_makeData(m)); o1 = d1 ? a_obj : 0;
  A_CREATE("mj_makeData", 0, NOTG, d2, d2 = mj_makeData(m)); o2 = d2 ? a_obj : 0;
  if (d1) A_RUN("mj_resetData", mj_resetData(m, d1));
  if (d2) A_DELETE("mj_deleteData", o2, mj_deleteData(d2));
  if (d1) A_DELETE("mj_deleteData", o1, mj_deleteData(d1));
}
static void sc_copydata(mjModel* m) {
  mjData* volatile d0; mjData* volatile d1; int o0, o1;
  A_CREATE("mj_makeData", 0, NOTG, d0, d0 = mj_makeData(m)); o0 = d0 ? a_obj : 0;
  if (!d0) return;
  A_RUN("mj_forward", mj_forward(m, d0));
  A_CREATE("mj_copyData", 0, NOTG, d1, d1 = mj_copyData(nullptr, m, d0)); o1 = d1 ? a_obj : 0;
  if (d1) A_INPLACE("mj_copyData", o1, d1, mj_copyData(d1, m, d0));
  if (d1) A_INPLACE("mjv_copyData", o1, d1, mjv_copyData(d1, m, d0));
  if (d1) A_DELETE("mj_deleteData", o1, mj_deleteData(d1));
  A_DELETE("mj_deleteData", o0, mj_deleteData(d0));
}
static void sc_copymodel(mjModel* m) {
  mjModel* volatile m1; mjModel* volatile m2; int o1, o2;
  A_CREATE("mj_copyModel", 0, NOTG, m1, m1 = mj_copyModel(nullptr, m)); o1 = m1 ? a_obj : 0;
  if (m1) A_INPLACE("mj_copyModel", o1, m1, mj_copyModel(m1, m));
  A_CREATE("mj_copyModel", 0, NOTG, m2, m2 = mj_copyModel(nullptr, m1 ? m1 : m)); o2 = m2 ? a_obj : 0;
  if (m1) A_DELETE("mj_deleteModel", o1, mj_deleteModel(m1));
  if (m2) A_DELETE("mj_deleteModel", o2, mj_deleteModel(m2));
}
static void sc_loadmodel(mjModel* m) {
  mjtSize sz = mj_sizeModel(m);
  std::vector<unsigned char> buf((size_t)sz);
  A_RUN("mj_saveModel", mj_saveModel(m, nullptr, buf.data(), (int)sz));
  mjModel* volatile m1; mjModel* volatile m2; int o1, o2;
  A_CREATE("mj_loadModelBuffer", 0, NOTG, m1, m1 = mj_loadModelBuffer(buf.data(), (int)sz)); o1 = m1 ? a_obj : 0;
  A_CREATE("mj_loadModelBuffer", 0, NOTG, m2, m2 = mj_loadModelBuffer(buf.data(), (int)sz)); o2 = m2 ? a_obj : 0;
  if (m1) A_DELETE("mj_deleteModel", o1, mj_deleteModel(m1));
  if (m2) A_DELETE("mj_deleteModel", o2, mj_deleteModel(m2));
}
static void sc_savefile(mjModel* m) {
  // mj_saveModel without a buffer serialises into a temporary block from the allocator, then writes the file
  A_RUN("mj_saveModel", mj_saveModel(m, "c21_saved.mjb", nullptr, 0));
  A_RUN("mj_saveModel", mj_saveModel(m, "c21_saved.mjb", nullptr, 0));
}
static void sc_step(mjModel* m) {
  mjData* volatile d; int o;
  A_CREATE("mj_makeData", 0, NOTG, d, d = mj_makeData(m)); o = d ? a_obj : 0;
  if (!d) return;
  for (int k = 0; k < 3; k++) A_RUN("mj_step", mj_step(m, d));
  A_RUN("mj_forward", mj_forward(m, d));
  A_RUN("mj_inverse", mj_inverse(m, d));
  A_RUN("mj_resetData", mj_resetData(m, d));
  A_RUN("mj_step", mj_step(m, d));
  A_DELETE("mj_deleteData", o, mj_deleteData(d));
}

// an mjSpec is an opaque object: it owns whatever its creating call allocated and kept
static mjSpec* a_spec(const std::vector<std::string>& desc);
static mjSpec* a_newspec(const char* api, const std::vector<std::string>* desc, mjSpec* from, int* o) {
  int id0 = a_nextid;
  a_call(api, 0, NOTG);
  mjSpec* volatile s = nullptr;
  if (HX_TRY) { s = desc ? a_spec(*desc) : mj_copySpec(from); HX_END; } else { a_push("ret", "", 0, 0, "err"); *o = 0; return nullptr; }
  if (!s) { a_push("ret", "", 0, 0, "null"); *o = 0; return nullptr; }
  AOwn w{++a_obj, {}};
  for (auto& kv : a_live) if (kv.second > id0) w.b.push_back(kv.second);
  a_push("ret", "", 0, a_obj, "obj")->owns = {w};
  *o = a_obj; return s;
}
static void sc_compile(const std::vector<std::string>& desc) {
  int os; mjSpec* s = a_newspec("mj_makeSpec+mjs_add", &desc, nullptr, &os);
  if (!s) return;
  mjModel* volatile m1; mjModel* volatile m2; int o1, o2;
  std::vector<int> tg{os};
  A_CREATE("mj_compile", os, tg, m1, m1 = mj_compile(s, nullptr)); o1 = m1 ? a_obj : 0;
  A_CREATE("mj_compile", os, tg, m2, m2 = mj_compile(s, nullptr)); o2 = m2 ? a_obj : 0;
  if (m1) A_DELETE("mj_deleteModel", o1, mj_deleteModel(m1));
  if (m2) A_DELETE("mj_deleteModel", o2, mj_deleteModel(m2));
  A_DELETE("mj_deleteSpec", os, mj_deleteSpec(s));
}
static void sc_specfull(const std::vector<std::string>& desc) {
  int os, os2 = 0; mjSpec* s = a_newspec("mj_makeSpec+mjs_add", &desc, nullptr, &os);
  if (!s) return;
  mjModel* volatile m1; mjModel* volatile m2 = nullptr; int o1, o2 = 0;
  std::vector<int> tg{os};
  A_CREATE("mj_compile", os, tg, m1, m1 = mj_compile(s, nullptr)); o1 = m1 ? a_obj : 0;
  mjSpec* s2 = a_newspec("mj_copySpec", nullptr, s, &os2);
  std::vector<int> tg2{os2};
  if (s2) { A_CREATE("mj_compile", os2, tg2, m2, m2 = mj_compile(s2, nullptr)); o2 = m2 ? a_obj : 0; }
  A_DELETE("mj_deleteSpec", os, mj_deleteSpec(s));                      // models outlive their spec
  if (m1) A_DELETE("mj_deleteModel", o1, mj_deleteModel(m1));
  if (m2) A_DELETE("mj_deleteModel", o2, mj_deleteModel(m2));
  if (s2) A_DELETE("mj_deleteSpec", os2, mj_deleteSpec(s2));
}
static void sc_recompile(const std::vector<std::string>& desc) {
  int os; mjSpec* s = a_newspec("mj_makeSpec+mjs_add", &desc, nullptr, &os);
  if (!s) return;
  mjModel* volatile m1; mjData* volatile d1 = nullptr; int om, od = 0;
  std::vector<int> tg{os};
  A_CREATE("mj_compile", os, tg, m1, m1 = mj_compile(s, nullptr)); om = m1 ? a_obj : 0;
  if (m1) { A_CREATE("mj_makeData", 0, NOTG, d1, d1 = mj_makeData(m1)); od = d1 ? a_obj : 0; }
  if (m1 && d1) {
    // mj_recompile rebuilds model and data in place; when it fails (-1) it has destroyed both
    volatile int rc = 0; volatile int how = 0;     // how: 0 ok, 1 failed, 2 an error left the call
    a_call("mj_recompile", os, std::vector<int>{os, om, od});
    if (HX_TRY) {
      rc = mj_recompile(s, nullptr, m1, d1); HX_END; how = rc == 0 ? 0 : 1;
      if (rc == 0) a_push("ret", "", 0, 0, "void")->owns = {a_blocks(om, m1), a_blocks(od, d1)};
      else a_push("ret", "", 0, 0, "null")->dead = {om, od};
    } else { how = 2; a_push("ret", "", 0, 0, "err")->owns = {a_blocks(om, m1), a_blocks(od, d1)}; }
    if (how == 1) { m1 = nullptr; d1 = nullptr; }
    if (how == 0) A_RUN("mj_step", mj_step(m1, d1));
  }
  if (d1) A_DELETE("mj_deleteData", od, mj_deleteData(d1));
  if (m1) A_DELETE("mj_deleteModel", om, mj_deleteModel(m1));
  A_DELETE("mj_deleteSpec", os, mj_deleteSpec(s));
}

static std::map<int, std::vector<std::string>> a_desc;

static mjSpec* a_spec(const std::vector<std::string>& desc) {
  std::vector<std::string> plain, pid;
  for (auto& l : desc) (l.rfind("xpid ", 0) == 0 ? pid : plain).push_back(l);
  plain.push_back("end");
  size_t j = 0; mjSpec* s = mk_spec(plain, j);
  int n = 0;
  for (auto& l : pid) {
    std::string kind; std::vector<std::pair<std::string, std::string>> kv; mk_parse_line(l, kind, kv);
    std::string an = mk_take(kv, "actuator");
    mjsElement* e = mjs_findElement(s, mjOBJ_ACTUATOR, an.c_str()); if (!e) mk_die("xpid: unknown actuator " + an);
    if (mjs_activatePlugin(s, "mujoco.pid")) mk_die("xpid: plugin mujoco.pid is not registered");
    mjsPlugin* p = mjs_addPlugin(s);
    std::string in = "pid" + std::to_string(n++);
    mjs_setName(p->element, in.c_str());
    mjs_setString(p->plugin_name, "mujoco.pid");
    p->active = 1;
    std::map<std::string, std::string, std::less<>> attr;
    for (auto& q : kv) attr[q.first] = q.second;
    mjs_setPluginAttributes(p, &attr);
    mjsActuator* a = mjs_asActuator(e);
    mjs_setString(a->plugin.plugin_name, "mujoco.pid");
    mjs_setString(a->plugin.name, in.c_str());
    a->plugin.active = 1;
  }
  return s;
}

static void a_ints(std::string& o, const std::vector<int>& v) {
  o += "["; for (size_t k = 0; k < v.size(); k++) { if (k) o += ","; o += std::to_string(v[k]); } o += "]";
}
static bool a_extra(const std::vector<std::string>& t, const std::vector<std::string>& lines, size_t& i) {
  const std::string& op = t[0];
  if (op == "amodel") {
    int slot = atoi(t.at(1).c_str());
    std::vector<std::string> desc; size_t j = i + 1;
    for (; j < lines.size() && lines[j] != "end"; j++) desc.push_back(lines[j]);
    i = j;
    a_desc[slot] = desc;
    mjSpec* s = a_spec(desc);
    if (g_spec.count(slot)) mj_deleteSpec(g_spec[slot]);
    g_spec[slot] = s; drv_free_model(slot);
    mjModel* m = nullptr;
    if (HX_TRY) { m = mj_compile(s, nullptr); HX_END; } else { drv_err(hx_err); return true; }
    if (!m) { drv_err(mjs_getError(s)); return true; }
    g_model[slot] = m; printf("ok %lld %lld %lld\n", (long long)m->nplugin, (long long)m->npluginstate, (long long)m->nmesh); return true;
  }
  if (op == "arun") {
    const std::string& sc = t.at(1); int slot = atoi(t.at(2).c_str());
    a_faults.clear();
    if (t.size() > 3 && t[3] != "-") for (double x : drv_nums(t[3])) a_faults.insert((int)x);
    a_ev.clear(); a_ev.reserve(1 << 16); a_natt = 0; a_nextid = 0; a_obj = 0; a_cur_api = ""; a_fail_api = "";
    void (*pe)(const char*) = mju_user_error; void (*pw)(const char*) = mju_user_warning;
    mju_user_error = a_on_error; mju_user_warning = a_on_warning;
    a_rec = true;
    if (sc == "makedata") sc_makedata(M(slot));
    else if (sc == "copydata") sc_copydata(M(slot));
    else if (sc == "copymodel") sc_copymodel(M(slot));
    else if (sc == "loadmodel") sc_loadmodel(M(slot));
    else if (sc == "savefile") sc_savefile(M(slot));
    else if (sc == "step") sc_step(M(slot));
    else if (sc == "compile") sc_compile(a_desc.at(slot));
    else if (sc == "recompile") sc_recompile(a_desc.at(slot));
    else if (sc == "specfull") sc_specfull(a_desc.at(slot));
    else mk_die("unknown scenario " + sc);
    a_push("end");
    a_rec = false;
    mju_user_error = pe; mju_user_warning = pw;
    // release everything (leaked live blocks included) so that runs are independent
    for (auto& kv : a_live) a_release(kv.first);
    for (auto& kv : a_quar) a_release(kv.first);
    a_live.clear(); a_quar.clear();
    std::string o = "{\"nalloc\":" + std::to_string(a_natt) + ",\"trace\":[";
    char b[256];
    for (size_t k = 0; k < a_ev.size(); k++) {
      const AEvent& e = a_ev[k];
      snprintf(b, sizeof b, "%s{\"op\":\"%s\",\"api\":\"%s\",\"p\":%d,\"o\":%d,\"res\":\"%s\",\"tg\":", k ? "," : "", e.op, e.api, e.p, e.o, e.res);
      o += b; a_ints(o, e.tg); o += ",\"owns\":[";
      for (size_t q = 0; q < e.owns.size(); q++) { if (q) o += ","; o += "{\"o\":" + std::to_string(e.owns[q].o) + ",\"b\":"; a_ints(o, e.owns[q].b); o += "}"; }
      o += "],\"dead\":"; a_ints(o, e.dead); o += "}";
    }
    o += "]}"; printf("%s\n", o.c_str()); return true;
  }
  return false;
}
int main() {
  setvbuf(stdout, nullptr, _IONBF, 0);
  if (__sanitizer_set_death_callback) __sanitizer_set_death_callback(a_crash_line);
  else { signal(SIGSEGV, a_on_signal); signal(SIGBUS, a_on_signal); signal(SIGABRT, a_on_signal); signal(SIGFPE, a_on_signal); signal(SIGILL, a_on_signal); }
  mju_user_malloc = a_malloc; mju_user_free = a_free;
  mujoco::plugin::actuator::Pid::RegisterPlugin();
  return drv_main(a_extra);
}
