// /verif harness for C02: real mj_step / mj_forward with an engine thread pool under the controlled
// scheduler (the UNMODIFIED engine_thread.cc is compiled into this executable against shim/sched and
// interposes the library's copy; mju_dispatch is wrapped to mark task start/end), compared bytewise, after
// every call, with the pool-less run of the same model and inputs.
// stdin: mkmodel description, "end", then lines:  nthread N | steps K | seed S | mode step|forward|inverse
//        | setv <field> v0,v1,... (applied to both runs) | go
#include <iostream>
#include "mjdrv_common.h"
#include "sched/vt_sched.h"
#include "engine/engine_thread.h"

extern "C" void mju_dispatch_real(const mjModel* m, mjData* d, mjTaskFunc func, void* arg, int ntask);
extern "C" void (*mjv_verif_stackhook)(const mjData* d, size_t old_pstack, size_t alloc_size);

struct Tramp { mjTaskFunc f; void* arg; };
static void tramp(const mjModel* m, mjData* d, void* a, int th, int task) {
  vt::mark("tstart", "task", task * 16 + th);
  ((Tramp*)a)->f(m, d, ((Tramp*)a)->arg, th, task);
  vt::mark("tend", "task", task * 16 + th);
}
extern "C" void mju_dispatch(const mjModel* m, mjData* d, mjTaskFunc func, void* arg, int ntask) {
  vt::mark("api", "dispatch", ntask * 100 + (d->threadlock ? 10 : 0));
  Tramp t{func, arg};
  mju_dispatch_real(m, d, tramp, &t, ntask);
}
static void stackhook(const mjData* d, size_t old_pstack, size_t alloc_size) {
  if (!vt::self) return;
  vt::yield_begin("salloc", "stack", 0);
  // read pstack only now: once granted, this thread runs alone until its next yield point, so the value read
  // here is exactly the value the atomic add that follows will return
  old_pstack = d->pstack;
  fprintf(vt::G.log, "{\"seq\":%ld,\"t\":%d,\"op\":\"salloc\",\"obj\":\"stack\",\"val\":%zu,\"sz\":%zu}\n",
          vt::G.seq, vt::self->id, old_pstack, alloc_size);
  vt::G.seq++; pthread_mutex_unlock(&vt::G.mu);
}

static const char* FIELDS = "qpos,qvel,act,qacc,qacc_warmstart,sensordata,contact,efc_force,qfrc_constraint,qfrc_inverse,time,ncon,nefc,nisland,xpos,actuator_force";

static void snapshot(const mjModel* m, mjData* d, std::vector<std::vector<unsigned char>>& out) {
  out.clear(); std::vector<unsigned char> b;
  for (auto& f : drv_csv(FIELDS)) { if (!drv_field_bytes(m, d, f, b)) mk_die("field " + f); out.push_back(b); }
}

int main() {
  hx_install();
  setvbuf(stdout, nullptr, _IOFBF, 1 << 20);
  std::vector<std::string> lines; std::string line;
  while (std::getline(std::cin, line)) lines.push_back(line);
  size_t i = 0;
  mjSpec* s = mk_spec(lines, i);
  mjModel* m = mj_compile(s, nullptr);
  if (!m) { printf("{\"end\":\"modelerror\",\"msg\":\"%s\"}\n", mjs_getError(s)); return 0; }
  int nthread = 2, steps = 3; unsigned long long seed = 1; std::string mode = "step";
  std::vector<std::pair<std::string, std::string>> sets;
  for (; i < lines.size(); i++) {
    auto t = split(lines[i]); if (t.empty()) continue;
    if (t[0] == "nthread") nthread = atoi(t[1].c_str());
    else if (t[0] == "steps") steps = atoi(t[1].c_str());
    else if (t[0] == "seed") seed = strtoull(t[1].c_str(), 0, 10);
    else if (t[0] == "mode") mode = t[1];
    else if (t[0] == "setv") sets.push_back({t[1], t.size() > 2 ? t[2] : ""});
  }
  auto apply = [&](mjData* d) {
    for (auto& kv : sets) { DrvFld f; auto v = drv_data_fields(m, d); if (!drv_find(v, kv.first, f)) mk_die("field " + kv.first);
      auto x = drv_nums(kv.second); for (size_t k = 0; k < x.size(); k++) drv_write(f, k, x[k]); }
  };
  auto call = [&](mjData* d) {
    if (mode == "step") mj_step(m, d); else if (mode == "forward") mj_forward(m, d);
    else { mj_forward(m, d); mj_inverse(m, d); }
  };
  // reference run: no pool, scheduler not started (all marks are no-ops)
  mjData* da = mj_makeData(m); apply(da);
  std::vector<std::vector<std::vector<unsigned char>>> ref(steps);
  for (int k = 0; k < steps; k++) { call(da); snapshot(m, da, ref[k]); }
  // pooled run under the controlled scheduler
  vt::G.rng ^= seed * 0x9E3779B97F4A7C15ULL; for (int k = 0; k < 4; k++) vt::rnd();
  vt::G.max_steps = 4000000;
  vt::G.namer = [](int k) { static const char* n[3] = {"next", "ndone", "signal"}; return std::string(n[k % 3]); };
  mjv_verif_stackhook = stackhook;
  vt::init_main();
  mjData* db = mj_makeData(m); apply(db);
  vt::mark("api", "pool", nthread * 100);
  mju_threadpool(db, nthread);
  auto fields = drv_csv(FIELDS);
  std::vector<std::vector<unsigned char>> cur;
  for (int k = 0; k < steps; k++) {
    call(db); snapshot(m, db, cur);
    std::string bad;
    for (size_t f = 0; f < fields.size(); f++) if (cur[f] != ref[k][f]) { bad = fields[f]; break; }
    vt::yield_begin("cmp", "-", k);
    fprintf(vt::G.log, "{\"seq\":%ld,\"t\":0,\"op\":\"cmp\",\"step\":%d,\"res\":\"%s\",\"ncon\":%d,\"nefc\":%d,\"nisland\":%d}\n",
            vt::G.seq, k, bad.empty() ? "eq" : bad.c_str(), db->ncon, db->nefc, db->nisland);
    vt::G.seq++; pthread_mutex_unlock(&vt::G.mu);
  }
  vt::mark("api", "pool", 0);
  mju_threadpool(db, 0);
  vt::die("done", "ok");
}
