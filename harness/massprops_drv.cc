// /verif harness for C35 (tla/MassProps.tla, checks/c35.py): compile a mkmodel.h description and print, for every body
// but the world, the compiled mass properties in a projection that does not depend on how the compiler orders or
// orients the principal axes:
//   props <m>   ->  "<nbody> | id mass ipx ipy ipz Ixx Iyy Izz Ixy Ixz Iyz i0 i1 i2 ngeom | ..."
// where I = R(body_iquat) diag(body_inertia) R(body_iquat)' is the inertia tensor about body_ipos in the body frame.
// The quaternion -> matrix conversion is written out here (not taken from the library under test).
// Edit-and-recompile histories on ONE mjSpec (generic ops `spec <s> .. end`, `compile <m> <s>`, `data <d> <m>` come from
// mjdrv_common.h):
//   irange <s> <lo> <hi>                      spec->compiler.inertiagrouprange
//   gset <s> <geomname> <field> <v1,v2,..>    field: group | density | mass | size | pos   (edits the mjsGeom in place)
//   recomp <s> <m> <d>                        mj_recompile on the same spec / model / data -> "0" | "error .."
#include "mjdrv_common.h"

static void quat2mat(const mjtNum q[4], double R[3][3]) {
  double n = sqrt(q[0] * q[0] + q[1] * q[1] + q[2] * q[2] + q[3] * q[3]);
  double w = q[0] / n, x = q[1] / n, y = q[2] / n, z = q[3] / n;
  R[0][0] = 1 - 2 * (y * y + z * z); R[0][1] = 2 * (x * y - w * z);     R[0][2] = 2 * (x * z + w * y);
  R[1][0] = 2 * (x * y + w * z);     R[1][1] = 1 - 2 * (x * x + z * z); R[1][2] = 2 * (y * z - w * x);
  R[2][0] = 2 * (x * z - w * y);     R[2][1] = 2 * (y * z + w * x);     R[2][2] = 1 - 2 * (x * x + y * y);
}

static bool extra(const std::vector<std::string>& t, const std::vector<std::string>& lines, size_t& i) {
  (void)lines; (void)i;
  if (t[0] == "props") {
    mjModel* m = M(atoi(t.at(1).c_str()));
    printf("%d", (int)m->nbody);
    for (int b = 1; b < m->nbody; b++) {
      double R[3][3]; quat2mat(m->body_iquat + 4 * b, R);
      const mjtNum* d = m->body_inertia + 3 * b;
      double T[3][3];
      for (int r = 0; r < 3; r++) for (int c = 0; c < 3; c++) {
        T[r][c] = 0; for (int k = 0; k < 3; k++) T[r][c] += R[r][k] * d[k] * R[c][k];
      }
      int ng = 0; for (int g = 0; g < m->ngeom; g++) if (m->geom_bodyid[g] == b) ng++;
      printf(" | %d", b);
      const double out[] = {m->body_mass[b], m->body_ipos[3 * b], m->body_ipos[3 * b + 1], m->body_ipos[3 * b + 2],
                            T[0][0], T[1][1], T[2][2], T[0][1], T[0][2], T[1][2], d[0], d[1], d[2]};
      for (double x : out) { printf(" "); drv_print_num(x); }
      printf(" %d", ng);
    }
    printf("\n");
    return true;
  }
  if (t[0] == "irange") {
    mjSpec* sp = g_spec.at(atoi(t.at(1).c_str()));
    sp->compiler.inertiagrouprange[0] = atoi(t.at(2).c_str());
    sp->compiler.inertiagrouprange[1] = atoi(t.at(3).c_str());
    printf("ok\n"); return true;
  }
  if (t[0] == "gset") {
    mjSpec* sp = g_spec.at(atoi(t.at(1).c_str()));
    mjsElement* e = mjs_findElement(sp, mjOBJ_GEOM, t.at(2).c_str());
    if (!e) { printf("error unknown geom %s\n", t.at(2).c_str()); return true; }
    mjsGeom* g = mjs_asGeom(e);
    auto v = drv_nums(t.at(4));
    const std::string& f = t.at(3);
    if (f == "group") g->group = (int)v.at(0);
    else if (f == "density") g->density = v.at(0);
    else if (f == "mass") g->mass = v.at(0);
    else if (f == "size") { for (int k = 0; k < 3; k++) g->size[k] = v.at(k); }
    else if (f == "pos") { for (int k = 0; k < 3; k++) g->pos[k] = v.at(k); }
    else { printf("error unknown field %s\n", f.c_str()); return true; }
    printf("ok\n"); return true;
  }
  if (t[0] == "recomp") {
    int ss = atoi(t.at(1).c_str()), ms = atoi(t.at(2).c_str()), ds = atoi(t.at(3).c_str());
    int r = -99;
    if (HX_TRY) { r = mj_recompile(g_spec.at(ss), nullptr, M(ms), D(ds)); HX_END; } else { drv_err(hx_err); return true; }
    if (r != 0) {
      // on failure mj_recompile has freed model and data: forget them
      g_model.erase(ms); g_data.erase(ds);
      const char* msg = mjs_getError(g_spec.at(ss));
      printf("error recompile %d %s\n", r, msg ? msg : ""); return true;
    }
    printf("0\n"); return true;
  }
  return false;
}

int main() { return drv_main(extra); }
