// /verif harness for C40 (sequential part): drives the real plugin registry of the library.
//   regplugin <hexname> <body>   -> slot | "error"      (body -> capabilityflags/needstage variation)
//   getplugin <hexname>          -> slot (-1 if absent; also checks the returned object's name matches)
//   pluginat <slot>              -> hex name | "null"
//   nplugin                      -> count
#include "hx.h"
#include <iostream>
int main() {
  hx_install();
  std::string line;
  while (std::getline(std::cin, line)) {
    auto t = split(line); if (t.empty()) continue;
    if (t[0] == "regplugin") {
      std::string n = unhex(t[1]); int body = atoi(t[2].c_str());
      mjpPlugin p; mjp_defaultPlugin(&p); p.name = n.c_str(); p.capabilityflags = mjPLUGIN_PASSIVE; p.needstage = body;
      p.nstate = +[](const mjModel*, int) { return 0; };
      p.compute = +[](const mjModel*, mjData*, int, int) {};
      int slot = -2;
      if (HX_TRY) { slot = mjp_registerPlugin(&p); HX_END; printf("%d\n", slot); } else printf("error\n");
    } else if (t[0] == "getplugin") {
      std::string n = unhex(t[1]); int slot = -7; const mjpPlugin* p = mjp_getPlugin(n.c_str(), &slot);
      if (!p) printf("-1\n"); else printf("%d\n", slot);
    } else if (t[0] == "pluginat") {
      const mjpPlugin* p = mjp_getPluginAtSlot(atoi(t[1].c_str()));
      if (!p) printf("null\n"); else printf("%s\n", tohex(p->name, strlen(p->name)).c_str());
    } else if (t[0] == "nplugin") printf("%d\n", mjp_pluginCount());
    else printf("?\n");
    fflush(stdout);
  }
}
