// /verif harness for C38: white-box driver of mjCCache (src/user/user_cache.{h,cc} compiled into the harness
// against the controlled scheduler: std::mutex is a yield point).  Sequential mode: one op per stdin line,
// one output line per op.  Concurrent mode: "thread <ops separated by ;>" lines then "random <seed>":
// each thread runs its ops; the scheduler log (lock/unlock/ret events) is printed as JSON lines.
//   new <cap> | insert <model> <id> <ts> <bytes> <tok> | populate <id> <ts> | has <id> | removemodel <m>
//   resetmodel <m> | resetall | delete <id> | setcap <c>
// every op answers "<ret> <size> <capacity>"
#include <iostream>
#include <memory>
#include <sstream>
#include <string>
#include <vector>
#include <mujoco/mujoco.h>
#include "sched/vt_sched.h"
#include "user/user_cache.h"

static mjpResourceProvider g_prov;
static std::unique_ptr<mjCCache> g_cache;

static std::string do_op(const std::vector<std::string>& t) {
  std::ostringstream o;
  const std::string& op = t[0];
  mjResource res; memset(&res, 0, sizeof res); res.provider = &g_prov;
  if (op == "new") { g_cache.reset(new mjCCache((size_t)atol(t[1].c_str()))); o << "ok"; }
  else if (op == "insert") {
    snprintf(res.timestamp, sizeof res.timestamp, "%s", t[3].c_str());
    std::shared_ptr<const void> data(new long(atol(t[5].c_str())), [](const void* p) { delete (const long*)p; });
    o << (g_cache->Insert(t[1], t[2], &res, data, (size_t)atol(t[4].c_str())) ? 1 : 0);
  } else if (op == "populate") {
    snprintf(res.timestamp, sizeof res.timestamp, "%s", t[2].c_str());
    long tok = 0;
    bool ok = g_cache->PopulateData(t[1], &res, [&](const void* d) { tok = *(const long*)d; return true; });
    o << (ok ? 1 : 0) << ":" << tok;
  } else if (op == "has") { const std::string* ts = g_cache->HasAsset(t[1]); o << (ts ? *ts : std::string("none")); }
  else if (op == "removemodel") { g_cache->RemoveModel(t[1]); o << "ok"; }
  else if (op == "resetmodel") { g_cache->Reset(t[1]); o << "ok"; }
  else if (op == "resetall") { g_cache->Reset(); o << "ok"; }
  else if (op == "delete") { g_cache->DeleteAsset(t[1]); o << "ok"; }
  else if (op == "setcap") { g_cache->SetCapacity((size_t)atol(t[1].c_str())); o << "ok"; }
  else o << "?";
  return o.str();
}
static std::vector<std::string> toks(const std::string& s) { std::istringstream is(s); std::vector<std::string> v; std::string x; while (is >> x) v.push_back(x); return v; }

static std::vector<std::vector<std::string>> g_prog;
static void worker(int idx) {
  int k = 0;
  for (auto& line : g_prog[idx]) {
    std::string r = do_op(toks(line));
    // result event: printed as a scheduler event so that it is ordered with the lock events
    vt::yield_begin("ret", "-", k);
    fprintf(vt::G.log, "{\"seq\":%ld,\"t\":%d,\"op\":\"ret\",\"k\":%d,\"cmd\":\"%s\",\"res\":\"%s\"}\n", vt::G.seq, vt::self->id, k, line.c_str(), r.c_str());
    vt::G.seq++; pthread_mutex_unlock(&vt::G.mu);
    k++;
  }
}

int main() {
  g_prov = mjpResourceProvider(); memset(&g_prov, 0, sizeof g_prov);
  g_prov.modified = +[](const mjResource* r, const char* ts) -> int { return strcmp(r->timestamp, ts) != 0; };
  vt::G.namer = [](int k) { return std::string("mutex"); };
  std::string line; bool conc = false; long cap0 = 4;
  while (std::getline(std::cin, line)) {
    auto t = toks(line); if (t.empty()) continue;
    if (t[0] == "thread") {
      conc = true; std::vector<std::string> ops; std::string rest = line.substr(7), cur;
      std::istringstream is(rest); while (std::getline(is, cur, ';')) if (!toks(cur).empty()) ops.push_back(cur.substr(cur.find_first_not_of(' ')));
      g_prog.push_back(ops);
    } else if (t[0] == "random") {
      unsigned long long s = strtoull(t[1].c_str(), 0, 10); vt::G.rng ^= s * 0x9E3779B97F4A7C15ULL; for (int i = 0; i < 4; i++) vt::rnd();
      setvbuf(stdout, nullptr, _IOFBF, 1 << 20);
      vt::init_main();
      std::vector<std::thread> ths;
      for (size_t i = 0; i < g_prog.size(); i++) ths.emplace_back(worker, (int)i);
      for (auto& th : ths) th.join();
      size_t fsz = g_cache->Size(), fcap = g_cache->Capacity();
      vt::yield_begin("final", "-", 0);
      fprintf(vt::G.log, "{\"seq\":%ld,\"t\":0,\"op\":\"final\",\"size\":%zu,\"cap\":%zu}\n", vt::G.seq, fsz, fcap);
      fflush(vt::G.log);
      vt::die("done", "ok");
    } else {
      std::string r = do_op(t);
      printf("%s %zu %zu\n", r.c_str(), g_cache->Size(), g_cache->Capacity()); fflush(stdout);
    }
  }
  return 0;
}
