// /verif harness for C19 / C20: drives the mjData stack+arena allocator directly (tla/StackArena.tla) and runs
// mj_step under shrinking arenas in forked children (tla/ArenaStep.tla).  Shared ops: mjdrv_common.h.
//
// C19 ops (d = data slot); every one prints  "<st> <ret> <pstack> <parena> <pbase>"  where st = ok|err|null,
// ret = returned pointer - arena (0 if none), pbase = pbase - arena (-1: no frame):
//   a.mark d | a.free d | a.aclear d | a.reset d | a.lock d | a.unlock d | a.tmark d | a.tfree d
//   a.alloc d <size> <align> | a.aalloc d <size> <align> | a.talloc d <size> <align>      (size: unsigned 64-bit)
//   a.narena m <n>      set mjModel.narena (the compiled form of <size memory="n"/>; the compiler itself needs more to run)
//   a.info d            -> "narena <n> basemod64 <k> framesz <n> consz <n> redzone <n>"
//   a.tburst d <spec>   real threads allocate concurrently under the lock; spec = per-thread lists
//                       "size:al,size:al;size:al,..." -> "pstack0 <p> ; t0 off,off ; t1 ..." (offsets of returned blocks)
// built with -DARENA_TRACE the executable interposes the exported allocator entry points and logs every call:
//   a.trace d <call>[,<call>...]   runs public calls (step forward inverse ...) and prints the event log as JSON
// C20 ops:
//   s.cforce d                     mj_contactForce over all contacts (what a touch sensor would read)
//   s.try m <narena> <nsteps>      forks; child: model m with narena bytes, mj_makeData, nsteps x mj_step under
//                                  the error handler; prints one line (see below) or "N=<n> died sig=<s> ..."
#include <dlfcn.h>
#include <sys/wait.h>
#include <atomic>
#include <thread>
#include "engine/engine_memory.h"   // before mjdrv_common.h, which undefines the XNV x-macro helper
#include "mjdrv_common.h"

// asan build: mjsan.h wraps mark/free in inline functions and the library checks that a frame is freed by the
// function that marked it, comparing symbolised names; from C++ the wrappers symbolise as "mj_markStack(mjData_*)",
// which its ignore list does not know.  Call the instrumented entry points directly (same function: a_markfree).
#ifdef mjUSEASAN
#define A_REDZONE 32
#define A_MARK(d) mj__markStack(d)
#define A_FREE(d) mj__freeStack(d)
#else
#define A_REDZONE 0
#define A_MARK(d) mj_markStack(d)
#define A_FREE(d) mj_freeStack(d)
#endif

static long long a_off(const mjData* d, const void* p) { return p ? (long long)((const char*)p - (const char*)d->arena) : 0; }
static void a_state(const mjData* d, const char* st, long long ret) {
  if (st[0] == 'e' && getenv("ARENA_DEBUG")) fprintf(stderr, "error text: %s\n", hx_err);
  long long pb = d->pbase ? (long long)(d->pbase - (uintptr_t)d->arena) : -1;
  printf("%s %lld %llu %llu %lld\n", st, ret, (unsigned long long)d->pstack, (unsigned long long)d->parena, pb);
}

// ------------------------------------------------------------------------------------------------------------
// interposition of the allocator entry points (calls from inside the library go through the PLT)
#ifdef ARENA_TRACE
struct TrEv { char op; unsigned long long size, al; int st; long long ret; unsigned long long pstack, parena, pa0; long long pbase; std::string who; };
static std::vector<TrEv> g_tr;
static bool g_tr_on = false;
static void tr_push(const mjData* d, char op, size_t size, size_t al, int st, const void* ret, size_t pa0, const char* who) {
  if (!g_tr_on) return;
  TrEv e; e.op = op; e.size = size; e.al = al; e.st = st; e.ret = a_off(d, ret); e.pstack = d->pstack; e.parena = d->parena;
  e.pa0 = pa0; e.pbase = d->pbase ? (long long)(d->pbase - (uintptr_t)d->arena) : -1; e.who = who ? who : "";
  g_tr.push_back(e);
}
template <class F> static F tr_next(const char* name) {
  void* p = dlsym(RTLD_NEXT, name);
  if (!p) { printf("FATAL no next symbol %s\n", name); fflush(stdout); _exit(5); }
  return (F)p;
}
extern "C" {
#ifndef mjUSEASAN
void mj_markStack(mjData* d) {
  static auto f = tr_next<void (*)(mjData*)>("mj_markStack");
  size_t pa0 = d->parena; f(d); tr_push(d, 'M', 0, 0, 0, nullptr, pa0, nullptr);
}
void mj_freeStack(mjData* d) {
  static auto f = tr_next<void (*)(mjData*)>("mj_freeStack");
  size_t pa0 = d->parena; f(d); tr_push(d, 'F', 0, 0, 0, nullptr, pa0, nullptr);
}
#endif
void* mj_stackAllocByte(mjData* d, size_t bytes, size_t alignment) {
  static auto f = tr_next<void* (*)(mjData*, size_t, size_t)>("mj_stackAllocByte");
  size_t pa0 = d->parena; void* r = f(d, bytes, alignment); tr_push(d, 'S', bytes, alignment, r ? 0 : 2, r, pa0, nullptr); return r;
}
void* mj_stackAllocInfo(mjData* d, size_t bytes, size_t alignment, const char* caller, int line) {
  static auto f = tr_next<void* (*)(mjData*, size_t, size_t, const char*, int)>("mj_stackAllocInfo");
  size_t pa0 = d->parena; void* r = f(d, bytes, alignment, caller, line); tr_push(d, 'S', bytes, alignment, r ? 0 : 2, r, pa0, caller); return r;
}
mjtNum* mj_stackAllocNum(mjData* d, size_t size) {
  static auto f = tr_next<mjtNum* (*)(mjData*, size_t)>("mj_stackAllocNum");
  size_t pa0 = d->parena; mjtNum* r = f(d, size); tr_push(d, 'S', size * sizeof(mjtNum), sizeof(mjtNum), r ? 0 : 2, r, pa0, nullptr); return r;
}
int* mj_stackAllocInt(mjData* d, size_t size) {
  static auto f = tr_next<int* (*)(mjData*, size_t)>("mj_stackAllocInt");
  size_t pa0 = d->parena; int* r = f(d, size); tr_push(d, 'S', size * sizeof(int), sizeof(int), r ? 0 : 2, r, pa0, nullptr); return r;
}
void* mj_arenaAllocByte(mjData* d, size_t bytes, size_t alignment) {
  static auto f = tr_next<void* (*)(mjData*, size_t, size_t)>("mj_arenaAllocByte");
  size_t pa0 = d->parena; void* r = f(d, bytes, alignment); tr_push(d, 'A', bytes, alignment, r ? 0 : 2, r, pa0, nullptr); return r;
}
}  // extern "C"
#endif  // ARENA_TRACE

// ------------------------------------------------------------------------------------------------------------
static bool a_call_public(const std::string& c, const mjModel* m, mjData* d) {
  if (c == "step") mj_step(m, d);
  else if (c == "forward") mj_forward(m, d);
  else if (c == "inverse") mj_inverse(m, d);
  else if (c == "step1") mj_step1(m, d);
  else if (c == "step2") mj_step2(m, d);
  else if (c == "kinematics") mj_kinematics(m, d);
  else if (c == "fwdPosition") mj_fwdPosition(m, d);
  else if (c == "fwdVelocity") mj_fwdVelocity(m, d);
  else if (c == "fwdActuation") mj_fwdActuation(m, d);
  else if (c == "fwdAcceleration") mj_fwdAcceleration(m, d);
  else if (c == "fwdConstraint") mj_fwdConstraint(m, d);
  else if (c == "collision") mj_collision(m, d);
  else if (c == "makeConstraint") mj_makeConstraint(m, d);
  else if (c == "island") mj_island(m, d);
  else if (c == "projectConstraint") mj_projectConstraint(m, d);
  else if (c == "referenceConstraint") mj_referenceConstraint(m, d);
  else if (c == "sensorPos") mj_sensorPos(m, d);
  else if (c == "sensorVel") mj_sensorVel(m, d);
  else if (c == "sensorAcc") mj_sensorAcc(m, d);
  else if (c == "energyPos") mj_energyPos(m, d);
  else if (c == "energyVel") mj_energyVel(m, d);
  else if (c == "comPos") mj_comPos(m, d);
  else if (c == "comVel") mj_comVel(m, d);
  else if (c == "crb") mj_makeM(m, d);
  else if (c == "factorM") mj_factorM(m, d);
  else if (c == "rne") { std::vector<mjtNum> r(m->nv + 1); mj_rne(m, d, 1, r.data()); }
  else if (c == "rnePostConstraint") mj_rnePostConstraint(m, d);
  else if (c == "fullM") { std::vector<mjtNum> r((size_t)m->nv * m->nv + 1); mj_fullM(m, d, r.data()); }
  else if (c == "jacBody") { std::vector<mjtNum> r(6 * (size_t)m->nv + 1); mj_jacBody(m, d, r.data(), r.data() + 3 * m->nv, m->nbody - 1); }
  else if (c == "RungeKutta") mj_RungeKutta(m, d, 4);
  else if (c == "Euler") mj_Euler(m, d);
  else if (c == "implicit") mj_implicit(m, d);
  else if (c == "resetData") mj_resetData(m, d);
  else if (c == "contactForce") { mjtNum f[6]; for (int i = 0; i < d->ncon; i++) mj_contactForce(m, d, i, f); }
  else if (c == "constraintUpdate") { if (d->nefc) { std::vector<mjtNum> jar(d->nefc); mj_mulJacVec(m, d, jar.data(), d->qacc); mjtNum cost; mj_constraintUpdate(m, d, jar.data(), &cost, 0); } }
  else if (c == "getState") { int n = mj_stateSize(m, mjSTATE_INTEGRATION); std::vector<mjtNum> s(n + 1); mj_getState(m, d, s.data(), mjSTATE_INTEGRATION); }
  else if (c == "ray") { mjtNum p[3] = {0, 0, 5}, v[3] = {0, 0, -1}; int g; mj_ray(m, d, p, v, nullptr, 1, -1, &g, nullptr); }
  else if (c == "geomDistance") { if (m->ngeom >= 2) { mjtNum ft[6]; mj_geomDistance(m, d, 0, m->ngeom - 1, 10, ft); } }
  else return false;
  return true;
}

struct StepOut { int err; char emsg[96]; int ncon, nefc, nisland, ne, nf, nl, wcon, wcns, badadr, finite; unsigned long long pstack, parena; long long pbase; int incl; };

static const char* s_errclass(const char* msg) {
  if (strstr(msg, "stack overflow")) return "stackoverflow";
  if (strstr(msg, "arena too small to allocate geom pair")) return "pairarena";
  if (strstr(msg, "could not allocate mjData arena")) return "noarena";
  if (strstr(msg, "Could not allocate memory")) return "malloc";
  return "other";
}

static bool arena_extra(const std::vector<std::string>& t, const std::vector<std::string>& lines, size_t& i) {
  const std::string& op = t[0];
  auto I = [&](size_t k) { if (k >= t.size()) mk_die("missing argument for " + op); return atoi(t[k].c_str()); };
  auto U = [&](size_t k) { if (k >= t.size()) mk_die("missing argument for " + op); return (size_t)strtoull(t[k].c_str(), nullptr, 10); };
  if (op == "a.narena") { M(I(1))->narena = U(2); printf("ok\n"); return true; }   // = what `size memory=N` compiles to
  if (op == "a.info") {
    mjData* d = D(I(1));
    printf("narena %llu basemod64 %d framesz %d consz %d redzone %d\n", (unsigned long long)d->narena,
           (int)((uintptr_t)d->arena % 64), (int)(2 * sizeof(size_t) + sizeof(void*)), (int)sizeof(mjContact), A_REDZONE);
    return true;
  }
  if (op == "a.mark" || op == "a.free" || op == "a.tmark" || op == "a.tfree" || op == "a.lock" || op == "a.unlock") {
    mjData* d = D(I(1));
    // mark and free stay in this one function: the asan build checks that a frame is freed by the function that marked it
    if (HX_TRY) {
      if (op == "a.mark" || op == "a.tmark") A_MARK(d);
      else if (op == "a.free" || op == "a.tfree") A_FREE(d);
      else if (op == "a.lock") { A_MARK(d); d->threadlock = 1; }
      else { d->threadlock = 0; A_FREE(d); }
      HX_END;
      a_state(d, "ok", (op == "a.mark" || op == "a.lock") && d->pbase ? (long long)(d->pbase - (uintptr_t)d->arena) : 0);
    } else a_state(d, "err", 0);
    return true;
  }
  if (op == "a.aclear") { mjData* d = D(I(1)); d->parena = 0; a_state(d, "ok", 0); return true; }
  if (op == "a.reset") {
    int ds = I(1); mjData* d = D(ds); d->threadlock = 0;
    if (HX_TRY) { mj_resetData(MD(ds), d); HX_END; a_state(d, "ok", 0); } else a_state(d, "err", 0);
    return true;
  }
  if (op == "a.alloc" || op == "a.talloc" || op == "a.aalloc") {
    mjData* d = D(I(1)); size_t size = U(2), al = U(3); void* p = nullptr;
    if (HX_TRY) {
      p = (op == "a.aalloc") ? mj_arenaAllocByte(d, size, al) : mj_stackAllocByte(d, size, al);
      HX_END;
      a_state(d, p ? "ok" : "null", a_off(d, p));
    } else a_state(d, "err", 0);
    return true;
  }
  if (op == "a.tburst") {
    mjData* d = D(I(1));
    std::vector<std::vector<std::pair<size_t, size_t>>> plan;
    { std::string s = t.at(2); size_t p = 0;
      while (p <= s.size()) { size_t q = s.find(';', p); if (q == std::string::npos) q = s.size();
        std::vector<std::pair<size_t, size_t>> th; std::string part = s.substr(p, q - p); size_t a = 0;
        while (a < part.size()) { size_t b = part.find(',', a); if (b == std::string::npos) b = part.size();
          std::string it = part.substr(a, b - a); size_t c = it.find(':');
          th.push_back({(size_t)strtoull(it.substr(0, c).c_str(), 0, 10), (size_t)strtoull(it.substr(c + 1).c_str(), 0, 10)}); a = b + 1; }
        plan.push_back(th); p = q + 1; } }
    if (!d->threadlock) mk_die("a.tburst needs the lock");
    unsigned long long p0 = d->pstack;
    std::vector<std::vector<long long>> out(plan.size());
    std::atomic<int> ready{0}; std::atomic<bool> go{false};
    std::vector<std::thread> th;
    for (size_t k = 0; k < plan.size(); k++) th.emplace_back([&, k]() {
      ready++; while (!go.load()) { }
      for (auto& sa : plan[k]) { void* p = mj_stackAllocByte(d, sa.first, sa.second); if (p) memset(p, 0x40 + (int)k, sa.first); out[k].push_back(a_off(d, p)); }
    });
    while (ready.load() < (int)plan.size()) { }
    go = true;
    for (auto& x : th) x.join();
    printf("pstack0 %llu pstack1 %llu", p0, (unsigned long long)d->pstack);
    for (size_t k = 0; k < plan.size(); k++) { printf(" ; t%zu", k); for (size_t j = 0; j < out[k].size(); j++) printf("%s%lld", j ? "," : " ", out[k][j]); }
    // every block still holds its owner's pattern: nobody else wrote into it
    int clobber = 0;
    for (size_t k = 0; k < plan.size(); k++) for (size_t j = 0; j < out[k].size(); j++) {
      const unsigned char* b = (const unsigned char*)d->arena + out[k][j];
      for (size_t x = 0; x < plan[k][j].first; x++) if (b[x] != 0x40 + (int)k) { clobber++; break; } }
    printf(" ; clobber %d\n", clobber);
    return true;
  }
#ifdef ARENA_TRACE
  if (op == "a.trace") {
    int ds = I(1); mjData* d = D(ds); const mjModel* m = MD(ds);
    std::string out = "[";
    bool first = true;
    auto add = [&](const std::string& s) { if (!first) out += ","; first = false; out += s; };
    char buf[512];
    for (auto& c : drv_csv(t.at(2))) {
      g_tr.clear();
      snprintf(buf, sizeof buf, "{\"op\":\"call\",\"name\":\"%s\",\"pstack\":%llu,\"parena\":%llu,\"pa0\":%llu,\"pbase\":%lld}", c.c_str(),
               (unsigned long long)d->pstack, (unsigned long long)d->parena, (unsigned long long)d->parena, d->pbase ? (long long)(d->pbase - (uintptr_t)d->arena) : -1LL);
      add(buf);
      int err = 0;
      if (HX_TRY) { g_tr_on = true; bool ok = a_call_public(c, m, d); g_tr_on = false; HX_END; if (!ok) mk_die("unknown public call " + c); }
      else { g_tr_on = false; err = 1; }
      for (auto& e : g_tr) {
        const char* nm = e.op == 'M' ? "mark" : e.op == 'F' ? "free" : e.op == 'S' ? "alloc" : "aalloc";
        const char* st = (e.op == 'S' || e.op == 'A') ? (e.st == 0 ? "ok" : "null") : "ok";
        snprintf(buf, sizeof buf, "{\"op\":\"%s\",\"size\":%llu,\"al\":%llu,\"st\":\"%s\",\"ret\":%lld,\"pstack\":%llu,\"parena\":%llu,\"pa0\":%llu,\"pbase\":%lld}",
                 nm, e.size, e.al, st, e.op == 'M' ? e.pbase : e.ret, e.pstack, e.parena, e.pa0, e.pbase);
        add(buf);
      }
      snprintf(buf, sizeof buf, "{\"op\":\"%s\",\"name\":\"%s\",\"pstack\":%llu,\"parena\":%llu,\"pa0\":%llu,\"pbase\":%lld}", err ? "raise" : "ret", c.c_str(),
               (unsigned long long)d->pstack, (unsigned long long)d->parena, (unsigned long long)d->parena, d->pbase ? (long long)(d->pbase - (uintptr_t)d->arena) : -1LL);
      add(buf);
      if (err) break;
    }
    out += "]";
    printf("%s\n", out.c_str());
    return true;
  }
#endif
  if (op == "s.cforce") {     // "nefc <n> ncon <n> included <k> maxabs <largest |mj_contactForce| component>"
    int ds = I(1); mjData* d = D(ds); double mx = 0; int incl = 0;
    for (int c = 0; c < d->ncon; c++) { mjtNum f[6]; if (d->contact[c].efc_address >= 0) incl++; mj_contactForce(MD(ds), d, c, f); for (int k = 0; k < 6; k++) if (fabs(f[k]) > mx) mx = fabs(f[k]); }
    printf("nefc %d ncon %d included %d maxabs %.6g\n", d->nefc, d->ncon, incl, mx);
    return true;
  }
  if (op == "s.try") {
    int ms = I(1); size_t narena = U(2); int nsteps = I(3);
    fflush(stdout);
    int ep[2]; if (pipe(ep)) mk_die("pipe");
    pid_t pid = fork();
    if (pid == 0) {
      close(ep[0]); dup2(ep[1], 2); close(ep[1]);
      mjModel* m = M(ms); m->narena = narena;
      mjData* d = nullptr;
      std::string line; char buf[400];
      snprintf(buf, sizeof buf, "N=%llu", (unsigned long long)narena); line = buf;
      if (HX_TRY) { d = mj_makeData(m); HX_END; } else { d = nullptr; }
      if (!d) { snprintf(buf, sizeof buf, " make=%s", hx_err[0] ? s_errclass(hx_err) : "null"); line += buf; printf("%s\n", line.c_str()); fflush(stdout); _exit(0); }
      line += " make=ok";
      for (int k = 0; k < nsteps; k++) {
        int w0 = d->warning[mjWARN_CONTACTFULL].number, w1 = d->warning[mjWARN_CNSTRFULL].number;
        const char* ec = "none";
        if (HX_TRY) { mj_step(m, d); HX_END; } else { ec = s_errclass(hx_err); }
        int bad = 0, incl = 0;
        for (int c = 0; c < d->ncon; c++) { int a = d->contact[c].efc_address; if (a >= 0) incl++; if (a < -1 || a >= d->nefc) bad++; }
        int fin = 1;
        for (int q = 0; q < m->nq; q++) if (!isfinite(d->qpos[q])) fin = 0;
        for (int q = 0; q < m->nv; q++) if (!isfinite(d->qvel[q]) || !isfinite(d->qacc[q])) fin = 0;
        snprintf(buf, sizeof buf, " | err=%s ncon=%d nefc=%d nisland=%d ne=%d nf=%d nl=%d wcon=%d wcns=%d incl=%d badadr=%d finite=%d pstack=%llu parena=%llu pbase=%lld",
                 ec, d->ncon, d->nefc, d->nisland, d->ne, d->nf, d->nl, d->warning[mjWARN_CONTACTFULL].number - w0,
                 d->warning[mjWARN_CNSTRFULL].number - w1, incl, bad, fin, (unsigned long long)d->pstack, (unsigned long long)d->parena,
                 d->pbase ? (long long)(d->pbase - (uintptr_t)d->arena) : -1LL);
        line += buf;
        if (strcmp(ec, "none")) {
          // a catchable error: the documented recovery is mj_resetData; the data must be usable again
          if (HX_TRY) { mj_resetData(m, d); HX_END; line += " reset=ok"; } else { line += " reset=err"; }
          snprintf(buf, sizeof buf, " rpstack=%llu rparena=%llu", (unsigned long long)d->pstack, (unsigned long long)d->parena); line += buf;
          break;
        }
      }
      snprintf(buf, sizeof buf, " | maxuse=%llu consz=%d", (unsigned long long)d->maxuse_arena, (int)sizeof(mjContact)); line += buf;
      printf("%s\n", line.c_str()); fflush(stdout);
      _exit(0);
    }
    close(ep[1]);
    std::string errtxt; char eb[4096]; ssize_t n;
    while ((n = read(ep[0], eb, sizeof eb)) > 0) if (errtxt.size() < 200000) errtxt.append(eb, n);
    close(ep[0]);
    int status = 0; waitpid(pid, &status, 0);
    if (WIFEXITED(status) && WEXITSTATUS(status) == 0) return true;          // the child printed the line
    // abnormal end: summarise
    std::string kind = "-", where = "-";
    size_t p = errtxt.find("ERROR: AddressSanitizer: ");
    if (p != std::string::npos) { size_t q = errtxt.find_first_of(" \n", p + 25); kind = "asan:" + errtxt.substr(p + 25, q - p - 25); }
    p = errtxt.find("runtime error: ");
    if (kind == "-" && p != std::string::npos) { kind = "ubsan"; }
    p = errtxt.find("    #0 ");
    if (p != std::string::npos) { size_t a = errtxt.find(" in ", p); size_t b = errtxt.find_first_of(" \n", a + 4); if (a != std::string::npos) where = errtxt.substr(a + 4, b - a - 4); }
    if (WIFSIGNALED(status)) printf("N=%llu died sig=%d kind=%s where=%s\n", (unsigned long long)narena, WTERMSIG(status), kind.c_str(), where.c_str());
    else printf("N=%llu died exit=%d kind=%s where=%s\n", (unsigned long long)narena, WEXITSTATUS(status), kind.c_str(), where.c_str());
    return true;
  }
  return false;
}

int main() { return drv_main(arena_extra); }
