// /verif controlled scheduler: replacement std::atomic / std::thread / std::mutex whose every operation is a
// YIELD POINT. Exactly one thread runs between yield points; which thread proceeds is decided by a schedule
// (replayed from a TLA+ behaviour, or drawn from a seeded PRNG). Sequential consistency only; plain
// (non-atomic) accesses are not yield points. Trusted base of the tlc-sched checks.
#ifndef VERIF_VT_SCHED_H
#define VERIF_VT_SCHED_H
#include <pthread.h>
#include <stdio.h>
#include <stdlib.h>
#include <string.h>
#include <unistd.h>
#include <atomic>
#include <functional>
#include <string>
#include <vector>

namespace vt {

enum ThState { TS_RUNNING, TS_READY, TS_DONE, TS_JOINED };

struct Pending {          // the operation a parked thread is about to perform
  const char* op = "";    // api spawn store load fadd wait wake notify join tstart tend lock unlock
  const char* obj = "-";
  long arg = 0;           // op-specific argument (value to store, join target, ...)
  std::function<bool()> enabled;   // may this op be granted now?
};

struct Thread {
  int id = 0;
  ThState st = TS_RUNNING;
  Pending pend;
  bool sleeping = false, notified = false;
  const void* sleep_obj = nullptr;
  pthread_t th;
};

struct Step { int t; std::string op, obj; long val; bool has_val; };

struct Sched {
  pthread_mutex_t mu = PTHREAD_MUTEX_INITIALIZER;
  pthread_cond_t cv = PTHREAD_COND_INITIALIZER;
  std::vector<Thread*> threads;
  int running = 0;
  int granted = -1;
  long seq = 0;
  // schedule source
  std::vector<Step> script; size_t pos = 0; bool replay = false;
  bool strict = true;      // replay: the real thread's operation and value must equal the script's (else only the
                           // thread choice is taken from the script and conformance is judged from the log)
  bool fellback = false;   // lenient replay: the script became infeasible and scheduling continued randomly
  unsigned long long rng = 88172645463325252ULL;
  long max_steps = 6000;
  FILE* log = stdout;
  // object naming: registered in construction order
  std::vector<const void*> objs; std::vector<std::string> objnames;
  std::function<std::string(int)> namer;   // ordinal -> name
  std::function<void(const Step&)> on_api; // set by the harness: current script line for the main thread
  Step cur;                                // the step being granted (replay mode)
};
inline Sched G;

inline unsigned long long rnd() { G.rng ^= G.rng << 13; G.rng ^= G.rng >> 7; G.rng ^= G.rng << 17; return G.rng; }

inline void die(const char* kind, const std::string& msg) {
  fprintf(G.log, "{\"end\":\"%s\",\"msg\":\"%s\",\"seq\":%ld}\n", kind, msg.c_str(), G.seq);
  fflush(G.log);
  _exit(0);
}

inline const char* objname(const void* p) {
  for (size_t i = 0; i < G.objs.size(); i++) if (G.objs[i] == p) return G.objnames[i].c_str();
  return "?";
}
inline void reg_obj(const void* p) {
  // (re)register: a new object at a recycled address gets a fresh name
  std::string nm = G.namer ? G.namer((int)G.objs.size()) : std::to_string(G.objs.size());
  for (size_t i = 0; i < G.objs.size(); i++) if (G.objs[i] == p) G.objs[i] = nullptr;
  G.objs.push_back(p); G.objnames.push_back(nm);
}

inline thread_local Thread* self = nullptr;

// choose the next thread to run; called with mu held, when nobody is running
inline void pick() {
  if (G.granted >= 0) return;
  std::vector<Thread*> en;
  bool alldone = true;
  for (Thread* t : G.threads) {
    if (t->st == TS_READY) { alldone = false; if (!t->pend.enabled || t->pend.enabled()) en.push_back(t); }
  }
  if (alldone) return;   // nothing parked (e.g. only the main thread exists and it is running)
  if (G.seq >= G.max_steps) die("steplimit", "no termination within the step bound");
  if (G.replay) {
    if (G.pos >= G.script.size()) die("scriptend", "ok");
    G.cur = G.script[G.pos++];
    Thread* c = nullptr;
    for (Thread* t : G.threads) if (t->id == G.cur.t) c = t;
    bool ok = c && c->st == TS_READY && (!c->pend.enabled || c->pend.enabled());
    if (!ok && !G.strict) {
      // lenient: the scripted thread cannot move here; continue with seeded random choices, the log is judged later
      G.replay = false; G.fellback = true;
      fprintf(G.log, "{\"note\":\"fallback\",\"seq\":%ld,\"t\":%d}\n", G.seq, G.cur.t);
      if (en.empty()) die("deadlock", "no enabled thread");
      G.granted = en[rnd() % en.size()]->id;
      pthread_cond_broadcast(&G.cv);
      return;
    }
    if (!c || c->st != TS_READY) die("diverge", "thread " + std::to_string(G.cur.t) + " is not at a yield point; spec step " + G.cur.op);
    if (!ok) die("diverge", "thread " + std::to_string(G.cur.t) + " op " + c->pend.op + " not enabled; spec step " + G.cur.op);
    G.granted = c->id;
  } else {
    if (en.empty()) die("deadlock", "no enabled thread");
    G.granted = en[rnd() % en.size()]->id;
  }
  pthread_cond_broadcast(&G.cv);
}

// park the calling thread at a yield point until it is granted; returns with mu HELD
inline void yield_begin(const char* op, const char* obj, long arg, std::function<bool()> enabled = nullptr) {
  if (!self) return;   // bootstrap (single-threaded set-up before init_main): execute directly, unlogged
  pthread_mutex_lock(&G.mu);
  self->pend.op = op; self->pend.obj = obj; self->pend.arg = arg; self->pend.enabled = enabled;
  self->st = TS_READY; G.running--;
  if (G.running == 0) pick();
  while (G.granted != self->id) pthread_cond_wait(&G.cv, &G.mu);
  G.granted = -1; self->st = TS_RUNNING; G.running++;
  if (G.replay && G.strict) {
    // the real thread's next operation must be the one the specification takes
    bool kind_ok = G.cur.op == op || (G.cur.op == "sleep" && !strcmp(op, "wait")) || (G.cur.op == "pass" && !strcmp(op, "wait"));
    if (!kind_ok || (G.cur.obj != "*" && G.cur.obj != obj && strcmp(op, "api") != 0))
      die("diverge", std::string("spec step ") + G.cur.op + "/" + G.cur.obj + " but thread " + std::to_string(self->id) + " performs " + op + "/" + obj);
  }
}
// log the completed operation and release the lock
inline void yield_end(const char* op, const char* obj, long val) {
  if (!self) return;
  fprintf(G.log, "{\"seq\":%ld,\"t\":%d,\"op\":\"%s\",\"obj\":\"%s\",\"val\":%ld}\n", G.seq, self->id, op, obj, val);
  G.seq++;
  if (G.replay && G.strict && G.cur.has_val && strcmp(op, "api") != 0 && G.cur.val != val) {
    fflush(G.log);
    die("diverge", std::string("value mismatch at ") + op + "/" + obj + ": spec " + std::to_string(G.cur.val) + " impl " + std::to_string(val));
  }
  pthread_mutex_unlock(&G.mu);
}

inline void thread_exit_hook() {
  pthread_mutex_lock(&G.mu);
  self->st = TS_DONE; G.running--;
  if (G.running == 0) pick();
  pthread_mutex_unlock(&G.mu);
}

inline void init_main() {
  Thread* t = new Thread(); t->id = 0; t->st = TS_RUNNING; G.threads.push_back(t); self = t; G.running = 1;
}

template <typename T>
class atomic {
 public:
  atomic() : v_() { reg_obj(this); }
  atomic(T v) : v_(v) { reg_obj(this); }
  atomic(const atomic&) = delete;
  T load(std::memory_order = std::memory_order_seq_cst) const { yield_begin("load", objname(this), 0); T r = v_; yield_end("load", objname(this), (long)r); return r; }
  void store(T x, std::memory_order = std::memory_order_seq_cst) { yield_begin("store", objname(this), (long)x); v_ = x; yield_end("store", objname(this), (long)x); }
  T fetch_add(T x, std::memory_order = std::memory_order_seq_cst) { yield_begin("fadd", objname(this), (long)x); T r = v_; v_ = r + x; yield_end("fadd", objname(this), (long)r); return r; }
  T exchange(T x, std::memory_order = std::memory_order_seq_cst) { yield_begin("xchg", objname(this), (long)x); T r = v_; v_ = x; yield_end("xchg", objname(this), (long)r); return r; }
  operator T() const { return load(); }
  T operator=(T x) { store(x); return x; }
  T operator++(int) { return fetch_add(1); }
  T operator++() { return fetch_add(1) + 1; }
  // C++20 wait: the value check and going to sleep are atomic with respect to notify
  void wait(T old, std::memory_order = std::memory_order_seq_cst) const {
    Thread* me = self;
    for (;;) {
      if (me->sleeping) {
        yield_begin("wake", objname(this), 0, [me] { return me->notified; });
        me->sleeping = false; me->notified = false;
        yield_end("wake", objname(this), 0);
      }
      yield_begin("wait", objname(this), (long)old);
      if (v_ != old) { yield_end("wait", objname(this), 1); return; }
      me->sleeping = true; me->notified = false; me->sleep_obj = this;
      yield_end("wait", objname(this), 0);
    }
  }
  void notify_all() {
    yield_begin("notify", objname(this), 0);
    long n = 0;
    for (Thread* t : G.threads) if (t->sleeping && t->sleep_obj == this) { t->notified = true; n++; }
    yield_end("notify", objname(this), n);
  }
  void notify_one() { notify_all(); }
  T raw() const { return v_; }
 private:
  T v_;
};

class thread {
 public:
  thread() {}
  template <typename F, typename... A>
  explicit thread(F&& f, A&&... a) {
    std::function<void()> fn = std::bind(std::forward<F>(f), std::forward<A>(a)...);
    yield_begin("spawn", "-", 0);
    t_ = new Thread(); t_->id = (int)G.threads.size(); t_->st = TS_RUNNING;
    G.threads.push_back(t_); G.running++;     // the child counts as running from the instant it is spawned
    struct Boot { Thread* t; std::function<void()> fn; };
    Boot* b = new Boot{t_, fn};
    pthread_create(&t_->th, nullptr, [](void* p) -> void* {
      Boot* b = (Boot*)p; self = b->t; b->fn(); thread_exit_hook(); delete b; return nullptr; }, b);
    yield_end("spawn", "-", t_->id);
  }
  thread(thread&& o) noexcept : t_(o.t_) { o.t_ = nullptr; }
  thread& operator=(thread&& o) noexcept { t_ = o.t_; o.t_ = nullptr; return *this; }
  thread(const thread&) = delete;
  ~thread() {}
  bool joinable() const { return t_ != nullptr && t_->st != TS_JOINED; }
  void join() {
    Thread* c = t_;
    yield_begin("join", "-", c->id, [c] { return c->st == TS_DONE; });
    c->st = TS_JOINED;
    yield_end("join", "-", c->id);
    pthread_join(c->th, nullptr);
  }
  static unsigned hardware_concurrency() { return 4; }
 private:
  Thread* t_ = nullptr;
};

class mutex {
 public:
  mutex() { reg_obj(this); }
  void lock() { yield_begin("lock", objname(this), 0, [this] { return owner_ < 0; }); owner_ = self ? self->id : 0; yield_end("lock", objname(this), 0); }
  void unlock() { yield_begin("unlock", objname(this), 0); owner_ = -1; yield_end("unlock", objname(this), 0); }
  bool try_lock() { yield_begin("trylock", objname(this), 0); bool ok = owner_ < 0; if (ok) owner_ = self ? self->id : 0; yield_end("trylock", objname(this), ok); return ok; }
 private:
  int owner_ = -1;
};

// harness-level yield points (task start/end, api calls)
inline void mark(const char* op, const char* obj, long val) { yield_begin(op, obj, val); yield_end(op, obj, val); }

}  // namespace vt
#endif
