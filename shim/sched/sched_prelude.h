// /verif: force-included (-include) in front of UNMODIFIED repo sources to compile them against the
// controlled scheduler: the real standard headers are included first, then the names are redirected.
#ifndef VERIF_SCHED_PRELUDE_H
#define VERIF_SCHED_PRELUDE_H
#ifdef __cplusplus
#include <atomic>
#include <thread>
#include <mutex>
#include <vector>
#include <functional>
#include <string>
#include <memory>
#include <condition_variable>
#include "sched/vt_sched.h"
namespace std {
template <typename T> using vt_atomic = ::vt::atomic<T>;
using vt_thread = ::vt::thread;
using vt_mutex = ::vt::mutex;
using vt_atomic_int = ::vt::atomic<int>;
}
#define atomic vt_atomic
#define thread vt_thread
#define atomic_int vt_atomic_int
#ifdef VERIF_SCHED_MUTEX
#define mutex vt_mutex
#endif
#endif
#endif
