// /verif shim: stand-in for the marching-cubes header (SDF mesh generation is out of scope): produces an empty mesh.
#ifndef VERIF_MC_H
#define VERIF_MC_H
#include <vector>
namespace MC {
typedef float MC_FLOAT;
struct mcVec3f { MC_FLOAT x, y, z; };
struct mcMesh { std::vector<mcVec3f> vertices; std::vector<mcVec3f> normals; std::vector<unsigned int> indices; };
static inline void marching_cube(MC_FLOAT*, int, int, int, mcMesh&) {}
}
#endif
