// /verif shim: minimal stand-in for libccd's vec3.h (trusted base, not code under test)
#ifndef VERIF_CCD_VEC3_H
#define VERIF_CCD_VEC3_H
#ifdef __cplusplus
extern "C" {
#endif
typedef double ccd_real_t;
typedef struct _ccd_vec3_t { ccd_real_t v[3]; } ccd_vec3_t;
static ccd_vec3_t verif_ccd_origin_ = {{0, 0, 0}};
#define ccd_vec3_origin (&verif_ccd_origin_)
static inline void ccdVec3Set(ccd_vec3_t* v, ccd_real_t x, ccd_real_t y, ccd_real_t z) {
  v->v[0] = x; v->v[1] = y; v->v[2] = z;
}
static inline void ccdVec3Copy(ccd_vec3_t* v, const ccd_vec3_t* w) { *v = *w; }
static inline int ccdVec3Eq(const ccd_vec3_t* a, const ccd_vec3_t* b) {
  return a->v[0] == b->v[0] && a->v[1] == b->v[1] && a->v[2] == b->v[2];
}
#ifdef __cplusplus
}
#endif
#endif
