// /verif shim: minimal stand-in for libccd's ccd.h. The libccd (MPR) branch reports "no penetration";
// MuJoCo's default native CCD (mjc_ccd) is unaffected. Trusted base, not code under test.
#ifndef VERIF_CCD_H
#define VERIF_CCD_H
#include <ccd/vec3.h>
#ifdef __cplusplus
extern "C" {
#endif
typedef void (*ccd_support_fn)(const void* obj, const ccd_vec3_t* dir, ccd_vec3_t* vec);
typedef void (*ccd_first_dir_fn)(const void* obj1, const void* obj2, ccd_vec3_t* dir);
typedef void (*ccd_center_fn)(const void* obj1, ccd_vec3_t* center);
typedef struct _ccd_t {
  ccd_first_dir_fn first_dir;
  ccd_support_fn support1, support2;
  ccd_center_fn center1, center2;
  unsigned long max_iterations;
  ccd_real_t epa_tolerance, mpr_tolerance, dist_tolerance;
} ccd_t;
static inline void ccdFirstDirDefault(const void* o1, const void* o2, ccd_vec3_t* dir) {
  (void)o1; (void)o2; ccdVec3Set(dir, 1, 0, 0);
}
#define CCD_INIT(ccd) do { (ccd)->first_dir = ccdFirstDirDefault; (ccd)->support1 = 0; (ccd)->support2 = 0; \
  (ccd)->center1 = 0; (ccd)->center2 = 0; (ccd)->max_iterations = (unsigned long)-1; \
  (ccd)->epa_tolerance = 1e-4; (ccd)->mpr_tolerance = 1e-4; (ccd)->dist_tolerance = 1e-6; } while (0)
static inline int ccdMPRPenetration(const void* o1, const void* o2, const ccd_t* ccd, ccd_real_t* depth,
                                    ccd_vec3_t* dir, ccd_vec3_t* pos) {
  (void)o1; (void)o2; (void)ccd; (void)depth; (void)dir; (void)pos; return -1;
}
#ifdef __cplusplus
}
#endif
#endif
