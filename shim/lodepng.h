// /verif shim: stand-in for lodepng. PNG decoding always reports an error (PNG textures are out of scope).
#ifndef VERIF_LODEPNG_H
#define VERIF_LODEPNG_H
#include <cstddef>
typedef enum LodePNGColorType { LCT_GREY = 0, LCT_RGB = 2, LCT_PALETTE = 3, LCT_GREY_ALPHA = 4, LCT_RGBA = 6 } LodePNGColorType;
struct LodePNGColorMode { LodePNGColorType colortype; unsigned bitdepth; };
struct LodePNGInfo { unsigned srgb_defined; };
namespace lodepng { struct State { LodePNGColorMode info_raw; LodePNGInfo info_png; State() : info_raw{LCT_RGBA, 8}, info_png{0} {} }; }
static inline unsigned lodepng_decode(unsigned char** out, unsigned* w, unsigned* h, lodepng::State*, const unsigned char*, size_t) {
  *out = nullptr; *w = 0; *h = 0; return 1;
}
static inline const char* lodepng_error_text(unsigned) { return "PNG decoding unavailable in the /verif build"; }
static inline size_t lodepng_get_raw_size(unsigned w, unsigned h, const LodePNGColorMode*) { return (size_t)w * h * 4; }
#endif
