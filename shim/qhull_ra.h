// /verif shim: stand-in for reentrant qhull. qh_qhull() takes the library's error exit (longjmp), so meshes
// that need a convex hull fail to compile with "qhull error"; meshes that do not need one are unaffected.
#ifndef VERIF_QHULL_RA_H
#define VERIF_QHULL_RA_H
#include <setjmp.h>
#include <stdio.h>
extern "C" {
typedef double coordT; typedef coordT pointT; typedef unsigned int boolT;
typedef union setelemT { void* p; int i; } setelemT;
typedef struct setT { int maxsize; setelemT e[1]; } setT;
typedef struct vertexT { struct vertexT* next; pointT* point; setT* neighbors; } vertexT;
typedef struct facetT { struct facetT* next; setT* vertices; unsigned toporient; } facetT;
typedef struct qhT { jmp_buf errexit; boolT NOerrexit; int num_vertices; int num_facets; vertexT* vertex_list; facetT* facet_list; } qhT;
#define qh_False 0
#define qh_True 1
#define qh_ALL 1
static inline void qh_zero(qhT* qh, FILE*) { qh->num_vertices = 0; qh->num_facets = 0; qh->vertex_list = 0; qh->facet_list = 0; qh->NOerrexit = 1; }
static inline void qh_init_A(qhT*, FILE*, FILE*, FILE*, int, char**) {}
static inline void qh_initflags(qhT*, char*) {}
static inline void qh_init_B(qhT*, coordT*, int, int, boolT) {}
static inline void qh_qhull(qhT* qh) { longjmp(qh->errexit, 1); }
static inline void qh_triangulate(qhT*) {}
static inline void qh_vertexneighbors(qhT*) {}
static inline int qh_pointid(qhT*, pointT*) { return -1; }
static inline void qh_freeqhull(qhT*, boolT) {}
static inline void qh_memfreeshort(qhT*, int* a, int* b) { *a = 0; *b = 0; }
#define FORALLvertices for (vertex = qh->vertex_list; vertex && vertex->next; vertex = vertex->next)
#define FORALLfacets for (facet = qh->facet_list; facet && facet->next; facet = facet->next)
#define FOREACHsetelement_(type, set, variable) \
  if (((variable = NULL), set)) for (variable##p = (type**)&((set)->e[0].p); (variable = *variable##p++);)
}
#endif
