// /verif shim: DOM-only stand-in for tinyxml2 (no tokenizer: XMLDocument::Parse always reports an error).
// Enough of the interface for src/xml/xml_util.cc to compile; documents are built through the DOM API by a
// verification harness. Trusted base, not code under test.
#ifndef VERIF_DOM_TINYXML2_H
#define VERIF_DOM_TINYXML2_H
#include <cstddef>
#include <cstdio>
#include <memory>
#include <string>
#include <vector>
namespace tinyxml2 {
enum XMLError { XML_SUCCESS = 0, XML_ERROR_PARSING = 1 };
class XMLElement; class XMLDocument;
class XMLAttribute {
 public:
  const char* Name() const { return name_.c_str(); }
  const char* Value() const { return value_.c_str(); }
  const XMLAttribute* Next() const { return next_; }
  std::string name_, value_; XMLAttribute* next_ = nullptr;
};
class XMLNode {
 public:
  virtual ~XMLNode() {}
  virtual XMLElement* ToElement() { return nullptr; }
  virtual const XMLElement* ToElement() const { return nullptr; }
  XMLNode* Parent() { return parent_; }
  const XMLNode* Parent() const { return parent_; }
  XMLNode* parent_ = nullptr;
};
class XMLElement : public XMLNode {
 public:
  XMLElement* ToElement() override { return this; }
  const XMLElement* ToElement() const override { return this; }
  const char* Value() const { return tag_.c_str(); }
  const char* Name() const { return tag_.c_str(); }
  int GetLineNum() const { return line_; }
  const XMLAttribute* FirstAttribute() const { return attrs_.empty() ? nullptr : attrs_[0].get(); }
  const char* Attribute(const char* name, const char* value = nullptr) const {
    for (auto& a : attrs_) if (a->name_ == name) { if (!value || a->value_ == value) return a->value_.c_str(); return nullptr; }
    return nullptr;
  }
  void SetAttribute(const char* name, const char* value) {
    for (auto& a : attrs_) if (a->name_ == name) { a->value_ = value; return; }
    attrs_.emplace_back(new XMLAttribute()); attrs_.back()->name_ = name; attrs_.back()->value_ = value;
    if (attrs_.size() > 1) attrs_[attrs_.size() - 2]->next_ = attrs_.back().get();
  }
  void SetAttribute(const char* name, int v) { SetAttribute(name, std::to_string(v).c_str()); }
  void SetAttribute(const char* name, double v) { char b[64]; snprintf(b, sizeof b, "%.17g", v); SetAttribute(name, b); }
  XMLElement* FirstChildElement(const char* name = nullptr) {
    for (auto& c : kids_) if (!name || c->tag_ == name) return c.get();
    return nullptr;
  }
  const XMLElement* FirstChildElement(const char* name = nullptr) const { return const_cast<XMLElement*>(this)->FirstChildElement(name); }
  XMLElement* NextSiblingElement(const char* name = nullptr) {
    XMLElement* p = parent_ ? parent_->ToElement() : nullptr; if (!p) return nullptr;
    bool after = false;
    for (auto& c : p->kids_) { if (after && (!name || c->tag_ == name)) return c.get(); if (c.get() == this) after = true; }
    return nullptr;
  }
  const XMLElement* NextSiblingElement(const char* name = nullptr) const { return const_cast<XMLElement*>(this)->NextSiblingElement(name); }
  // DOM construction (harness side)
  XMLElement* AddChild(const char* tag, int line = 0) {
    kids_.emplace_back(new XMLElement()); kids_.back()->tag_ = tag; kids_.back()->parent_ = this; kids_.back()->line_ = line;
    return kids_.back().get();
  }
  std::string tag_; int line_ = 0;
  std::vector<std::unique_ptr<XMLAttribute>> attrs_;
  std::vector<std::unique_ptr<XMLElement>> kids_;
};
class XMLDocument : public XMLNode {
 public:
  XMLError Parse(const char*, size_t = (size_t)-1) { return XML_ERROR_PARSING; }
  const char* ErrorStr() const { return "XML tokenizer unavailable in the /verif DOM shim"; }
  XMLElement* RootElement() { return root_.get(); }
  XMLElement* NewRoot(const char* tag) { root_.reset(new XMLElement()); root_->tag_ = tag; root_->parent_ = this; return root_.get(); }
  std::unique_ptr<XMLElement> root_;
};
}  // namespace tinyxml2
#endif
