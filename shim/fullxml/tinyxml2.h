// /verif shim: self-contained stand-in for tinyxml2 (tokenizer + DOM + pretty printer), header only.
// Covers the part of the tinyxml2 interface that /repo/src/xml/*.cc use: XMLDocument::Parse / Print / New* /
// error reporting, XMLNode tree navigation and editing (Insert*, DeleteChild, DeepClone), XMLElement attributes,
// XMLComment / XMLText / XMLDeclaration / XMLUnknown nodes, XMLPrinter (CStr, virtual PrintSpace, Write).
// Tokenizer: recursive descent over elements, attributes with single or double quotes, text, CDATA, comments,
// <?...?> declarations, <!...> unknowns, the five standard entities and numeric character references, newline
// normalisation, line numbers.  Printing follows tinyxml2's layout rules (newline + PrintSpace(depth) before
// every node that is not inside text, "/>" for childless elements, attribute values with the five entities
// escaped, text with & < > escaped).
// This is part of the TRUSTED BASE of the checks that use it, not code under test; it is NOT tinyxml2.
#ifndef VERIF_FULL_TINYXML2_H
#define VERIF_FULL_TINYXML2_H
#include <cctype>
#include <cstdarg>
#include <cstddef>
#include <cstdint>
#include <cstdio>
#include <cstdlib>
#include <cstring>
#include <set>
#include <string>
#include <vector>

namespace tinyxml2 {

enum XMLError {
  XML_SUCCESS = 0,
  XML_NO_ATTRIBUTE,
  XML_WRONG_ATTRIBUTE_TYPE,
  XML_ERROR_FILE_NOT_FOUND,
  XML_ERROR_FILE_COULD_NOT_BE_OPENED,
  XML_ERROR_FILE_READ_ERROR,
  XML_ERROR_PARSING_ELEMENT,
  XML_ERROR_PARSING_ATTRIBUTE,
  XML_ERROR_PARSING_TEXT,
  XML_ERROR_PARSING_CDATA,
  XML_ERROR_PARSING_COMMENT,
  XML_ERROR_PARSING_DECLARATION,
  XML_ERROR_PARSING_UNKNOWN,
  XML_ERROR_EMPTY_DOCUMENT,
  XML_ERROR_MISMATCHED_ELEMENT,
  XML_ERROR_PARSING,
  XML_CAN_NOT_CONVERT_TEXT,
  XML_NO_TEXT_NODE,
  XML_ELEMENT_DEPTH_EXCEEDED,
  XML_ERROR_COUNT
};
enum Whitespace { PRESERVE_WHITESPACE, COLLAPSE_WHITESPACE, PEDANTIC_WHITESPACE };

class XMLDocument; class XMLElement; class XMLAttribute; class XMLComment; class XMLText;
class XMLDeclaration; class XMLUnknown; class XMLPrinter;

class XMLVisitor {
 public:
  virtual ~XMLVisitor() {}
  virtual bool VisitEnter(const XMLDocument&) { return true; }
  virtual bool VisitExit(const XMLDocument&) { return true; }
  virtual bool VisitEnter(const XMLElement&, const XMLAttribute*) { return true; }
  virtual bool VisitExit(const XMLElement&) { return true; }
  virtual bool Visit(const XMLDeclaration&) { return true; }
  virtual bool Visit(const XMLText&) { return true; }
  virtual bool Visit(const XMLComment&) { return true; }
  virtual bool Visit(const XMLUnknown&) { return true; }
};

class XMLAttribute {
 public:
  const char* Name() const { return name_.c_str(); }
  const char* Value() const { return value_.c_str(); }
  int GetLineNum() const { return line_; }
  const XMLAttribute* Next() const { return next_; }
  int IntValue() const { return (int)strtol(value_.c_str(), nullptr, 10); }
  double DoubleValue() const { return strtod(value_.c_str(), nullptr); }
  void SetAttribute(const char* v) { value_ = v ? v : ""; }
  std::string name_, value_; XMLAttribute* next_ = nullptr; int line_ = 0;
};

class XMLNode {
  friend class XMLDocument; friend class XMLElement;
 public:
  const XMLDocument* GetDocument() const { return doc_; }
  XMLDocument* GetDocument() { return doc_; }
  virtual XMLElement* ToElement() { return nullptr; }
  virtual XMLText* ToText() { return nullptr; }
  virtual XMLComment* ToComment() { return nullptr; }
  virtual XMLDocument* ToDocument() { return nullptr; }
  virtual XMLDeclaration* ToDeclaration() { return nullptr; }
  virtual XMLUnknown* ToUnknown() { return nullptr; }
  virtual const XMLElement* ToElement() const { return nullptr; }
  virtual const XMLText* ToText() const { return nullptr; }
  virtual const XMLComment* ToComment() const { return nullptr; }
  virtual const XMLDocument* ToDocument() const { return nullptr; }
  virtual const XMLDeclaration* ToDeclaration() const { return nullptr; }
  virtual const XMLUnknown* ToUnknown() const { return nullptr; }

  const char* Value() const { return ToDocument() ? nullptr : value_.c_str(); }
  void SetValue(const char* v, bool = false) { value_ = v ? v : ""; }
  int GetLineNum() const { return line_; }

  const XMLNode* Parent() const { return parent_; }
  XMLNode* Parent() { return parent_; }
  bool NoChildren() const { return !first_; }
  const XMLNode* FirstChild() const { return first_; }
  XMLNode* FirstChild() { return first_; }
  const XMLNode* LastChild() const { return last_; }
  XMLNode* LastChild() { return last_; }
  const XMLNode* PreviousSibling() const { return prev_; }
  XMLNode* PreviousSibling() { return prev_; }
  const XMLNode* NextSibling() const { return next_; }
  XMLNode* NextSibling() { return next_; }

  inline const XMLElement* FirstChildElement(const char* name = nullptr) const;
  XMLElement* FirstChildElement(const char* name = nullptr) {
    return const_cast<XMLElement*>(const_cast<const XMLNode*>(this)->FirstChildElement(name));
  }
  inline const XMLElement* LastChildElement(const char* name = nullptr) const;
  XMLElement* LastChildElement(const char* name = nullptr) {
    return const_cast<XMLElement*>(const_cast<const XMLNode*>(this)->LastChildElement(name));
  }
  inline const XMLElement* NextSiblingElement(const char* name = nullptr) const;
  XMLElement* NextSiblingElement(const char* name = nullptr) {
    return const_cast<XMLElement*>(const_cast<const XMLNode*>(this)->NextSiblingElement(name));
  }
  inline const XMLElement* PreviousSiblingElement(const char* name = nullptr) const;
  XMLElement* PreviousSiblingElement(const char* name = nullptr) {
    return const_cast<XMLElement*>(const_cast<const XMLNode*>(this)->PreviousSiblingElement(name));
  }

  inline XMLNode* InsertEndChild(XMLNode* addThis);
  XMLNode* LinkEndChild(XMLNode* addThis) { return InsertEndChild(addThis); }
  inline XMLNode* InsertFirstChild(XMLNode* addThis);
  inline XMLNode* InsertAfterChild(XMLNode* afterThis, XMLNode* addThis);
  inline void DeleteChildren();
  inline void DeleteChild(XMLNode* node);

  virtual XMLNode* ShallowClone(XMLDocument* document) const = 0;
  XMLNode* DeepClone(XMLDocument* target) const {
    XMLNode* clone = ShallowClone(target);
    if (!clone) return nullptr;
    for (const XMLNode* c = first_; c; c = c->next_) clone->InsertEndChild(c->DeepClone(target));
    return clone;
  }
  virtual bool Accept(XMLVisitor* visitor) const = 0;
  void SetUserData(void* u) { user_ = u; }
  void* GetUserData() const { return user_; }

 protected:
  explicit XMLNode(XMLDocument* d) : doc_(d) {}
  virtual ~XMLNode() { DeleteChildren(); }
  inline void Unlink(XMLNode* child);
  inline bool Preamble(XMLNode* add);
  static inline void Destroy(XMLNode* n);
  XMLDocument* doc_;
  XMLNode* parent_ = nullptr;
  XMLNode* first_ = nullptr; XMLNode* last_ = nullptr;
  XMLNode* prev_ = nullptr; XMLNode* next_ = nullptr;
  std::string value_;
  int line_ = 0;
  void* user_ = nullptr;
};

class XMLText : public XMLNode {
  friend class XMLDocument;
 public:
  XMLText* ToText() override { return this; }
  const XMLText* ToText() const override { return this; }
  void SetCData(bool c) { cdata_ = c; }
  bool CData() const { return cdata_; }
  inline XMLNode* ShallowClone(XMLDocument* document) const override;
  bool Accept(XMLVisitor* v) const override { return v->Visit(*this); }
 protected:
  explicit XMLText(XMLDocument* d) : XMLNode(d) {}
  bool cdata_ = false;
};

class XMLComment : public XMLNode {
  friend class XMLDocument;
 public:
  XMLComment* ToComment() override { return this; }
  const XMLComment* ToComment() const override { return this; }
  inline XMLNode* ShallowClone(XMLDocument* document) const override;
  bool Accept(XMLVisitor* v) const override { return v->Visit(*this); }
 protected:
  explicit XMLComment(XMLDocument* d) : XMLNode(d) {}
};

class XMLDeclaration : public XMLNode {
  friend class XMLDocument;
 public:
  XMLDeclaration* ToDeclaration() override { return this; }
  const XMLDeclaration* ToDeclaration() const override { return this; }
  inline XMLNode* ShallowClone(XMLDocument* document) const override;
  bool Accept(XMLVisitor* v) const override { return v->Visit(*this); }
 protected:
  explicit XMLDeclaration(XMLDocument* d) : XMLNode(d) {}
};

class XMLUnknown : public XMLNode {
  friend class XMLDocument;
 public:
  XMLUnknown* ToUnknown() override { return this; }
  const XMLUnknown* ToUnknown() const override { return this; }
  inline XMLNode* ShallowClone(XMLDocument* document) const override;
  bool Accept(XMLVisitor* v) const override { return v->Visit(*this); }
 protected:
  explicit XMLUnknown(XMLDocument* d) : XMLNode(d) {}
};

class XMLElement : public XMLNode {
  friend class XMLDocument;
 public:
  const char* Name() const { return value_.c_str(); }
  void SetName(const char* s, bool = false) { value_ = s ? s : ""; }
  XMLElement* ToElement() override { return this; }
  const XMLElement* ToElement() const override { return this; }

  const XMLAttribute* FindAttribute(const char* name) const {
    for (const XMLAttribute* a = attrs_; a; a = a->next_) if (a->name_ == name) return a;
    return nullptr;
  }
  const char* Attribute(const char* name, const char* value = nullptr) const {
    const XMLAttribute* a = FindAttribute(name);
    if (!a) return nullptr;
    if (!value || a->value_ == value) return a->value_.c_str();
    return nullptr;
  }
  const XMLAttribute* FirstAttribute() const { return attrs_; }
  int IntAttribute(const char* name, int dflt = 0) const { auto* a = FindAttribute(name); return a ? a->IntValue() : dflt; }
  double DoubleAttribute(const char* name, double dflt = 0) const { auto* a = FindAttribute(name); return a ? a->DoubleValue() : dflt; }

  void SetAttribute(const char* name, const char* value) { FindOrCreate(name)->value_ = value ? value : ""; }
  void SetAttribute(const char* name, int v) { char b[64]; snprintf(b, sizeof b, "%d", v); SetAttribute(name, b); }
  void SetAttribute(const char* name, unsigned v) { char b[64]; snprintf(b, sizeof b, "%u", v); SetAttribute(name, b); }
  void SetAttribute(const char* name, int64_t v) { char b[64]; snprintf(b, sizeof b, "%lld", (long long)v); SetAttribute(name, b); }
  void SetAttribute(const char* name, uint64_t v) { char b[64]; snprintf(b, sizeof b, "%llu", (unsigned long long)v); SetAttribute(name, b); }
  void SetAttribute(const char* name, bool v) { SetAttribute(name, v ? "true" : "false"); }
  void SetAttribute(const char* name, double v) { char b[64]; snprintf(b, sizeof b, "%.17g", v); SetAttribute(name, b); }
  void SetAttribute(const char* name, float v) { char b[64]; snprintf(b, sizeof b, "%.8g", (double)v); SetAttribute(name, b); }
  void DeleteAttribute(const char* name) {
    XMLAttribute* prev = nullptr;
    for (XMLAttribute* a = attrs_; a; prev = a, a = a->next_) {
      if (a->name_ == name) { if (prev) prev->next_ = a->next_; else attrs_ = a->next_; delete a; return; }
    }
  }
  const char* GetText() const {
    const XMLNode* n = first_;
    while (n && n->ToComment()) n = n->NextSibling();
    return (n && n->ToText()) ? n->Value() : nullptr;
  }
  inline void SetText(const char* text);
  inline XMLElement* InsertNewChildElement(const char* name);
  inline XMLComment* InsertNewComment(const char* comment);
  inline XMLText* InsertNewText(const char* text);

  inline XMLNode* ShallowClone(XMLDocument* document) const override;
  bool Accept(XMLVisitor* v) const override {
    if (v->VisitEnter(*this, attrs_)) {
      for (const XMLNode* n = first_; n; n = n->NextSibling()) if (!n->Accept(v)) break;
    }
    return v->VisitExit(*this);
  }
 protected:
  explicit XMLElement(XMLDocument* d) : XMLNode(d) {}
  ~XMLElement() override { while (attrs_) { XMLAttribute* n = attrs_->next_; delete attrs_; attrs_ = n; } }
  XMLAttribute* FindOrCreate(const char* name) {
    XMLAttribute* last = nullptr;
    for (XMLAttribute* a = attrs_; a; last = a, a = a->next_) if (a->name_ == name) return a;
    XMLAttribute* a = new XMLAttribute(); a->name_ = name;
    if (last) last->next_ = a; else attrs_ = a;
    return a;
  }
  XMLAttribute* AppendAttr(const std::string& name, const std::string& value, int line) {
    XMLAttribute* a = new XMLAttribute(); a->name_ = name; a->value_ = value; a->line_ = line;
    XMLAttribute* last = attrs_;
    while (last && last->next_) last = last->next_;
    if (last) last->next_ = a; else attrs_ = a;
    return a;
  }
  XMLAttribute* attrs_ = nullptr;
};

class XMLDocument : public XMLNode {
  friend class XMLNode; friend class XMLElement;
 public:
  explicit XMLDocument(bool processEntities = true, Whitespace ws = PRESERVE_WHITESPACE)
      : XMLNode(nullptr), entities_(processEntities), ws_(ws) { doc_ = this; }
  ~XMLDocument() override { Clear(); }
  XMLDocument(const XMLDocument&) = delete;
  void operator=(const XMLDocument&) = delete;
  XMLDocument* ToDocument() override { return this; }
  const XMLDocument* ToDocument() const override { return this; }

  XMLError Parse(const char* xml, size_t nBytes = static_cast<size_t>(-1)) {
    Clear();
    if (!xml || nBytes == 0 || !*xml) { SetError(XML_ERROR_EMPTY_DOCUMENT, 0, nullptr); return err_; }
    if (nBytes == static_cast<size_t>(-1)) nBytes = strlen(xml);
    buf_.assign(xml, nBytes);
    // a NUL inside the buffer terminates the text, as it does for tinyxml2's C-string scanner
    size_t z = buf_.find('\0'); if (z != std::string::npos) buf_.resize(z);
    p_ = 0; curline_ = 1; depth_ = 0;
    // UTF-8 byte order mark
    if (buf_.size() >= 3 && (unsigned char)buf_[0] == 0xEF && (unsigned char)buf_[1] == 0xBB && (unsigned char)buf_[2] == 0xBF) { bom_ = true; p_ = 3; }
    SkipWs();
    if (p_ >= buf_.size()) { SetError(XML_ERROR_EMPTY_DOCUMENT, 0, nullptr); return err_; }
    ParseChildren(this, nullptr);
    if (err_ != XML_SUCCESS) {
      // like tinyxml2: a failed parse leaves an empty document
      DeleteChildren();
      PurgeUnlinked();
    }
    buf_.clear();
    return err_;
  }
  XMLError LoadFile(const char* filename) {
    Clear();
    FILE* fp = filename ? fopen(filename, "rb") : nullptr;
    if (!fp) { SetError(XML_ERROR_FILE_NOT_FOUND, 0, filename); return err_; }
    std::string s; char b[65536]; size_t n;
    while ((n = fread(b, 1, sizeof b, fp)) > 0) s.append(b, n);
    fclose(fp);
    if (s.empty()) { SetError(XML_ERROR_EMPTY_DOCUMENT, 0, nullptr); return err_; }
    return Parse(s.data(), s.size());
  }
  inline XMLError SaveFile(const char* filename, bool compact = false);
  bool ProcessEntities() const { return entities_; }
  Whitespace WhitespaceMode() const { return ws_; }
  bool HasBOM() const { return bom_; }
  void SetBOM(bool b) { bom_ = b; }
  XMLElement* RootElement() { return FirstChildElement(); }
  const XMLElement* RootElement() const { return FirstChildElement(); }

  inline void Print(XMLPrinter* streamer = nullptr) const;
  bool Accept(XMLVisitor* v) const override {
    if (v->VisitEnter(*this)) {
      for (const XMLNode* n = first_; n; n = n->NextSibling()) if (!n->Accept(v)) break;
    }
    return v->VisitExit(*this);
  }

  XMLElement* NewElement(const char* name) { XMLElement* e = new XMLElement(this); e->value_ = name ? name : ""; unlinked_.insert(e); return e; }
  XMLComment* NewComment(const char* s) { XMLComment* e = new XMLComment(this); e->value_ = s ? s : ""; unlinked_.insert(e); return e; }
  XMLText* NewText(const char* s) { XMLText* e = new XMLText(this); e->value_ = s ? s : ""; unlinked_.insert(e); return e; }
  XMLDeclaration* NewDeclaration(const char* s = nullptr) {
    XMLDeclaration* e = new XMLDeclaration(this); e->value_ = s ? s : "xml version=\"1.0\" encoding=\"UTF-8\""; unlinked_.insert(e); return e;
  }
  XMLUnknown* NewUnknown(const char* s) { XMLUnknown* e = new XMLUnknown(this); e->value_ = s ? s : ""; unlinked_.insert(e); return e; }
  void DeleteNode(XMLNode* node) {
    if (!node) return;
    if (node->parent_) node->parent_->DeleteChild(node);
    else { unlinked_.erase(node); Destroy(node); }
  }

  void ClearError() { err_ = XML_SUCCESS; errline_ = 0; errstr_.clear(); }
  bool Error() const { return err_ != XML_SUCCESS; }
  XMLError ErrorID() const { return err_; }
  const char* ErrorName() const { return ErrorIDToName(err_); }
  static const char* ErrorIDToName(XMLError e) {
    static const char* names[XML_ERROR_COUNT] = {
      "XML_SUCCESS", "XML_NO_ATTRIBUTE", "XML_WRONG_ATTRIBUTE_TYPE", "XML_ERROR_FILE_NOT_FOUND",
      "XML_ERROR_FILE_COULD_NOT_BE_OPENED", "XML_ERROR_FILE_READ_ERROR", "XML_ERROR_PARSING_ELEMENT",
      "XML_ERROR_PARSING_ATTRIBUTE", "XML_ERROR_PARSING_TEXT", "XML_ERROR_PARSING_CDATA",
      "XML_ERROR_PARSING_COMMENT", "XML_ERROR_PARSING_DECLARATION", "XML_ERROR_PARSING_UNKNOWN",
      "XML_ERROR_EMPTY_DOCUMENT", "XML_ERROR_MISMATCHED_ELEMENT", "XML_ERROR_PARSING",
      "XML_CAN_NOT_CONVERT_TEXT", "XML_NO_TEXT_NODE", "XML_ELEMENT_DEPTH_EXCEEDED"};
    return (e >= 0 && e < XML_ERROR_COUNT) ? names[e] : "XML_ERROR_UNKNOWN";
  }
  const char* ErrorStr() const { return errstr_.c_str(); }
  void PrintError() const { fprintf(stdout, "%s\n", errstr_.c_str()); }
  int ErrorLineNum() const { return errline_; }
  void Clear() {
    DeleteChildren();
    PurgeUnlinked();
    ClearError();
    buf_.clear(); bom_ = false;
  }
  XMLNode* ShallowClone(XMLDocument*) const override { return nullptr; }
  void DeepCopy(XMLDocument* target) const {
    if (target == this) return;
    target->Clear();
    for (const XMLNode* n = first_; n; n = n->NextSibling()) target->InsertEndChild(n->DeepClone(target));
  }

 private:
  enum { kMaxDepth = 500 };
  void PurgeUnlinked() {
    while (!unlinked_.empty()) { XMLNode* n = *unlinked_.begin(); unlinked_.erase(unlinked_.begin()); Destroy(n); }
  }
  void SetError(XMLError e, int line, const char* fmt_detail) {
    err_ = e; errline_ = line;
    char b[512];
    snprintf(b, sizeof b, "Error=%s ErrorID=%d (0x%x) Line number=%d", ErrorIDToName(e), (int)e, (unsigned)e, line);
    errstr_ = b;
    if (fmt_detail && *fmt_detail) { errstr_ += ": "; errstr_ += fmt_detail; }
  }
  // ---- tokenizer ---------------------------------------------------------------------------------
  static bool IsWs(unsigned char c) { return c == ' ' || c == '\t' || c == '\n' || c == '\r' || c == '\v' || c == '\f'; }
  static bool IsNameStart(unsigned char c) { return c >= 128 || isalpha(c) || c == ':' || c == '_'; }
  static bool IsNameChar(unsigned char c) { return IsNameStart(c) || isdigit(c) || c == '.' || c == '-'; }
  bool At(const char* s) const { size_t n = strlen(s); return buf_.compare(p_, n, s) == 0; }
  void SkipWs() { while (p_ < buf_.size() && IsWs((unsigned char)buf_[p_])) { if (buf_[p_] == '\n') curline_++; p_++; } }
  // raw text up to (not including) the terminator; advances past the terminator; counts lines
  bool Until(const char* end, std::string& out) {
    size_t q = buf_.find(end, p_);
    if (q == std::string::npos) return false;
    out = buf_.substr(p_, q - p_);
    for (char c : out) if (c == '\n') curline_++;
    p_ = q + strlen(end);
    return true;
  }
  static void AppendUtf8(unsigned long u, std::string& o) {
    if (u < 0x80) o.push_back((char)u);
    else if (u < 0x800) { o.push_back((char)(0xC0 | (u >> 6))); o.push_back((char)(0x80 | (u & 0x3F))); }
    else if (u < 0x10000) { o.push_back((char)(0xE0 | (u >> 12))); o.push_back((char)(0x80 | ((u >> 6) & 0x3F))); o.push_back((char)(0x80 | (u & 0x3F))); }
    else { o.push_back((char)(0xF0 | (u >> 18))); o.push_back((char)(0x80 | ((u >> 12) & 0x3F))); o.push_back((char)(0x80 | ((u >> 6) & 0x3F))); o.push_back((char)(0x80 | (u & 0x3F))); }
  }
  // newline normalisation (CR LF, LF CR, CR -> LF) and entity translation
  std::string Cook(const std::string& raw, bool entities, bool newlines) const {
    std::string o; o.reserve(raw.size());
    for (size_t i = 0; i < raw.size();) {
      char c = raw[i];
      if (newlines && c == '\r') { o.push_back('\n'); i += (i + 1 < raw.size() && raw[i + 1] == '\n') ? 2 : 1; continue; }
      if (newlines && c == '\n') { o.push_back('\n'); i += (i + 1 < raw.size() && raw[i + 1] == '\r') ? 2 : 1; continue; }
      if (entities && entities_ && c == '&') {
        if (i + 1 < raw.size() && raw[i + 1] == '#') {
          size_t semi = raw.find(';', i + 2);
          if (semi != std::string::npos && semi > i + 2 && semi - i <= 10) {
            bool hex = raw[i + 2] == 'x';
            std::string digits = raw.substr(i + (hex ? 3 : 2), semi - i - (hex ? 3 : 2));
            char* e = nullptr;
            unsigned long u = strtoul(digits.c_str(), &e, hex ? 16 : 10);
            if (!digits.empty() && e && !*e && u <= 0x10FFFF) { AppendUtf8(u, o); i = semi + 1; continue; }
          }
          o.push_back(c); i++; continue;
        }
        static const struct { const char* pat; char v; } ents[] = {
          {"quot;", '"'}, {"amp;", '&'}, {"apos;", '\''}, {"lt;", '<'}, {"gt;", '>'}};
        bool hit = false;
        for (auto& e : ents) {
          size_t n = strlen(e.pat);
          if (raw.compare(i + 1, n, e.pat) == 0) { o.push_back(e.v); i += n + 1; hit = true; break; }
        }
        if (hit) continue;
        o.push_back(c); i++; continue;
      }
      o.push_back(c); i++;
    }
    return o;
  }
  // parse the children of `parent` until its end tag (or end of input for the document)
  void ParseChildren(XMLNode* parent, const std::string* endname) {
    if (++depth_ > kMaxDepth) { SetError(XML_ELEMENT_DEPTH_EXCEEDED, curline_, "Element nesting is too deep."); depth_--; return; }
    while (true) {
      size_t start = p_; int startline = curline_;
      SkipWs();
      if (p_ >= buf_.size()) {
        if (endname) SetError(XML_ERROR_PARSING_ELEMENT, parent->line_, ("XMLElement name=" + *endname).c_str());
        break;
      }
      int line = curline_;
      std::string raw;
      if (At("<?")) {
        p_ += 2;
        if (!Until("?>", raw)) { SetError(XML_ERROR_PARSING_DECLARATION, line, nullptr); break; }
        XMLDeclaration* d = NewDeclaration(nullptr); d->value_ = raw; d->line_ = line;
        // a declaration must come before anything else in the document
        bool wellLocated = parent->ToDocument() != nullptr;
        for (XMLNode* n = parent->first_; n && wellLocated; n = n->next_) if (!n->ToDeclaration()) wellLocated = false;
        if (!wellLocated) { SetError(XML_ERROR_PARSING_DECLARATION, line, ("XMLDeclaration value=" + raw).c_str()); break; }
        parent->InsertEndChild(d);
      } else if (At("<!--")) {
        p_ += 4;
        if (!Until("-->", raw)) { SetError(XML_ERROR_PARSING_COMMENT, line, nullptr); break; }
        XMLComment* c = NewComment(nullptr); c->value_ = Cook(raw, false, false); c->line_ = line;
        parent->InsertEndChild(c);
      } else if (At("<![CDATA[")) {
        p_ += 9;
        if (!Until("]]>", raw)) { SetError(XML_ERROR_PARSING_CDATA, line, nullptr); break; }
        XMLText* t = NewText(nullptr); t->value_ = raw; t->cdata_ = true; t->line_ = line;
        parent->InsertEndChild(t);
      } else if (At("<!")) {
        p_ += 2;
        if (!Until(">", raw)) { SetError(XML_ERROR_PARSING_UNKNOWN, line, nullptr); break; }
        XMLUnknown* u = NewUnknown(nullptr); u->value_ = raw; u->line_ = line;
        parent->InsertEndChild(u);
      } else if (At("</")) {
        p_ += 2;
        size_t q = p_;
        while (q < buf_.size() && IsNameChar((unsigned char)buf_[q])) q++;
        std::string name = buf_.substr(p_, q - p_);
        p_ = q; SkipWs();
        if (p_ >= buf_.size() || buf_[p_] != '>') { SetError(XML_ERROR_PARSING_ELEMENT, line, ("XMLElement name=" + name).c_str()); break; }
        p_++;
        if (!endname || name != *endname) { SetError(XML_ERROR_MISMATCHED_ELEMENT, line, ("XMLElement name=" + name).c_str()); break; }
        depth_--;
        return;
      } else if (buf_[p_] == '<') {
        p_++;
        if (p_ >= buf_.size() || !IsNameStart((unsigned char)buf_[p_])) { SetError(XML_ERROR_PARSING_ELEMENT, line, nullptr); break; }
        size_t q = p_;
        while (q < buf_.size() && IsNameChar((unsigned char)buf_[q])) q++;
        XMLElement* e = NewElement(nullptr); e->value_ = buf_.substr(p_, q - p_); e->line_ = line;
        p_ = q;
        parent->InsertEndChild(e);
        bool closed = false;
        if (!ParseAttributes(e, closed)) break;
        if (!closed) {
          std::string nm = e->value_;
          ParseChildren(e, &nm);
          if (err_ != XML_SUCCESS) break;
        }
      } else {
        // text: all of it counts, including the leading white space
        p_ = start; curline_ = startline;
        size_t q = buf_.find('<', p_);
        if (q == std::string::npos) {
          if (!endname) { SetError(XML_ERROR_PARSING_TEXT, line, nullptr); break; }
          q = buf_.size();
        }
        raw = buf_.substr(p_, q - p_);
        for (char c : raw) if (c == '\n') curline_++;
        p_ = q;
        if (!endname) { SetError(XML_ERROR_PARSING_TEXT, line, nullptr); break; }   // text outside the root element
        XMLText* t = NewText(nullptr); t->value_ = Cook(raw, true, true); t->line_ = line;
        if (ws_ == COLLAPSE_WHITESPACE) t->value_ = Collapse(t->value_);
        parent->InsertEndChild(t);
      }
    }
    depth_--;
  }
  static std::string Collapse(const std::string& s) {
    std::string o; bool sp = false;
    for (char c : s) { if (IsWs((unsigned char)c)) sp = !o.empty(); else { if (sp) o.push_back(' '); sp = false; o.push_back(c); } }
    return o;
  }
  bool ParseAttributes(XMLElement* e, bool& closed) {
    while (true) {
      SkipWs();
      if (p_ >= buf_.size()) { SetError(XML_ERROR_PARSING_ELEMENT, e->line_, ("XMLElement name=" + e->value_).c_str()); return false; }
      unsigned char c = (unsigned char)buf_[p_];
      if (IsNameStart(c)) {
        int aline = curline_;
        size_t q = p_;
        while (q < buf_.size() && IsNameChar((unsigned char)buf_[q])) q++;
        std::string name = buf_.substr(p_, q - p_);
        p_ = q; SkipWs();
        if (p_ >= buf_.size() || buf_[p_] != '=') { SetError(XML_ERROR_PARSING_ATTRIBUTE, aline, ("XMLElement name=" + e->value_).c_str()); return false; }
        p_++; SkipWs();
        if (p_ >= buf_.size() || (buf_[p_] != '"' && buf_[p_] != '\'')) { SetError(XML_ERROR_PARSING_ATTRIBUTE, aline, ("XMLElement name=" + e->value_).c_str()); return false; }
        char quote[2] = {buf_[p_], 0};
        p_++;
        std::string raw;
        if (!Until(quote, raw)) { SetError(XML_ERROR_PARSING_ATTRIBUTE, aline, ("XMLElement name=" + e->value_).c_str()); return false; }
        e->AppendAttr(name, Cook(raw, true, true), aline);
      } else if (c == '>') { p_++; closed = false; return true; }
      else if (c == '/' && p_ + 1 < buf_.size() && buf_[p_ + 1] == '>') { p_ += 2; closed = true; return true; }
      else { SetError(XML_ERROR_PARSING_ELEMENT, e->line_, ("XMLElement name=" + e->value_).c_str()); return false; }
    }
  }

  bool entities_; Whitespace ws_; bool bom_ = false;
  XMLError err_ = XML_SUCCESS; int errline_ = 0; std::string errstr_;
  std::set<XMLNode*> unlinked_;
  std::string buf_; size_t p_ = 0; int curline_ = 0; int depth_ = 0;
};

// ---- XMLNode inline members --------------------------------------------------------------------------
inline void XMLNode::Destroy(XMLNode* n) { delete n; }
inline const XMLElement* XMLNode::FirstChildElement(const char* name) const {
  for (const XMLNode* n = first_; n; n = n->next_) { const XMLElement* e = n->ToElement(); if (e && (!name || e->value_ == name)) return e; }
  return nullptr;
}
inline const XMLElement* XMLNode::LastChildElement(const char* name) const {
  for (const XMLNode* n = last_; n; n = n->prev_) { const XMLElement* e = n->ToElement(); if (e && (!name || e->value_ == name)) return e; }
  return nullptr;
}
inline const XMLElement* XMLNode::NextSiblingElement(const char* name) const {
  for (const XMLNode* n = next_; n; n = n->next_) { const XMLElement* e = n->ToElement(); if (e && (!name || e->value_ == name)) return e; }
  return nullptr;
}
inline const XMLElement* XMLNode::PreviousSiblingElement(const char* name) const {
  for (const XMLNode* n = prev_; n; n = n->prev_) { const XMLElement* e = n->ToElement(); if (e && (!name || e->value_ == name)) return e; }
  return nullptr;
}
inline void XMLNode::Unlink(XMLNode* child) {
  if (child == first_) first_ = first_->next_;
  if (child == last_) last_ = last_->prev_;
  if (child->prev_) child->prev_->next_ = child->next_;
  if (child->next_) child->next_->prev_ = child->prev_;
  child->next_ = child->prev_ = nullptr; child->parent_ = nullptr;
}
inline bool XMLNode::Preamble(XMLNode* add) {
  if (!add || add->doc_ != doc_) return false;
  if (add->parent_) add->parent_->Unlink(add);
  else doc_->unlinked_.erase(add);
  return true;
}
inline XMLNode* XMLNode::InsertEndChild(XMLNode* add) {
  if (!Preamble(add)) return nullptr;
  if (last_) { last_->next_ = add; add->prev_ = last_; last_ = add; add->next_ = nullptr; }
  else { first_ = last_ = add; add->prev_ = add->next_ = nullptr; }
  add->parent_ = this;
  return add;
}
inline XMLNode* XMLNode::InsertFirstChild(XMLNode* add) {
  if (!Preamble(add)) return nullptr;
  if (first_) { first_->prev_ = add; add->next_ = first_; first_ = add; add->prev_ = nullptr; }
  else { first_ = last_ = add; add->prev_ = add->next_ = nullptr; }
  add->parent_ = this;
  return add;
}
inline XMLNode* XMLNode::InsertAfterChild(XMLNode* after, XMLNode* add) {
  if (!add || add->doc_ != doc_ || !after || after->parent_ != this) return nullptr;
  if (after == add) return add;
  if (!after->next_) return InsertEndChild(add);
  Preamble(add);
  add->prev_ = after; add->next_ = after->next_;
  after->next_->prev_ = add; after->next_ = add;
  add->parent_ = this;
  return add;
}
inline void XMLNode::DeleteChildren() {
  while (first_) { XMLNode* n = first_; Unlink(n); Destroy(n); }
}
inline void XMLNode::DeleteChild(XMLNode* node) {
  if (!node || node->parent_ != this) return;
  Unlink(node); Destroy(node);
}
inline XMLNode* XMLText::ShallowClone(XMLDocument* d) const { if (!d) d = doc_; XMLText* t = d->NewText(Value()); t->SetCData(cdata_); return t; }
inline XMLNode* XMLComment::ShallowClone(XMLDocument* d) const { if (!d) d = doc_; return d->NewComment(Value()); }
inline XMLNode* XMLDeclaration::ShallowClone(XMLDocument* d) const { if (!d) d = doc_; return d->NewDeclaration(Value()); }
inline XMLNode* XMLUnknown::ShallowClone(XMLDocument* d) const { if (!d) d = doc_; return d->NewUnknown(Value()); }
inline XMLNode* XMLElement::ShallowClone(XMLDocument* d) const {
  if (!d) d = doc_;
  XMLElement* e = d->NewElement(Value());
  for (const XMLAttribute* a = attrs_; a; a = a->Next()) e->SetAttribute(a->Name(), a->Value());
  return e;
}
inline void XMLElement::SetText(const char* text) {
  if (first_ && first_->ToText()) first_->SetValue(text);
  else InsertFirstChild(doc_->NewText(text));
}
inline XMLElement* XMLElement::InsertNewChildElement(const char* name) { XMLElement* e = doc_->NewElement(name); return InsertEndChild(e) ? e : nullptr; }
inline XMLComment* XMLElement::InsertNewComment(const char* c) { XMLComment* e = doc_->NewComment(c); return InsertEndChild(e) ? e : nullptr; }
inline XMLText* XMLElement::InsertNewText(const char* t) { XMLText* e = doc_->NewText(t); return InsertEndChild(e) ? e : nullptr; }

// ---- printer -----------------------------------------------------------------------------------------
class XMLPrinter : public XMLVisitor {
 public:
  XMLPrinter(FILE* file = nullptr, bool compact = false, int depth = 0)
      : fp_(file), compact_(compact), depth_(depth) {}
  ~XMLPrinter() override {}

  void PushHeader(bool writeBOM, bool writeDeclaration) {
    if (writeBOM) { static const char bom[] = {(char)0xEF, (char)0xBB, (char)0xBF, 0}; Write(bom); }
    if (writeDeclaration) PushDeclaration("xml version=\"1.0\"");
  }
  void OpenElement(const char* name, bool compactMode = false) {
    PrepareForNewNode(compactMode);
    stack_.push_back(name);
    Write("<"); Write(name);
    justOpened_ = true;
    ++depth_;
  }
  void PushAttribute(const char* name, const char* value) {
    Putc(' '); Write(name); Write("=\""); PrintString(value, false); Putc('"');
  }
  virtual void CloseElement(bool compactMode = false) {
    --depth_;
    std::string name = stack_.back(); stack_.pop_back();
    if (justOpened_) Write("/>");
    else {
      if (textDepth_ < 0 && !compactMode) { Putc('\n'); PrintSpace(depth_); }
      Write("</"); Write(name.c_str()); Write(">");
    }
    if (textDepth_ == depth_) textDepth_ = -1;
    if (depth_ == 0 && !compactMode) Putc('\n');
    justOpened_ = false;
  }
  void PushText(const char* text, bool cdata = false) {
    textDepth_ = depth_ - 1;
    SealElementIfJustOpened();
    if (cdata) { Write("<![CDATA["); Write(text); Write("]]>"); }
    else PrintString(text, true);
  }
  void PushComment(const char* comment) { PrepareForNewNode(compact_); Write("<!--"); Write(comment); Write("-->"); }
  void PushDeclaration(const char* value) { PrepareForNewNode(compact_); Write("<?"); Write(value); Write("?>"); }
  void PushUnknown(const char* value) { PrepareForNewNode(compact_); Write("<!"); Write(value); Putc('>'); }

  bool VisitEnter(const XMLDocument& doc) override { processEntities_ = doc.ProcessEntities(); if (doc.HasBOM()) PushHeader(true, false); return true; }
  bool VisitExit(const XMLDocument&) override { return true; }
  bool VisitEnter(const XMLElement& element, const XMLAttribute* attribute) override {
    const XMLElement* parentElem = element.Parent() ? element.Parent()->ToElement() : nullptr;
    const bool compactMode = parentElem ? CompactMode(*parentElem) : compact_;
    OpenElement(element.Name(), compactMode);
    for (; attribute; attribute = attribute->Next()) PushAttribute(attribute->Name(), attribute->Value());
    return true;
  }
  bool VisitExit(const XMLElement& element) override { CloseElement(CompactMode(element)); return true; }
  bool Visit(const XMLText& text) override { PushText(text.Value(), text.CData()); return true; }
  bool Visit(const XMLComment& comment) override { PushComment(comment.Value()); return true; }
  bool Visit(const XMLDeclaration& declaration) override { PushDeclaration(declaration.Value()); return true; }
  bool Visit(const XMLUnknown& unknown) override { PushUnknown(unknown.Value()); return true; }

  const char* CStr() const { return buffer_.c_str(); }
  size_t CStrSize() const { return buffer_.size() + 1; }
  void ClearBuffer(bool resetToFirstElement = true) { buffer_.clear(); firstElement_ = resetToFirstElement; }

 protected:
  virtual bool CompactMode(const XMLElement&) { return compact_; }
  virtual void PrintSpace(int depth) { for (int i = 0; i < depth; ++i) Write("    "); }
  virtual void Print(const char* format, ...) {
    va_list va; va_start(va, format);
    char b[4096]; vsnprintf(b, sizeof b, format, va); va_end(va);
    Write(b);
  }
  virtual void Write(const char* data, size_t size) {
    if (fp_) fwrite(data, 1, size, fp_); else buffer_.append(data, size);
  }
  virtual void Putc(char ch) { if (fp_) fputc(ch, fp_); else buffer_.push_back(ch); }
  inline void Write(const char* data) { Write(data, strlen(data)); }
  void SealElementIfJustOpened() { if (!justOpened_) return; justOpened_ = false; Putc('>'); }
  bool justOpened_ = false;
  std::vector<std::string> stack_;

 private:
  void PrepareForNewNode(bool compactMode) {
    SealElementIfJustOpened();
    if (compactMode) return;
    if (firstElement_) PrintSpace(depth_);
    else if (textDepth_ < 0) { Putc('\n'); PrintSpace(depth_); }
    firstElement_ = false;
  }
  void PrintString(const char* p, bool restricted) {
    if (!processEntities_) { Write(p); return; }
    for (; *p; ++p) {
      switch (*p) {
        case '&': Write("&amp;"); break;
        case '<': Write("&lt;"); break;
        case '>': Write("&gt;"); break;
        case '"': if (restricted) Putc(*p); else Write("&quot;"); break;
        case '\'': if (restricted) Putc(*p); else Write("&apos;"); break;
        default: Putc(*p);
      }
    }
  }
  FILE* fp_; bool compact_; int depth_;
  bool firstElement_ = true; int textDepth_ = -1; bool processEntities_ = true;
  std::string buffer_;
};

inline void XMLDocument::Print(XMLPrinter* streamer) const {
  if (streamer) Accept(streamer);
  else { XMLPrinter stdoutStreamer(stdout); Accept(&stdoutStreamer); }
}
inline XMLError XMLDocument::SaveFile(const char* filename, bool compact) {
  if (!filename) { SetError(XML_ERROR_FILE_COULD_NOT_BE_OPENED, 0, "filename=<null>"); return err_; }
  FILE* fp = fopen(filename, "w");
  if (!fp) { SetError(XML_ERROR_FILE_COULD_NOT_BE_OPENED, 0, filename); return err_; }
  ClearError();
  XMLPrinter stream(fp, compact);
  Print(&stream);
  fclose(fp);
  return err_;
}

}  // namespace tinyxml2
#endif
